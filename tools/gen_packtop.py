"""Translator (C10): the Python side of the pack format, function bodies statement by statement
                                                                        -> coq/gen/PackTopGen.v, PackLenGen.v, PackRxnGen.v
    chython/containers/__init__.py : unpach                       -> gen_unpach
    chython/containers/molecule.py : MoleculeContainer.unpack     -> gen_mol_unpack
    chython/containers/reaction.py : ReactionContainer.unpack     -> gen_rxn_unpack   (+ parameter order of __init__)
    chython/containers/molecule.py : MoleculeContainer.pack_len   -> gen_mol_pack_len                     (PackLenGen.v)
    chython/containers/reaction.py : ReactionContainer.pack_len   -> gen_rxn_pack_len                     (PackLenGen.v)
    chython/containers/reaction.py : ReactionContainer.pack (one expression, matched structurally) + molecules() + the role
                                     properties + the parameter storage of __init__ -> gen_rxn_pack       (PackRxnGen.v)

Each body is translated from its `ast` into Gallina in the exception monad of Model.PyBase (`bind`, `Err ValueError`...;
the tiny runtime -- py_index, dict_get, dict_has, for_each, for_range, py_slice, py_from -- is Model.PackTop).  What the
bodies CALL (decompress, the .pyx decoder, MoleculeContainer.unpack seen from the other two functions, mol.bond(..)._stereo
= s, mol.calc_labels()) are parameters of the generated definitions; proofs/PackTopProofs.v instantiates them with the
hand-written model and proves generated = hand-written for all inputs.

FAIL CLOSED: every statement / expression outside this fragment raises TranslatorError.
  statements : docstring; `from .<mod> import <name> as <alias>` (must be a listed primitive); `x = e`, `a, b, c = e`,
               `x: T = []`, `x += e`; `if t: .. [else: ..]` (the statements after it continue BOTH branches; a branch
               ending in return / raise is closed); `for a, b, c in <name>:` and `for _ in range(e):` (the variables
               assigned or mutated in the body that exist before the loop are the loop state); `try: <body ending in
               return> except <Exc>: pass`; `return e`; `raise <Exc>(..)`; `<list>.append(e)`; `mol.calc_labels()`;
               `mol.bond(*e)._stereo = s` / `mol.bond(a, b)._stereo = s`
  expressions: names, int constants, tuples, `+ - *`, `== != < <= > >=`, `x in (c1, c2, ..)`, `k in <dict attribute>`,
               `not t`, `<bytes>[const]` (IndexError), `<dict attribute>[k]` (KeyError), slices `l[a:]`, `l[:b]`, `l[a:b]`,
               calls of the listed primitives with exactly the listed keyword constants, `cls(..)` (arguments placed
               by the parameter NAMES of __init__ into the role order reactants, reagents, products);
               for the length helpers also `>> c`, `& c`, `x //= c`, `int.from_bytes(<slice>, 'big')`, `ceil(e / c)` (only with
               `from math import ceil`), `<bytes>[<int variable>]`, `a or b or c` on integer variables, `x not in (c1, ..)`
Tie theorems: proofs/PackTopProofs.v, PackLenTie.v, PackRxnTie.v (generated = hand-written model, all inputs).
"""
import ast
import os
import sys

sys.path.insert(0, os.path.dirname(__file__))
from coqfmt import *  # noqa

EXCEPTIONS = {'ValueError', 'KeyError', 'IndexError', 'TypeError'}


def cid(name):
    """Coq identifier of a Python name"""
    if name == '_':
        return '_'
    return ('u' + name) if name.startswith('_') else name


class Prim:
    def __init__(self, coq, npos, kw=None, monadic=True, identity=False):
        self.coq, self.npos, self.kw, self.monadic, self.identity = coq, npos, kw or {}, monadic, identity


class Fn:
    """one function body -> one Gallina term"""

    def __init__(self, where, prims, dict_attrs, ret_wrap, ctor=None, imports=None):
        self.where, self.prims, self.dict_attrs, self.ret_wrap, self.ctor = where, prims, dict_attrs, ret_wrap, ctor
        self.imports = imports or {}
        self.tmp = 0
        self.int_names = set()     # names known to hold integers (index / truthiness forms)
        self.ceil_ok = False       # `from math import ceil` seen at module level
        self.bytes_names = {'data'}

    def fail(self, node, why):
        raise TranslatorError(f'{self.where}: line {getattr(node, "lineno", "?")}: {why}: {ast.unparse(node)[:120]!r}')

    def fresh(self):
        self.tmp += 1
        return f't{self.tmp}'

    # ---- expressions: (binds, term); binds = [(pattern, monadic term)] evaluated in order before the term
    def expr(self, e):
        if isinstance(e, ast.Name):
            return [], cid(e.id)
        if isinstance(e, ast.Constant) and type(e.value) is int:
            return [], zraw(e.value)
        if isinstance(e, ast.Constant) and type(e.value) is bool:
            return [], b(e.value)
        if isinstance(e, ast.Tuple):
            bs, ts = [], []
            for x in e.elts:
                b1, t1 = self.expr(x)
                bs += b1
                ts.append(t1)
            return bs, '(' + ', '.join(ts) + ')'
        if isinstance(e, ast.List) and not e.elts:
            return [], '[]'
        if isinstance(e, ast.BinOp) and type(e.op) in (ast.Add, ast.Sub, ast.Mult):
            b1, t1 = self.expr(e.left)
            b2, t2 = self.expr(e.right)
            sym = {ast.Add: '+', ast.Sub: '-', ast.Mult: '*'}[type(e.op)]
            return b1 + b2, f'({t1} {sym} {t2})'
        if isinstance(e, ast.BinOp) and type(e.op) in (ast.RShift, ast.BitAnd) and isinstance(e.right, ast.Constant) and type(e.right.value) is int \
                and e.right.value >= 0:
            b1, t1 = self.expr(e.left)
            return b1, f'({"Z.shiftr" if isinstance(e.op, ast.RShift) else "Z.land"} {t1} {e.right.value})'
        if isinstance(e, ast.BoolOp) and isinstance(e.op, ast.Or) and all(isinstance(x, ast.Name) and x.id in self.int_names for x in e.values):
            # truthiness of integers
            return [], '(' + ' || '.join(f'py_truthy {cid(x.id)}' for x in e.values) + ')'
        if isinstance(e, ast.UnaryOp) and isinstance(e.op, ast.Not):
            b1, t1 = self.expr(e.operand)
            return b1, f'(negb {t1})'
        if isinstance(e, ast.Compare) and len(e.ops) == 1:
            op, right = e.ops[0], e.comparators[0]
            b1, t1 = self.expr(e.left)
            if isinstance(op, ast.NotIn) and isinstance(right, ast.Tuple) and all(isinstance(x, ast.Constant) and type(x.value) is int for x in right.elts):
                return b1, f'(negb (zmem {t1} {lst([x.value for x in right.elts], zraw)}))'
            if isinstance(op, ast.In):
                if isinstance(right, ast.Tuple) and all(isinstance(x, ast.Constant) and type(x.value) is int for x in right.elts):
                    return b1, f'(zmem {t1} {lst([x.value for x in right.elts], zraw)})'
                if isinstance(right, ast.Attribute) and right.attr in self.dict_attrs:
                    b2, t2 = self.expr(right)
                    return b1 + b2, f'(dict_has {t2} {t1})'
                self.fail(e, 'membership test outside the fragment')
            ops = {ast.Eq: '{} =? {}', ast.NotEq: 'negb ({} =? {})', ast.Lt: '{} <? {}', ast.LtE: '{} <=? {}', ast.Gt: '{} >? {}', ast.GtE: '{} >=? {}'}
            if type(op) in ops:
                b2, t2 = self.expr(right)
                return b1 + b2, '(' + ops[type(op)].format(t1, t2) + ')'
            self.fail(e, 'comparison outside the fragment')
        if isinstance(e, ast.Attribute) and e.attr in self.dict_attrs and isinstance(e.value, ast.Name):
            return [], f'({self.dict_attrs[e.attr]} {cid(e.value.id)})'
        if isinstance(e, ast.Subscript):
            if isinstance(e.slice, ast.Slice):
                if e.slice.step is not None or not isinstance(e.value, ast.Name):
                    self.fail(e, 'slice outside the fragment')
                base = cid(e.value.id)
                bs = []
                lo = hi = None
                if e.slice.lower is not None:
                    b1, lo = self.expr(e.slice.lower)
                    bs += b1
                if e.slice.upper is not None:
                    b1, hi = self.expr(e.slice.upper)
                    bs += b1
                if hi is None:
                    return bs, f'(py_from {base} {lo if lo is not None else 0})'
                return bs, f'(py_slice {base} {lo if lo is not None else 0} {hi})'
            if isinstance(e.value, ast.Attribute) and e.value.attr in self.dict_attrs:
                b1, t1 = self.expr(e.value)
                b2, t2 = self.expr(e.slice)
                v = self.fresh()
                return b1 + b2 + [(v, f'dict_get {t1} {t2}')], v
            if isinstance(e.value, ast.Name) and isinstance(e.slice, ast.Constant) and type(e.slice.value) is int and e.slice.value >= 0:
                v = self.fresh()
                return [(v, f'py_index {cid(e.value.id)} {e.slice.value}')], v
            if isinstance(e.value, ast.Name) and isinstance(e.slice, ast.Name) and e.slice.id in self.int_names:
                # a variable index: the proof obligation side must show it is never negative (py_index has no wrap-around)
                v = self.fresh()
                return [(v, f'py_index {cid(e.value.id)} {cid(e.slice.id)}')], v
            self.fail(e, 'subscript outside the fragment')
        if isinstance(e, ast.Call):
            return self.call(e)
        self.fail(e, 'expression outside the fragment')

    def call(self, e):
        fname = ast.unparse(e.func)
        if fname == 'int.from_bytes' and len(e.args) == 2 and not e.keywords and isinstance(e.args[1], ast.Constant) and e.args[1].value == 'big':
            b1, t1 = self.expr(e.args[0])
            return b1, f'(be_bytes {t1})'
        if fname == 'ceil' and self.ceil_ok and len(e.args) == 1 and not e.keywords and isinstance(e.args[0], ast.BinOp) and isinstance(e.args[0].op, ast.Div) \
                and isinstance(e.args[0].right, ast.Constant) and type(e.args[0].right.value) is int and e.args[0].right.value > 0:
            # ceil(a / b) on integers (true division, exact for the magnitudes of a pack)
            b1, t1 = self.expr(e.args[0].left)
            return b1, f'(py_ceil_div {t1} {e.args[0].right.value})'
        if fname == 'cls' and self.ctor is not None:
            if e.keywords or len(e.args) > len(self.ctor) or any(isinstance(a, ast.Starred) for a in e.args):
                self.fail(e, 'constructor call outside the fragment')
            bs, byname = [], {}
            for pname, a in zip(self.ctor, e.args):
                b1, t1 = self.expr(a)
                bs += b1
                byname[pname] = t1
            if set(byname) != {'reactants', 'reagents', 'products'}:
                self.fail(e, f'constructor arguments {sorted(byname)} are not the three roles')
            return bs, f'({byname["reactants"]}, {byname["reagents"]}, {byname["products"]})'
        if fname in self.imports:
            fname = self.imports[fname]
        if fname not in self.prims:
            self.fail(e, f'call of {fname} is not a listed primitive')
        p = self.prims[fname]
        if len(e.args) != p.npos or any(isinstance(a, ast.Starred) for a in e.args):
            self.fail(e, f'{fname}: expected {p.npos} positional arguments')
        kws = {}
        for k in e.keywords:
            if k.arg is None or not isinstance(k.value, ast.Constant):
                self.fail(e, f'{fname}: keyword outside the fragment')
            kws[k.arg] = k.value.value
        if kws != p.kw:
            self.fail(e, f'{fname}: keywords {kws} differ from the expected {p.kw}')
        bs, ts = [], []
        for a in e.args:
            b1, t1 = self.expr(a)
            bs += b1
            ts.append(t1)
        if p.identity:
            return bs, ts[0]
        term = f'{p.coq} ' + ' '.join(ts)
        if p.monadic:
            v = self.fresh()
            return bs + [(v, term)], v
        return bs, f'({term})'

    def is_int(self, e):
        """the expression is an integer by its form"""
        if isinstance(e, ast.Constant):
            return type(e.value) is int
        if isinstance(e, ast.Name):
            return e.id in self.int_names
        if isinstance(e, ast.BinOp) and type(e.op) in (ast.Add, ast.Sub, ast.Mult, ast.RShift, ast.BitAnd):
            return self.is_int(e.left) and self.is_int(e.right)
        if isinstance(e, ast.Subscript) and isinstance(e.value, ast.Name) and e.value.id in self.bytes_names and not isinstance(e.slice, ast.Slice):
            return True
        if isinstance(e, ast.Call) and ast.unparse(e.func) in ('int.from_bytes', 'ceil'):
            return True
        return False

    @staticmethod
    def seq(binds, body):
        for pat, term in reversed(binds):
            body = f"bind ({term}) (fun {pat} => {body})"
        return body

    @staticmethod
    def pat(names):
        return names[0] if len(names) == 1 else "'(" + ', '.join(names) + ')'

    # ---- statements
    def assigned(self, stmts):
        """names assigned or mutated in a statement list, in first-occurrence order"""
        out = []

        def add(n):
            if n not in out:
                out.append(n)
        for s in stmts:
            for node in ast.walk(s):
                if isinstance(node, (ast.Assign, ast.AnnAssign, ast.AugAssign)):
                    for t in (node.targets if isinstance(node, ast.Assign) else [node.target]):
                        for x in ast.walk(t):
                            if isinstance(x, ast.Name) and isinstance(x.ctx, ast.Store):
                                add(x.id)
                        if isinstance(t, ast.Attribute):   # mol.bond(..)._stereo = s mutates mol
                            base = t
                            while not isinstance(base, ast.Name):
                                base = base.func if isinstance(base, ast.Call) else base.value
                            add(base.id)
                elif isinstance(node, ast.Expr) and isinstance(node.value, ast.Call) and isinstance(node.value.func, ast.Attribute) \
                        and isinstance(node.value.func.value, ast.Name):
                    add(node.value.func.value.id)
                elif isinstance(node, ast.For):
                    for x in ast.walk(node.target):
                        if isinstance(x, ast.Name):
                            add(x.id)
        return out

    @staticmethod
    def closed(stmts):
        """every path through the statement list ends in return / raise"""
        if not stmts:
            return False
        s = stmts[-1]
        if isinstance(s, (ast.Return, ast.Raise)):
            return True
        if isinstance(s, ast.If):
            return Fn.closed(s.body) and Fn.closed(s.orelse)
        return False

    def block(self, stmts, defined, cont):
        """Gallina term of the statement list followed by cont (a function defined-set -> term, or None when nothing may follow)"""
        if not stmts:
            if cont is None:
                raise TranslatorError(f'{self.where}: a path falls off the end of the function (implicit return None)')
            return cont(defined)
        s, rest = stmts[0], stmts[1:]
        nxt = lambda d: self.block(rest, d, cont)
        if isinstance(s, ast.Expr) and isinstance(s.value, ast.Constant) and isinstance(s.value.value, str):
            return nxt(defined)
        if isinstance(s, ast.ImportFrom):
            for a in s.names:
                full = f'{s.module}.{a.name}'
                if full not in self.prims or a.asname is None:
                    self.fail(s, 'import of something that is not a listed primitive')
                self.imports[a.asname] = full
            return nxt(defined)
        if isinstance(s, ast.Return):
            if rest:
                self.fail(rest[0], 'statement after return')
            if s.value is None:
                self.fail(s, 'bare return')
            bs, t = self.expr(s.value)
            return self.seq(bs, f'Ok {self.ret_wrap(self, s.value, t)}')
        if isinstance(s, ast.Raise):
            if rest:
                self.fail(rest[0], 'statement after raise')
            if not (isinstance(s.exc, ast.Call) and isinstance(s.exc.func, ast.Name) and s.exc.func.id in EXCEPTIONS and s.cause is None):
                self.fail(s, 'raise outside the fragment')
            return f'Err {s.exc.func.id}'
        if isinstance(s, ast.Assign) and len(s.targets) == 1 or isinstance(s, ast.AnnAssign) and s.value is not None:
            t = s.targets[0] if isinstance(s, ast.Assign) else s.target
            if isinstance(t, ast.Attribute):
                return self.attr_assign(s, t, defined, nxt)
            if isinstance(t, ast.Name):
                names = [t.id]
            elif isinstance(t, ast.Tuple) and all(isinstance(x, ast.Name) for x in t.elts):
                names = [x.id for x in t.elts]
            else:
                self.fail(s, 'assignment target outside the fragment')
            bs, term = self.expr(s.value)
            if len(names) == 1 and self.is_int(s.value):
                self.int_names.add(names[0])
            elif isinstance(s.value, ast.Tuple) and len(s.value.elts) == len(names) and all(self.is_int(x) for x in s.value.elts):
                self.int_names |= set(names)
            body = nxt(defined | set(names))
            if bs and bs[-1][0] == term:     # the value is the result of the last monadic step: bind it directly
                bs = bs[:-1] + [(self.pat([cid(n) for n in names]), bs[-1][1])]
                return self.seq(bs, body)
            return self.seq(bs, f"let {self.pat([cid(n) for n in names])} := {term} in {body}")
        if isinstance(s, ast.AugAssign) and isinstance(s.target, ast.Name) and isinstance(s.op, (ast.Add, ast.Sub)):
            if s.target.id not in defined:
                self.fail(s, 'augmented assignment of an undefined name')
            bs, term = self.expr(s.value)
            v = cid(s.target.id)
            return self.seq(bs, f"let {v} := ({v} {'+' if isinstance(s.op, ast.Add) else '-'} {term}) in {nxt(defined)}")
        if isinstance(s, ast.AugAssign) and isinstance(s.target, ast.Name) and isinstance(s.op, ast.FloorDiv) and isinstance(s.value, ast.Constant) \
                and type(s.value.value) is int and s.value.value > 0 and s.target.id in defined:
            v = cid(s.target.id)
            return f"let {v} := ({v} / {s.value.value}) in {nxt(defined)}"     # Z.div is floor division for a positive divisor
        if isinstance(s, ast.Expr) and isinstance(s.value, ast.Call) and isinstance(s.value.func, ast.Attribute) and isinstance(s.value.func.value, ast.Name):
            c = s.value
            obj = cid(c.func.value.id)
            if c.func.value.id not in defined or c.keywords:
                self.fail(s, 'method call outside the fragment')
            if c.func.attr == 'append' and len(c.args) == 1:
                bs, term = self.expr(c.args[0])
                return self.seq(bs, f'let {obj} := ({obj} ++ [{term}]) in {nxt(defined)}')
            key = f'<obj>.{c.func.attr}'
            if key in self.prims and not c.args:
                return f'let {obj} := ({self.prims[key].coq} {obj}) in {nxt(defined)}'
            self.fail(s, 'method call outside the fragment')
        if isinstance(s, ast.If):
            bs, test = self.expr(s.test)
            # the statements after the `if` continue both branches (closed branches ignore them)
            tb = self.block(s.body, set(defined), None if self.closed(s.body) else nxt)
            if s.orelse:
                eb = self.block(s.orelse, set(defined), None if self.closed(s.orelse) else nxt)
            else:
                eb = nxt(defined)
            return self.seq(bs, f'(if {test} then {tb} else {eb})')
        if isinstance(s, ast.Try):
            if s.orelse or s.finalbody or len(s.handlers) != 1 or not self.closed(s.body):
                self.fail(s, 'try statement outside the fragment (body must end in return, one handler)')
            h = s.handlers[0]
            if not (isinstance(h.type, ast.Name) and h.type.id in EXCEPTIONS and h.name is None and len(h.body) == 1 and isinstance(h.body[0], ast.Pass)):
                self.fail(s, 'exception handler outside the fragment (`except <Exc>: pass`)')
            body = self.block(s.body, set(defined), None)
            return f'match ({body}) with Err {h.type.id} => {nxt(defined)} | other => other end'
        if isinstance(s, ast.For) and not s.orelse:
            state = [n for n in self.assigned(s.body) if n in defined]
            if not state:
                self.fail(s, 'loop without state')
            spat = self.pat([cid(n) for n in state])
            sval = cid(state[0]) if len(state) == 1 else '(' + ', '.join(cid(n) for n in state) + ')'
            if isinstance(s.iter, ast.Name) and s.iter.id in defined:
                if isinstance(s.target, ast.Tuple) and all(isinstance(x, ast.Name) for x in s.target.elts):
                    tnames = [x.id for x in s.target.elts]
                elif isinstance(s.target, ast.Name):
                    tnames = [s.target.id]
                else:
                    self.fail(s, 'loop target outside the fragment')
                if set(tnames) & set(state):
                    self.fail(s, 'loop target is loop state')
                body = self.block(s.body, defined | set(tnames), lambda d: f'Ok {sval}')
                loop = f'for_each {cid(s.iter.id)} (fun {self.pat([cid(n) for n in tnames])} {spat} => {body}) {sval}'
                return f'bind ({loop}) (fun {spat} => {nxt(defined)})'
            if isinstance(s.iter, ast.Call) and ast.unparse(s.iter.func) == 'range' and len(s.iter.args) == 1 and not s.iter.keywords \
                    and isinstance(s.target, ast.Name) and s.target.id == '_':
                bs, cnt = self.expr(s.iter.args[0])
                body = self.block(s.body, set(defined), lambda d: f'Ok {sval}')
                loop = f'for_range (Z.to_nat {cnt}) (fun {spat} => {body}) {sval}'
                return self.seq(bs, f'bind ({loop}) (fun {spat} => {nxt(defined)})')
            self.fail(s, 'loop outside the fragment')
        self.fail(s, 'statement outside the fragment')

    def attr_assign(self, s, t, defined, nxt):
        """mol.bond(<args>)._stereo = s"""
        if not (t.attr == '_stereo' and isinstance(t.value, ast.Call) and isinstance(t.value.func, ast.Attribute) and t.value.func.attr == 'bond'
                and isinstance(t.value.func.value, ast.Name) and t.value.func.value.id in defined and not t.value.keywords):
            self.fail(s, 'attribute assignment outside the fragment')
        obj = cid(t.value.func.value.id)
        args = t.value.args
        bs = []
        if len(args) == 1 and isinstance(args[0], ast.Starred):
            b1, t1 = self.expr(args[0].value)
            pair = self.fresh()
            bs += b1
            a1, a2 = pair + 'a', pair + 'b'
            if bs and bs[-1][0] == t1:
                bs = bs[:-1] + [(f"'({a1}, {a2})", bs[-1][1])]
            else:
                bs.append((f"'({a1}, {a2})", f'Ok {t1}'))
        elif len(args) == 2 and not any(isinstance(a, ast.Starred) for a in args):
            b1, a1 = self.expr(args[0])
            b2, a2 = self.expr(args[1])
            bs += b1 + b2
        else:
            self.fail(s, 'bond() arguments outside the fragment')
        b3, val = self.expr(s.value)
        return self.seq(bs + b3, f'bind (set_bond_stereo {obj} {a1} {a2} {val}) (fun {obj} => {nxt(defined)})')


def find_func(tree, cls, name, where):
    body = tree.body
    if cls:
        cs = [n for n in body if isinstance(n, ast.ClassDef) and n.name == cls]
        if len(cs) != 1:
            raise TranslatorError(f'{where}: class {cls} not found')
        body = cs[0].body
    fs = [n for n in body if isinstance(n, ast.FunctionDef) and n.name == name]
    if len(fs) != 1:
        raise TranslatorError(f'{where}: function {name} not found exactly once')
    return fs[0]


def signature(f, where):
    a = f.args
    if a.vararg or a.kwarg:
        raise TranslatorError(f'{where}: *args / **kwargs')
    pos = [x.arg for x in a.posonlyargs + a.args]
    kw = {x.arg: (None if d is None else ast.literal_eval(d)) for x, d in zip(a.kwonlyargs, a.kw_defaults)}
    return pos, kw


def expect_sig(f, where, pos, kw):
    got = signature(f, where)
    if got != (pos, kw):
        raise TranslatorError(f'{where}: signature {got} differs from the expected {(pos, kw)}')


def main(repo='/repo', dest=None):
    out = ['(* GENERATED by tools/gen_packtop.py from chython/containers/__init__.py (unpach), molecule.py (MoleculeContainer.unpack),',
           '   reaction.py (ReactionContainer.unpack): the function bodies translated statement by statement.  Do not edit. *)',
           'From Coq Require Import ZArith List Bool.', 'From Model Require Import PyBase Pack PackTop.', 'Import ListNotations.', 'Open Scope Z_scope.', '']
    # ---- unpach
    p = os.path.join(repo, 'chython/containers/__init__.py')
    tree = ast.parse(open(p).read())
    f = find_func(tree, None, 'unpach', p)
    expect_sig(f, p, ['data'], {'compressed': True})
    aliases = [ast.unparse(n) for n in tree.body if isinstance(n, ast.Assign)]
    if 'unpack = unpach' not in aliases:
        raise TranslatorError(f'{p}: `unpack = unpach` not found')
    imp = [n for n in tree.body if isinstance(n, ast.ImportFrom) and n.module == 'zlib']
    if len(imp) != 1 or [(a.name, a.asname) for a in imp[0].names] != [('decompress', None)]:
        raise TranslatorError(f'{p}: `from zlib import decompress` not found')

    def wrap_unpach(fn, node, term):
        if isinstance(node, ast.Call):
            name = ast.unparse(node.func)
            if name == 'MoleculeContainer.unpack':
                return f'(inl {term})'
            if name == 'ReactionContainer.unpack':
                return f'(inr {term})'
        fn.fail(node, 'return value outside the fragment')
    fn = Fn(p + ':unpach', {'decompress': Prim('decompress', 1), 'MoleculeContainer.unpack': Prim('MoleculeContainer_unpack', 1, {'compressed': False}),
                            'ReactionContainer.unpack': Prim('ReactionContainer_unpack', 1, {'compressed': False})}, {}, wrap_unpach)
    body = fn.block(f.body, {'data', 'compressed'}, None)
    out += ['Definition gen_unpach {M R : Type} (decompress : list Z -> pyres (list Z)) (MoleculeContainer_unpack : list Z -> pyres M)',
            '    (ReactionContainer_unpack : list Z -> pyres R) (compressed : bool) (data : list Z) : pyres (M + R) :=', '  ' + body + '.', '']
    # ---- MoleculeContainer.unpack
    p = os.path.join(repo, 'chython/containers/molecule.py')
    tree = ast.parse(open(p).read())
    f = find_func(tree, 'MoleculeContainer', 'unpack', p)
    if [ast.unparse(d) for d in f.decorator_list] != ['classmethod']:
        raise TranslatorError(f'{p}: MoleculeContainer.unpack is not a classmethod')
    expect_sig(f, p, ['cls', 'data'], {'compressed': True, 'skip_labels_calculation': False, '_return_pack_length': False})
    f2 = find_func(tree, 'MoleculeContainer', 'unpach', p)
    if [ast.unparse(x) for x in f2.body if not (isinstance(x, ast.Expr) and isinstance(x.value, ast.Constant))] != ['return cls.unpack(data, compressed=compressed)']:
        raise TranslatorError(f'{p}: MoleculeContainer.unpach is not `return cls.unpack(data, compressed=compressed)`')

    def wrap_mol(fn, node, term):
        if isinstance(node, ast.Tuple) and len(node.elts) == 2:
            return f'(inl {term})'
        if isinstance(node, ast.Name):
            return f'(inr {term})'
        fn.fail(node, 'return value outside the fragment')
    fn = Fn(p + ':MoleculeContainer.unpack', {'decompress': Prim('decompress', 1), '_unpack_v0v2.unpack': Prim('unpack_v0v2', 1),
                                             '<obj>.calc_labels': Prim('calc_labels', 0, monadic=False)},
            {'_stereo_cis_trans_centers': 'centers'}, wrap_mol)
    body = fn.block(f.body, {'data', 'compressed', 'skip_labels_calculation', '_return_pack_length'}, None)
    out += ['Definition gen_mol_unpack {Mol : Type} (decompress : list Z -> pyres (list Z))',
            '    (unpack_v0v2 : list Z -> pyres (Mol * list (Z * Z * bool) * Z)) (centers : Mol -> list (Z * (Z * Z)))',
            '    (set_bond_stereo : Mol -> Z -> Z -> bool -> pyres Mol) (calc_labels : Mol -> Mol)',
            '    (compressed skip_labels_calculation u_return_pack_length : bool) (data : list Z) : pyres ((Mol * Z) + Mol) :=', '  ' + body + '.', '']
    # ---- ReactionContainer.unpack
    p = os.path.join(repo, 'chython/containers/reaction.py')
    tree = ast.parse(open(p).read())
    f = find_func(tree, 'ReactionContainer', 'unpack', p)
    if [ast.unparse(d) for d in f.decorator_list] != ['classmethod']:
        raise TranslatorError(f'{p}: ReactionContainer.unpack is not a classmethod')
    expect_sig(f, p, ['cls', 'data'], {'compressed': True})
    f2 = find_func(tree, 'ReactionContainer', 'unpach', p)
    if [ast.unparse(x) for x in f2.body if not (isinstance(x, ast.Expr) and isinstance(x.value, ast.Constant))] != ['return cls.unpack(data, compressed=compressed)']:
        raise TranslatorError(f'{p}: ReactionContainer.unpach is not `return cls.unpack(data, compressed=compressed)`')
    init = find_func(tree, 'ReactionContainer', '__init__', p)
    ctor = [x.arg for x in init.args.args][1:4]
    imp = [n for n in tree.body if isinstance(n, ast.ImportFrom) and n.module == 'zlib']
    if len(imp) != 1 or ('decompress', None) not in [(a.name, a.asname) for a in imp[0].names]:
        raise TranslatorError(f'{p}: `from zlib import decompress` not found')

    def wrap_rxn(fn, node, term):
        if isinstance(node, ast.Call) and ast.unparse(node.func) == 'cls':
            return term
        fn.fail(node, 'return value outside the fragment')
    fn = Fn(p + ':ReactionContainer.unpack', {'decompress': Prim('decompress', 1), 'memoryview': Prim('', 1, identity=True),
                                             'MoleculeContainer.unpack': Prim('MoleculeContainer_unpack_len', 1, {'compressed': False, '_return_pack_length': True})},
            {}, wrap_rxn, ctor=ctor)
    body = fn.block(f.body, {'data', 'compressed'}, None)
    out += ['(* the result is (reactants, reagents, products): the arguments of cls(..) placed by the parameter names of __init__ *)',
            'Definition gen_rxn_unpack {Mol : Type} (decompress : list Z -> pyres (list Z)) (MoleculeContainer_unpack_len : list Z -> pyres (Mol * Z))',
            '    (compressed : bool) (data : list Z) : pyres (list Mol * list Mol * list Mol) :=', '  ' + body + '.', '']
    changed = write_if_changed(dest or gen_path('PackTopGen.v'), '\n'.join(out))
    changed = pack_len(repo, None if dest is None else os.path.join(os.path.dirname(dest), 'PackLenGen.v')) or changed
    return rxn_pack(repo, None if dest is None else os.path.join(os.path.dirname(dest), 'PackRxnGen.v')) or changed


ROLES = ('reactants', 'reagents', 'products')


def rxn_pack(repo, dest=None):
    """ReactionContainer.pack -> coq/gen/PackRxnGen.v (gen_rxn_pack): the header bytearray (element by element), the order in
    which molecules() chains the roles, the keywords of the molecule level call, the compression switch"""
    p = os.path.join(repo, 'chython/containers/reaction.py')
    tree = ast.parse(open(p).read())
    where = p + ':ReactionContainer.pack'
    f = find_func(tree, 'ReactionContainer', 'pack', p)
    expect_sig(f, p, ['self'], {'compressed': True, 'check': True})
    body = [x for x in f.body if not (isinstance(x, ast.Expr) and isinstance(x.value, ast.Constant) and isinstance(x.value.value, str))]

    def bad(node, why):
        raise TranslatorError(f'{where}: line {getattr(node, "lineno", "?")}: {why}: {ast.unparse(node)[:160]!r}')
    if len(body) != 3:
        bad(f, 'expected three statements (data = ..; if compressed: return compress(data, 9); return data)')
    a, c, r = body
    if not (isinstance(a, ast.Assign) and ast.unparse(a.targets[0]) == 'data' and isinstance(a.value, ast.Call) and ast.unparse(a.value.func) == "b''.join"
            and len(a.value.args) == 1 and not a.value.keywords and isinstance(a.value.args[0], ast.Tuple) and len(a.value.args[0].elts) == 2):
        bad(a, "expected data = b''.join((<header>, *<generator>))")
    head, star = a.value.args[0].elts
    if not (isinstance(head, ast.Call) and ast.unparse(head.func) == 'bytearray' and len(head.args) == 1 and not head.keywords and isinstance(head.args[0], ast.Tuple)):
        bad(head, 'expected bytearray((..))')
    elems = []
    for e in head.args[0].elts:
        if isinstance(e, ast.Constant) and type(e.value) is int:
            elems.append(zraw(e.value))
        elif isinstance(e, ast.Call) and ast.unparse(e.func) == 'len' and len(e.args) == 1 and isinstance(e.args[0], ast.Attribute) \
                and ast.unparse(e.args[0].value) == 'self' and e.args[0].attr in ROLES:
            elems.append(f'Z.of_nat (length {e.args[0].attr})')
        else:
            bad(e, 'header element outside the fragment')
    if not (isinstance(star, ast.Starred) and isinstance(star.value, ast.GeneratorExp) and len(star.value.generators) == 1):
        bad(star, 'expected *(<call> for m in self.molecules())')
    g = star.value.generators[0]
    if not (ast.unparse(g.target) == 'm' and ast.unparse(g.iter) == 'self.molecules()' and not g.ifs and not g.is_async):
        bad(star, 'generator outside the fragment')
    call = star.value.elt
    if not (isinstance(call, ast.Call) and ast.unparse(call.func) == 'm.pack' and not call.args
            and [(k.arg, ast.unparse(k.value)) for k in call.keywords] == [('compressed', 'False'), ('check', 'check')]):
        bad(call, 'expected m.pack(compressed=False, check=check)')
    if ast.unparse(c) != 'if compressed:\n    return compress(data, 9)' or ast.unparse(r) != 'return data':
        bad(c, 'expected `if compressed: return compress(data, 9)` and `return data`')
    mols = find_func(tree, 'ReactionContainer', 'molecules', p)
    mb = [x for x in mols.body if not (isinstance(x, ast.Expr) and isinstance(x.value, ast.Constant))]
    if not (len(mb) == 1 and isinstance(mb[0], ast.Return) and isinstance(mb[0].value, ast.Call) and ast.unparse(mb[0].value.func) == 'chain' and not mb[0].value.keywords):
        bad(mols, 'molecules() is not `return chain(..)`')
    order = []
    for e in mb[0].value.args:
        if not (isinstance(e, ast.Attribute) and ast.unparse(e.value) == 'self' and e.attr in ROLES):
            bad(e, 'chain argument outside the fragment')
        order.append(e.attr)
    for role in ROLES:     # the properties return the private attributes the constructor fills from the parameters of the same name
        pf = find_func(tree, 'ReactionContainer', role, p)
        if [ast.unparse(x) for x in pf.body] != [f'return self._{role}'] or [ast.unparse(d) for d in pf.decorator_list] != ['property']:
            bad(pf, 'role property outside the fragment')
    init = find_func(tree, 'ReactionContainer', '__init__', p)
    src = [ast.unparse(x) for x in init.body]
    for role in ROLES:
        if f'{role} = tuple({role})' not in src or f'self._{role} = {role}' not in src:
            bad(init, f'__init__ does not store {role} as given')
    out = ['(* GENERATED by tools/gen_packtop.py from reaction.py (ReactionContainer.pack, molecules, the role properties).  Do not edit. *)',
           'From Coq Require Import ZArith List Bool.', 'From Model Require Import PyBase Pack PackTop PackRxnRt.', 'Import ListNotations.', 'Open Scope Z_scope.', '',
           'Definition gen_rxn_pack {M : Type} (compress : list Z -> list Z) (mol_pack : bool -> M -> pyres (list Z)) (compressed check : bool)',
           '    (reactants reagents products : list M) : pyres (list Z) :=',
           f'  bind (py_bytearray {lst(elems)}) (fun t1 => bind (py_map_m (fun m => mol_pack check m) ({" ++ ".join(order)})) (fun t2 =>',
           '  let data := t1 ++ concat t2 in if compressed then Ok (compress data) else Ok data)).', '']
    return write_if_changed(dest or gen_path('PackRxnGen.v'), '\n'.join(out))


def pack_len(repo, dest=None):
    """MoleculeContainer.pack_len and ReactionContainer.pack_len -> coq/gen/PackLenGen.v (gen_mol_pack_len, gen_rxn_pack_len)"""
    out = ['(* GENERATED by tools/gen_packtop.py from molecule.py (MoleculeContainer.pack_len) and reaction.py (ReactionContainer.pack_len):',
           '   the function bodies translated statement by statement.  Do not edit. *)',
           'From Coq Require Import ZArith List Bool.', 'From Model Require Import PyBase Pack PackTop PackLen.', 'Import ListNotations.', 'Open Scope Z_scope.', '']
    p = os.path.join(repo, 'chython/containers/molecule.py')
    tree = ast.parse(open(p).read())
    f = find_func(tree, 'MoleculeContainer', 'pack_len', p)
    if [ast.unparse(d) for d in f.decorator_list] != ['classmethod']:
        raise TranslatorError(f'{p}: MoleculeContainer.pack_len is not a classmethod')
    expect_sig(f, p, ['cls', 'data'], {'compressed': True})

    def wrap_int(fn, node, term):
        if fn.is_int(node):
            return term
        fn.fail(node, 'return value outside the fragment')
    fn = Fn(p + ':MoleculeContainer.pack_len', {'decompress': Prim('decompress', 1)}, {}, wrap_int)
    body = fn.block(f.body, {'data', 'compressed'}, None)
    out += ['Definition gen_mol_pack_len (decompress : list Z -> pyres (list Z)) (compressed : bool) (data : list Z) : pyres Z :=', '  ' + body + '.', '']
    p = os.path.join(repo, 'chython/containers/reaction.py')
    tree = ast.parse(open(p).read())
    f = find_func(tree, 'ReactionContainer', 'pack_len', p)
    if [ast.unparse(d) for d in f.decorator_list] != ['classmethod']:
        raise TranslatorError(f'{p}: ReactionContainer.pack_len is not a classmethod')
    expect_sig(f, p, ['cls', 'data'], {'compressed': True})

    def wrap_roles(fn, node, term):
        if isinstance(node, ast.Tuple) and len(node.elts) == 3 and all(isinstance(x, ast.Subscript) and isinstance(x.slice, ast.Slice) for x in node.elts):
            return term
        fn.fail(node, 'return value outside the fragment')
    fn = Fn(p + ':ReactionContainer.pack_len', {'decompress': Prim('decompress', 1), 'memoryview': Prim('', 1, identity=True)}, {}, wrap_roles)
    imp = [n for n in tree.body if isinstance(n, ast.ImportFrom) and n.module == 'math']
    fn.ceil_ok = len(imp) == 1 and ('ceil', None) in [(a.name, a.asname) for a in imp[0].names]
    body = fn.block(f.body, {'data', 'compressed'}, None)
    out += ['(* (reactants, reagents, products) atom counts *)',
            'Definition gen_rxn_pack_len (decompress : list Z -> pyres (list Z)) (compressed : bool) (data : list Z) : pyres (list Z * list Z * list Z) :=',
            '  ' + body + '.', '']
    return write_if_changed(dest or gen_path('PackLenGen.v'), '\n'.join(out))


if __name__ == '__main__':
    main(*sys.argv[1:])
