"""Translator (C15): the tables and patterns the C15 models copy from the source -> coq/gen/CgrTables.v
  chython/algorithms/smiles.py     charge_str, order_str, organic_set, dyn_order_str, dyn_radical_str (dict / set displays),
                                   the comprehension that builds dyn_charge_str and its (0, 0) override (shape checked)
  chython/files/daylight/smiles.py cx_fragments, cx_radicals (the regular expressions, as strings)
  chython/containers/reaction.py   the sort key of ReactionContainer.__format__ and the spec flags it tests (as source text)
  chython/containers/bonds.py      DynamicBond.__hash__ / __int__ (as source text)
  chython/periodictable/base/dynamic.py  DynamicElement.__hash__ (the hashed attribute names, in order)
Fail closed: anything that is not the expected literal shape raises TranslatorError."""
import ast
import os
import sys

sys.path.insert(0, os.path.dirname(__file__))
from coqfmt import *  # noqa


def _assign(tree, name, path):
    for node in tree.body:
        if isinstance(node, ast.Assign) and len(node.targets) == 1 and getattr(node.targets[0], 'id', None) == name:
            return node
    raise TranslatorError(f'{path}: assignment to {name} not found')


def _lit(node, path, what):
    try:
        return ast.literal_eval(node)
    except Exception:
        raise TranslatorError(f'{path}:{getattr(node, "lineno", "?")}: {what} is not a literal display')


def _method(tree, cls, name, path):
    for node in tree.body:
        if isinstance(node, ast.ClassDef) and node.name == cls:
            for f in node.body:
                if isinstance(f, ast.FunctionDef) and f.name == name:
                    return f
    raise TranslatorError(f'{path}: {cls}.{name} not found')


def _body_src(fn):
    """the statements of a function without its docstring, unparsed (normalised source text)"""
    body = fn.body
    if body and isinstance(body[0], ast.Expr) and isinstance(body[0].value, ast.Constant) and isinstance(body[0].value.value, str):
        body = body[1:]
    return '; '.join(ast.unparse(x) for x in body)


def oz(v):
    return 'None' if v is None else f'(Some {zraw(v)})'


def main(repo='/repo', dest=None):
    dest = dest or gen_path('CgrTables.v')
    path = os.path.join(repo, 'chython/algorithms/smiles.py')
    tree = ast.parse(open(path).read())
    charge = _lit(_assign(tree, 'charge_str', path).value, path, 'charge_str')
    order = _lit(_assign(tree, 'order_str', path).value, path, 'order_str')
    organic = _lit(_assign(tree, 'organic_set', path).value, path, 'organic_set')
    dyn_order = _lit(_assign(tree, 'dyn_order_str', path).value, path, 'dyn_order_str')
    dyn_rad = _lit(_assign(tree, 'dyn_radical_str', path).value, path, 'dyn_radical_str')
    if not (isinstance(charge, dict) and all(type(k) is int and type(v) is str for k, v in charge.items())):
        raise TranslatorError(f'{path}: charge_str is not an int -> str dict')
    if not (isinstance(order, dict) and all((k is None or type(k) is int) and type(v) is str for k, v in order.items())):
        raise TranslatorError(f'{path}: order_str is not an (int | None) -> str dict')
    if not (isinstance(organic, set) and all(type(x) is str for x in organic)):
        raise TranslatorError(f'{path}: organic_set is not a set of strings')
    if not (isinstance(dyn_order, dict) and all(isinstance(k, tuple) and len(k) == 2 and all(x is None or type(x) is int for x in k) and type(v) is str
                                                for k, v in dyn_order.items())):
        raise TranslatorError(f'{path}: dyn_order_str is not an (order, order) -> str dict')
    if not (isinstance(dyn_rad, dict) and all(isinstance(k, tuple) and len(k) == 2 and all(type(x) is bool for x in k) and type(v) is str
                                              for k, v in dyn_rad.items())):
        raise TranslatorError(f'{path}: dyn_radical_str is not a (bool, bool) -> str dict')
    # dyn_charge_str = {(i, j): f'{charge_str[i]}>{charge_str[j]}' if i != j else charge_str[i] for i, j in product(range(-4, 5), repeat=2)}
    dc = ast.unparse(_assign(tree, 'dyn_charge_str', path).value)
    expected = "{(i, j): f'{charge_str[i]}>{charge_str[j]}' if i != j else charge_str[i] for i, j in product(range(-4, 5), repeat=2)}"
    if dc != expected:
        raise TranslatorError(f'{path}: dyn_charge_str is built differently: {dc}')
    overrides = []
    for node in tree.body:
        if isinstance(node, ast.Assign) and len(node.targets) == 1 and isinstance(node.targets[0], ast.Subscript) \
                and getattr(node.targets[0].value, 'id', None) == 'dyn_charge_str':
            overrides.append((_lit(node.targets[0].slice, path, 'dyn_charge_str key'), _lit(node.value, path, 'dyn_charge_str value')))
    if overrides != [((0, 0), '')]:
        raise TranslatorError(f'{path}: overrides of dyn_charge_str are {overrides!r}, expected [((0, 0), "")]')

    rpath = os.path.join(repo, 'chython/files/daylight/smiles.py')
    rtree = ast.parse(open(rpath).read())
    regs = {}
    for name in ('cx_fragments', 'cx_radicals'):
        node = _assign(rtree, name, rpath).value
        if not (isinstance(node, ast.Call) and getattr(node.func, 'id', None) == 'compile' and len(node.args) == 1 and not node.keywords
                and isinstance(node.args[0], ast.Constant) and type(node.args[0].value) is str):
            raise TranslatorError(f'{rpath}: {name} is not compile(<string literal>)')
        regs[name] = node.args[0].value

    fpath = os.path.join(repo, 'chython/containers/reaction.py')
    ftree = ast.parse(open(fpath).read())
    fmt = _method(ftree, 'ReactionContainer', '__format__', fpath)
    sorts = [n for n in ast.walk(fmt) if isinstance(n, ast.Call) and isinstance(n.func, ast.Attribute) and n.func.attr == 'sort']
    if len(sorts) != 1 or len(sorts[0].keywords) != 1 or sorts[0].keywords[0].arg != 'key':
        raise TranslatorError(f'{fpath}: __format__ does not contain exactly one .sort(key=...)')
    sort_key = ast.unparse(sorts[0].keywords[0].value)
    flags = sorted({c.left.value for c in ast.walk(fmt) if isinstance(c, ast.Compare) and isinstance(c.left, ast.Constant) and type(c.left.value) is str
                    and len(c.ops) == 1 and isinstance(c.ops[0], (ast.In, ast.NotIn))})
    eq_src = _body_src(_method(ftree, 'ReactionContainer', '__eq__', fpath))
    hash_src = _body_src(_method(ftree, 'ReactionContainer', '__hash__', fpath))

    bpath = os.path.join(repo, 'chython/containers/bonds.py')
    btree = ast.parse(open(bpath).read())
    b_hash = _body_src(_method(btree, 'DynamicBond', '__hash__', bpath))
    b_int = _body_src(_method(btree, 'DynamicBond', '__int__', bpath))
    dpath = os.path.join(repo, 'chython/periodictable/base/dynamic.py')
    dtree = ast.parse(open(dpath).read())
    d_hash = _body_src(_method(dtree, 'DynamicElement', '__hash__', dpath))

    out = ['(* GENERATED by tools/gen_cgr.py from chython/algorithms/smiles.py, files/daylight/smiles.py, containers/reaction.py,',
           '   containers/bonds.py, periodictable/base/dynamic.py.  Do not edit. *)',
           'From Coq Require Import ZArith List String Bool.', 'Import ListNotations.', 'Open Scope string_scope.', 'Open Scope Z_scope.', '',
           'Definition src_charge_str : list (Z * string) := ' + lst([tup(zraw(k), s(v)) for k, v in charge.items()]) + '.',
           'Definition src_order_str : list (option Z * string) := ' + lst([tup(oz(k), s(v)) for k, v in order.items()]) + '.',
           'Definition src_organic_set : list string := ' + lst(sorted(organic), s) + '.',
           'Definition src_dyn_order_str : list (option Z * option Z * string) := ' +
           lst([tup(oz(k[0]), oz(k[1]), s(v)) for k, v in dyn_order.items()], per_line=6) + '.',
           'Definition src_dyn_radical_str : list (bool * bool * string) := ' + lst([tup(b(k[0]), b(k[1]), s(v)) for k, v in dyn_rad.items()]) + '.',
           '(* dyn_charge_str is the comprehension over product(range(-4, 5), repeat=2) with the single override (0, 0) -> "" (shape checked by the translator) *)',
           'Definition src_dyn_charge_lo : Z := (-4).', 'Definition src_dyn_charge_hi : Z := 5.',
           'Definition src_cx_fragments : string := ' + s(regs['cx_fragments']) + '.',
           'Definition src_cx_radicals : string := ' + s(regs['cx_radicals']) + '.',
           'Definition src_format_sort_key : string := ' + s(sort_key) + '.',
           'Definition src_format_flags : list string := ' + lst(flags, s) + '.',
           'Definition src_rxn_eq : string := ' + s(eq_src) + '.',
           'Definition src_rxn_hash : string := ' + s(hash_src) + '.',
           'Definition src_dbond_hash : string := ' + s(b_hash) + '.',
           'Definition src_dbond_int : string := ' + s(b_int) + '.',
           'Definition src_datom_hash : string := ' + s(d_hash) + '.', '']
    write_if_changed(dest, '\n'.join(out))


if __name__ == '__main__':
    main(*sys.argv[1:])
