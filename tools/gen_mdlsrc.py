"""Translator: the STRING TEMPLATES, COLUMN SLICES and STRING CONSTANTS of the MDL writers / readers -> coq/gen/MdlSource.v

  chython/files/mdl/write.py   every f-string of MOLWrite._write_molecule and EMOLWrite._write_molecule, in source order, as a list of
                               parts: ("", literal) or (expression source, format spec)
  chython/files/SDFrw.py       the f-strings / string constants of SDFWrite.write, ESDFWrite.write; the regular expression meta_pattern;
                               the string constants of SDFRead.read_structure / read_metadata / _read_block / reset_index
  chython/files/RDFrw.py       the f-strings / string constants of RDFWrite.write, ERDFWrite.write, _RDFWrite.__write;
                               the string constants of RDFRead.read_structure / read_metadata / _read_block / reset_index
  chython/files/mdl/mol.py     parse_mol_v2000: every slice `x[a:b]` with its bounds as source text, every string constant
  chython/files/mdl/emol.py    parse_mol_v3000 and split: string constants and slices
  chython/files/mdl/rxn.py, erxn.py   string constants, slices and integer constants (the search offsets)
  chython/files/mdl/read.py    MDLRead.__iter__: the names of the exceptions it skips

The hand-written model coq/model/Mdl.v was written from these; coq/proofs/MdlSourceTie.v states `generated = what the model was written
from` and proves that the model's line writers ARE the renderings of the templates.  Fails closed on any unexpected shape."""
import ast
import os
import sys

sys.path.insert(0, os.path.dirname(__file__))
from coqfmt import *  # noqa


def cs(text, where):
    if not all(32 <= ord(c) < 127 or c == '\n' for c in text):
        raise TranslatorError(f'{where}: non printable character in {text!r}')
    # newline is spelled \n in the generated string (two characters), a literal backslash-n pair never occurs in these sources
    if '\\n' in text:
        raise TranslatorError(f'{where}: literal backslash-n in {text!r}')
    return '"' + text.replace('\n', '\\n').replace('"', '""') + '"%string'


def find_func(tree, path, cls, name):
    body = tree.body
    if cls is not None:
        for node in body:
            if isinstance(node, ast.ClassDef) and node.name == cls:
                body = node.body
                break
        else:
            raise TranslatorError(f'{path}: class {cls} not found')
    for node in body:
        if isinstance(node, ast.FunctionDef) and node.name == name:
            return node
    raise TranslatorError(f'{path}: function {cls + "." if cls else ""}{name} not found')


def fstrings(fn, where):
    """every top-level f-string of the function in source order: list of lists of (expr, spec-or-literal)"""
    nested = set()
    for node in ast.walk(fn):
        if isinstance(node, ast.FormattedValue):
            for sub in ast.walk(node):
                if isinstance(sub, ast.JoinedStr):
                    nested.add(id(sub))
    out = []
    tops = [n for n in ast.walk(fn) if isinstance(n, ast.JoinedStr) and id(n) not in nested]
    for node in sorted(tops, key=lambda n: (n.lineno, n.col_offset)):
        parts = []
        for v in node.values:
            if isinstance(v, ast.Constant) and isinstance(v.value, str):
                parts.append(('', v.value))
            elif isinstance(v, ast.FormattedValue):
                if v.conversion != -1:
                    raise TranslatorError(f'{where}:{node.lineno}: conversion in f-string')
                spec = ''
                if v.format_spec is not None:
                    if not (len(v.format_spec.values) == 1 and isinstance(v.format_spec.values[0], ast.Constant)):
                        raise TranslatorError(f'{where}:{node.lineno}: computed format spec')
                    spec = v.format_spec.values[0].value
                parts.append((ast.unparse(v.value), spec))
            else:
                raise TranslatorError(f'{where}:{node.lineno}: unexpected f-string part')
        out.append(parts)
    return out


def constants(fn, kinds):
    """string / int constants of the function in source order (docstring and f-string pieces excluded)"""
    inside_f = set()
    for node in ast.walk(fn):
        if isinstance(node, ast.JoinedStr):
            for sub in ast.walk(node):
                if isinstance(sub, ast.Constant):
                    inside_f.add(id(sub))
    doc = ast.get_docstring(fn, clean=False)
    out = []
    for node in sorted((n for n in ast.walk(fn) if isinstance(n, ast.Constant) and hasattr(n, 'lineno')), key=lambda n: (n.lineno, n.col_offset)):
        if id(node) in inside_f or type(node.value) not in kinds or isinstance(node.value, bool):
            continue
        if isinstance(node.value, str) and node.value == doc:
            continue
        out.append(node.value)
    return out


def slices(fn):
    """every subscript slice of the function in source order: (lower, upper) as source text ('' when absent)"""
    out = []
    for node in sorted((n for n in ast.walk(fn) if isinstance(n, ast.Subscript) and isinstance(n.slice, ast.Slice)), key=lambda n: (n.lineno, n.col_offset)):
        sl = node.slice
        if sl.step is not None:
            raise TranslatorError(f'stepped slice at line {node.lineno}')
        out.append((ast.unparse(sl.lower) if sl.lower is not None else '', ast.unparse(sl.upper) if sl.upper is not None else ''))
    return out


def handlers(fn):
    """exception names of the except clauses, in source order"""
    out = []
    for node in sorted((n for n in ast.walk(fn) if isinstance(n, ast.ExceptHandler)), key=lambda n: n.lineno):
        out.append(ast.unparse(node.type) if node.type is not None else '')
    return out


def main(repo='/repo', dest=None):
    dest = dest or gen_path('MdlSource.v')
    P = lambda rel: os.path.join(repo, rel)
    src = {}
    for rel in ('chython/files/mdl/write.py', 'chython/files/mdl/mol.py', 'chython/files/mdl/emol.py', 'chython/files/mdl/rxn.py',
                'chython/files/mdl/erxn.py', 'chython/files/mdl/read.py', 'chython/files/SDFrw.py', 'chython/files/RDFrw.py'):
        src[rel] = ast.parse(open(P(rel)).read())
    w, mol, emol, rxn, erxn, rd, sdf, rdf = (src[k] for k in src)
    items = []

    def tpl(name, fn, where):
        fs = fstrings(fn, where)
        items.append(f'Definition {name} : list (list (string * string)) :=\n  ' +
                     lst(fs, lambda parts: lst(parts, lambda p: tup(cs(p[0], where), cs(p[1], where))), per_line=1) + '.')

    def strs(name, fn, where):
        items.append(f'Definition {name} : list string :=\n  ' + lst(constants(fn, (str,)), lambda t: cs(t, where), per_line=8) + '.')

    def ints(name, fn):
        items.append(f'Definition {name} : list Z :=\n  ' + lst(constants(fn, (int,)), zraw, per_line=20) + '.')

    def sls(name, fn, where):
        items.append(f'Definition {name} : list (string * string) :=\n  ' + lst(slices(fn), lambda p: tup(cs(p[0], where), cs(p[1], where)), per_line=6) + '.')

    f = find_func(w, 'write.py', 'MOLWrite', '_write_molecule')
    tpl('src_molwrite_templates', f, 'write.py'); strs('src_molwrite_strings', f, 'write.py'); ints('src_molwrite_ints', f)
    f = find_func(w, 'write.py', 'EMOLWrite', '_write_molecule')
    tpl('src_emolwrite_templates', f, 'write.py'); strs('src_emolwrite_strings', f, 'write.py')
    f = find_func(w, 'write.py', 'IO', '__init__')
    strs('src_io_init_strings', f, 'write.py')
    for cls, nm in (('SDFWrite', 'sdfwrite'), ('ESDFWrite', 'esdfwrite')):
        f = find_func(sdf, 'SDFrw.py', cls, 'write')
        tpl(f'src_{nm}_templates', f, 'SDFrw.py'); strs(f'src_{nm}_strings', f, 'SDFrw.py')
    for cls, nm in (('RDFWrite', 'rdfwrite'), ('ERDFWrite', 'erdfwrite')):
        f = find_func(rdf, 'RDFrw.py', cls, 'write')
        tpl(f'src_{nm}_templates', f, 'RDFrw.py'); strs(f'src_{nm}_strings', f, 'RDFrw.py')
    f = find_func(rdf, 'RDFrw.py', '_RDFWrite', '_RDFWrite__write') if False else find_func(rdf, 'RDFrw.py', '_RDFWrite', '__write')
    strs('src_rdfwrite_header_strings', f, 'RDFrw.py')
    f = find_func(rdf, 'RDFrw.py', '_RDFWrite', '__init__')
    items.append('Definition src_rdfwrite_init_condition : string := ' +
                 cs(next(ast.unparse(n.test) for n in ast.walk(f) if isinstance(n, ast.If)), 'RDFrw.py') + '.')
    # readers
    f = find_func(mol, 'mol.py', None, 'parse_mol_v2000')
    sls('src_mol_slices', f, 'mol.py'); strs('src_mol_strings', f, 'mol.py'); ints('src_mol_ints', f)
    f = find_func(emol, 'emol.py', None, 'parse_mol_v3000')
    sls('src_emol_slices', f, 'emol.py'); strs('src_emol_strings', f, 'emol.py'); ints('src_emol_ints', f)
    f = find_func(emol, 'emol.py', None, 'split')
    strs('src_emol_split_strings', f, 'emol.py')
    f = find_func(rxn, 'rxn.py', None, 'parse_rxn_v2000')
    sls('src_rxn_slices', f, 'rxn.py'); strs('src_rxn_strings', f, 'rxn.py'); ints('src_rxn_ints', f)
    f = find_func(erxn, 'erxn.py', None, 'parse_rxn_v3000')
    sls('src_erxn_slices', f, 'erxn.py'); strs('src_erxn_strings', f, 'erxn.py'); ints('src_erxn_ints', f)
    f = find_func(rd, 'read.py', 'MDLRead', '__iter__')
    items.append('Definition src_iter_handlers : list string := ' + lst(handlers(f), lambda t: cs(t, 'read.py')) + '.')
    f = find_func(rd, 'read.py', 'MDLRead', '__getitem__')
    items.append('Definition src_getitem_handlers : list string := ' + lst(handlers(f), lambda t: cs(t, 'read.py')) + '.')
    for cls, nm, tree, where in (('SDFRead', 'sdfread', sdf, 'SDFrw.py'), ('RDFRead', 'rdfread', rdf, 'RDFrw.py')):
        for meth in ('read_structure', 'read_metadata', '_read_block', 'reset_index'):
            f = find_func(tree, where, cls, meth)
            strs(f'src_{nm}_{meth.strip("_")}_strings', f, where)
            if meth in ('read_metadata', '_read_block', 'read_structure'):
                sls(f'src_{nm}_{meth.strip("_")}_slices', f, where)
    # the key-line pattern of SDFRead
    pat = None
    for node in sdf.body:
        if isinstance(node, ast.Assign) and getattr(node.targets[0], 'id', None) == 'meta_pattern':
            call = node.value
            if not (isinstance(call, ast.Call) and getattr(call.func, 'id', None) == 'compile' and len(call.args) == 1 and isinstance(call.args[0], ast.Constant)):
                raise TranslatorError('SDFrw.py: meta_pattern is not compile(<literal>)')
            pat = call.args[0].value
    if pat is None:
        raise TranslatorError('SDFrw.py: meta_pattern not found')
    items.append('Definition src_meta_pattern : string := ' + cs(pat, 'SDFrw.py') + '.')
    out = ['(* GENERATED by tools/gen_mdlsrc.py from the f-strings, slices and constants of chython/files/mdl/*.py, SDFrw.py, RDFrw.py. Do not edit.',
           '   A newline inside a template is spelled \\n (backslash, n). *)',
           'From Coq Require Import ZArith List String.', 'Import ListNotations.', 'Open Scope Z_scope.', ''] + items + ['']
    return write_if_changed(dest, '\n'.join(out))


if __name__ == '__main__':
    main(*sys.argv[1:])
