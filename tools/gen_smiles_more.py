"""Translator (C02, extension round 3): more of the constants of the hand-written writer / tokenizer model, read from the source on
every run -> coq/gen/SmilesMore.v (fail closed):
  smiles.py   : Smiles.__format__  - the flag table (substring tested in format_spec, keyword it sets, value), the 'r' flag and the
                                     '!x' test;
                MoleculeSmiles._format_bond - the order tests `bond == k` in source order and the string each branch returns;
  tokenize.py : atom_re - the character classes and repetition bounds of its six groups, expanded to explicit character strings.
coq/proofs/WriterGenTies.v proves that the hand-written definitions of coq/model/Writer.v (opts_of_spec, format_bond, the stages
of atom_parse_chars) agree with these generated values, so a source edit breaks a named obligation."""
import ast
import os
import re
import sys

sys.path.insert(0, os.path.dirname(__file__))
from coqfmt import *  # noqa


def find_func(tree, name, path, cls=None):
    for node in ast.walk(tree):
        if cls is not None:
            if isinstance(node, ast.ClassDef) and node.name == cls:
                for sub in node.body:
                    if isinstance(sub, ast.FunctionDef) and sub.name == name:
                        return sub
        elif isinstance(node, ast.FunctionDef) and node.name == name:
            return node
    raise TranslatorError(f'{path}: function {name} not found')


def expand_class(body, where):
    """'A-IK-PR-Zacnopsbt' -> explicit characters (no negation, no escapes)"""
    if not body or body[0] == '^' or '\\' in body:
        raise TranslatorError(f'{where}: unsupported character class [{body}]')
    out = []
    i = 0
    while i < len(body):
        if i + 2 < len(body) and body[i + 1] == '-':
            a, b = ord(body[i]), ord(body[i + 2])
            if a > b:
                raise TranslatorError(f'{where}: bad range in [{body}]')
            out.extend(chr(c) for c in range(a, b + 1))
            i += 3
        else:
            out.append(body[i])
            i += 1
    return ''.join(out)


ATOM_RE_SHAPE = (r'\(\[([^\]]+)\]\[([^\]]+)\]\{0,(\d)\}\)\?\(\[([^\]]+)\]\[([^\]]+)\]\?\)\(@@\|@\)\?\(H\[([^\]]+)\]\?\)\?'
                 r'\(\[([^\]]+)\]\[([^\]]+)\]\?\)\?\(:\[([^\]]+)\]\+\)\?')


def main(repo='/repo', dest=None):
    dest = dest or gen_path('SmilesMore.v')
    path = os.path.join(repo, 'chython/algorithms/smiles.py')
    tree = ast.parse(open(path).read())
    # ---------------- __format__ flags
    fn = find_func(tree, '__format__', path, cls='Smiles')
    flags = []          # (flag, kwarg, value)
    cx = None
    for node in ast.walk(fn):
        if isinstance(node, ast.If) and isinstance(node.test, ast.Compare) and len(node.test.ops) == 1 and \
                isinstance(node.test.ops[0], ast.In) and isinstance(node.test.left, ast.Constant) and \
                type(node.test.left.value) is str and getattr(node.test.comparators[0], 'id', None) == 'format_spec':
            first = node.body[0]
            if isinstance(first, ast.Assign) and isinstance(first.targets[0], ast.Subscript) and \
                    getattr(first.targets[0].value, 'id', None) == 'kwargs' and isinstance(first.value, ast.Constant) and \
                    type(first.value.value) is bool:
                key = first.targets[0].slice
                if not (isinstance(key, ast.Constant) and type(key.value) is str):
                    raise TranslatorError(f'{path}:{node.lineno}: kwargs key is not a string literal')
                flags.append((node.lineno, node.test.left.value, key.value, first.value.value))
            else:
                raise TranslatorError(f'{path}:{node.lineno}: unrecognised flag statement in __format__')
        # elif '!x' in format_spec or (...) is None
        if isinstance(node, ast.BoolOp) and isinstance(node.op, ast.Or):
            t0 = node.values[0]
            if isinstance(t0, ast.Compare) and isinstance(t0.ops[0], ast.In) and isinstance(t0.left, ast.Constant) and \
                    getattr(t0.comparators[0], 'id', None) == 'format_spec':
                cx = t0.left.value
    flags = [(f, k, v) for _, f, k, v in sorted(flags)]
    if cx is None or not flags:
        raise TranslatorError(f'{path}: flag table of Smiles.__format__ not found')
    # defaults of the keywords: `kwargs.get('<name>', <bool>)` anywhere in the module (consistent per name) and the keyword-only
    # parameters of Smiles._smiles with a bool default
    defaults = {}
    for node in ast.walk(tree):
        if isinstance(node, ast.Call) and isinstance(node.func, ast.Attribute) and node.func.attr == 'get' and \
                getattr(node.func.value, 'id', None) == 'kwargs':
            if not (len(node.args) == 2 and all(isinstance(a, ast.Constant) for a in node.args) and type(node.args[0].value) is str
                    and type(node.args[1].value) is bool):
                raise TranslatorError(f'{path}:{node.lineno}: kwargs.get(...) is not (str literal, bool literal)')
            k, v = node.args[0].value, node.args[1].value
            if defaults.setdefault(k, v) != v:
                raise TranslatorError(f'{path}:{node.lineno}: keyword {k!r} has two different defaults')
    sm = find_func(tree, '_smiles', path, cls='Smiles')
    for a, d in zip(sm.args.kwonlyargs, sm.args.kw_defaults):
        if isinstance(d, ast.Constant) and type(d.value) is bool:
            if defaults.setdefault(a.arg, d.value) != d.value:
                raise TranslatorError(f'{path}:{sm.lineno}: keyword {a.arg!r} has two different defaults')
    for _, k, _ in flags:
        if k not in defaults:
            raise TranslatorError(f'{path}: keyword {k!r} set by __format__ is read nowhere')
    # ---------------- _format_cxsmiles: f'|^1:{",".join(...)}|'
    fn = find_func(tree, '_format_cxsmiles', path, cls='MoleculeSmiles')
    cxp = None
    for node in ast.walk(fn):
        if isinstance(node, ast.JoinedStr):
            v = node.values
            if len(v) == 3 and isinstance(v[0], ast.Constant) and isinstance(v[2], ast.Constant) and isinstance(v[1], ast.FormattedValue) \
                    and isinstance(v[1].value, ast.Call) and isinstance(v[1].value.func, ast.Attribute) and v[1].value.func.attr == 'join' \
                    and isinstance(v[1].value.func.value, ast.Constant):
                cxp = (v[0].value, v[1].value.func.value.value, v[2].value)
    if cxp is None:
        raise TranslatorError(f'{path}: _format_cxsmiles: the f-string <prefix>{{<sep>.join(...)}}<suffix> was not found')
    # ---------------- _format_bond
    fn = find_func(tree, '_format_bond', path, cls='MoleculeSmiles')
    orders = []
    for node in ast.walk(fn):
        if isinstance(node, ast.Compare) and getattr(node.left, 'id', None) == 'bond' and len(node.ops) == 1 and \
                isinstance(node.ops[0], ast.Eq) and isinstance(node.comparators[0], ast.Constant) and type(node.comparators[0].value) is int:
            orders.append((node.lineno, node.comparators[0].value))
    orders = [o for _, o in sorted(orders)]
    rets = []
    for node in ast.walk(fn):
        if isinstance(node, ast.Return):
            v = node.value
            if isinstance(v, ast.Constant) and type(v.value) is str:
                rets.append((node.lineno, [v.value]))
            elif isinstance(v, ast.IfExp) and isinstance(v.body, ast.Constant) and isinstance(v.orelse, ast.Constant):
                rets.append((node.lineno, [v.body.value, v.orelse.value]))
            else:
                raise TranslatorError(f'{path}:{node.lineno}: _format_bond returns something that is not a string literal')
    rets = [x for _, r in sorted(rets) for x in r]
    # the last test is the `else` branch (special bond): bond tests 4 1 2 3, else '~'
    if len(orders) != 4:
        raise TranslatorError(f'{path}: _format_bond: expected four `bond == k` tests, found {orders}')
    # ---------------- atom_re
    tpath = os.path.join(repo, 'chython/files/daylight/tokenize.py')
    ttree = ast.parse(open(tpath).read())
    pat = None
    for node in ttree.body:
        if isinstance(node, ast.Assign) and getattr(node.targets[0], 'id', None) == 'atom_re':
            v = node.value
            if isinstance(v, ast.Call) and len(v.args) == 1 and isinstance(v.args[0], ast.Constant):
                pat = v.args[0].value
    if pat is None:
        raise TranslatorError(f'{tpath}: atom_re not found')
    m = re.fullmatch(ATOM_RE_SHAPE, pat)
    if m is None:
        raise TranslatorError(f'{tpath}: atom_re has another shape than the six groups the matcher of coq/model/Writer.v implements: {pat!r}')
    g = m.groups()
    cls = {k: expand_class(g[i], tpath) for k, i in (('iso_first', 0), ('iso_more', 1), ('el_first', 3), ('el_second', 4), ('h_digits', 5),
                                                  ('chg_first', 6), ('chg_second', 7), ('map_digits', 8))}
    out = ['(* GENERATED by tools/gen_smiles_more.py from chython/algorithms/smiles.py and chython/files/daylight/tokenize.py.',
           '   Do not edit. *)',
           'From Coq Require Import ZArith List String Bool.', 'Import ListNotations.', 'Open Scope Z_scope.', '',
           '(* Smiles.__format__: (substring tested in format_spec, keyword set, value), in source order *)',
           'Definition spec_flags : list (string * string * bool) :=\n  ' +
           lst([tup(s(f), s(k), b(v)) for f, k, v in flags], per_line=4) + '.',
           f'Definition spec_cx_off : string := {s(cx)}.',
           '(* defaults of the keywords: kwargs.get(name, default) / keyword-only parameters of _smiles *)',
           'Definition kw_defaults : list (string * bool) :=\n  ' + lst([tup(s(k), b(v)) for k, v in sorted(defaults.items())], per_line=4) + '.',
           '(* _format_cxsmiles: prefix, separator, suffix of the radical block *)',
           f'Definition cx_prefix : string := {s(cxp[0])}.', f'Definition cx_sep : string := {s(cxp[1])}.',
           f'Definition cx_suffix : string := {s(cxp[2])}.',
           '(* MoleculeSmiles._format_bond: the `bond == k` tests in source order, the strings returned in source order *)',
           'Definition bond_tests : list Z := ' + lst(orders, zraw) + '.',
           'Definition bond_returns : list string := ' + lst(rets, s) + '.',
           '(* atom_re: character classes of the six groups, expanded; {0,n} bound of the isotope tail *)']
    for k, v in cls.items():
        out.append(f'Definition re_{k} : string := {s(v)}.')
    out.append(f'Definition re_iso_more_max : Z := {zraw(int(g[2]))}.')
    out.append('')
    return write_if_changed(dest, '\n'.join(out))


if __name__ == '__main__':
    main(*sys.argv[1:])
