#!/usr/bin/env python3
"""Regenerates the machine-written tables of DESIGN.md (between <!-- BEGIN x --> / <!-- END x --> markers):
   fixes  : fix: commits of /repo recorded in known_findings*.json (status fixed)
   known  : known findings (status known)
   seeded : seeded breaking changes under seeded/ and what caught them (seeded/RESULTS.json)"""
import json
import os
import re
import subprocess

VERIF = os.path.dirname(os.path.dirname(os.path.abspath(__file__)))


def findings():
    out = []
    paths = [os.path.join(VERIF, 'known_findings.json')] + sorted(
        os.path.join(VERIF, 'known_findings.d', f) for f in os.listdir(os.path.join(VERIF, 'known_findings.d')) if f.endswith('.json'))
    for p in paths:
        out.extend(json.load(open(p))['findings'])
    return out


def esc(s, n=230):
    s = ' '.join(str(s).split()).replace('|', '\\|')
    return s if len(s) <= n else s[:n - 1] + '…'


def table_fixes():
    rows = ['| property | commit | what failed (defect of the unchanged tree, repaired) |', '|---|---|---|']
    for k in sorted(findings(), key=lambda k: (k['property'], k.get('key', ''))):
        if k.get('status') == 'fixed':
            rows.append(f"| {k['property']} | {k.get('commit', '?')} | {esc(k['what'])} |")
    return '\n'.join(rows)


def table_known():
    rows = ['| property | key | what fails (recorded, not repaired) |', '|---|---|---|']
    ks = [k for k in findings() if k.get('status') == 'known']
    c18 = [k for k in ks if k['property'] == 'C18' and k['key'].startswith('mdl_isotope:')]
    for k in sorted(ks, key=lambda k: (k['property'], k.get('key', ''))):
        if k in c18:
            continue
        rows.append(f"| {k['property']} | `{esc(k['key'], 70)}` | {esc(k['what'], 330)} |")
    if c18:
        rows.append(f"| C18 | `mdl_isotope:<El>` x {len(c18)} | " + ', '.join(k['key'].split(':')[1] for k in c18) +
                    ': the reference isotope (mdl_isotope, the rounded atomic weight MDL uses) is not among the tabulated isotope keys (data; not a safe edit) |')
    return '\n'.join(rows)


def table_seeded():
    res = {}
    p = os.path.join(VERIF, 'seeded', 'RESULTS.json')
    if os.path.exists(p):
        res = json.load(open(p))
    rows = ['| id | property | change (by an independent sub-agent; needs) | result of `./check <property> --quick` on the changed tree |', '|---|---|---|---|']
    for name in sorted(os.listdir(os.path.join(VERIF, 'seeded'))):
        d = os.path.join(VERIF, 'seeded', name)
        if not os.path.isdir(d) or name.startswith('_'):
            continue
        meta = json.load(open(os.path.join(d, 'meta.json')))
        r = res.get(name)
        if not r:
            out = 'not run yet'
        elif not r.get('applies', True):
            out = 'patch no longer applies'
        elif r.get('caught'):
            out = f"CAUGHT ({r.get('kind')}: {esc(r.get('what') or '', 140)})"
            if r.get('by'):
                out += f" by check {r['by']}"
        else:
            out = 'MISSED by its own check'
        for other, rr in (r or {}).get('also', {}).items():
            out += f"; check {other}: " + (f"CAUGHT ({rr.get('kind')}: {esc(rr.get('what') or '', 100)})" if rr.get('caught') else 'missed')
        rows.append(f"| {name} | {meta['property']} | {esc(meta.get('summary', ''), 200)} — needs: {esc(meta.get('needs', ''), 200)} | {out} |")
    return '\n'.join(rows)


def table_counts():
    import re
    rows = ['| id | theorems in props/ | of which `_partial` | `_refuted` | proof / model files | obligations of the last quick run | correspondence+search evaluations | wall s |', '|---|---|---|---|---|---|---|---|']
    for i in range(1, 21):
        pid = f'C{i:02d}'
        pp = os.path.join(VERIF, 'coq', 'props', pid + '.v')
        if not os.path.exists(pp):
            continue
        txt = open(pp).read()
        names = re.findall(r'^\s*(?:Theorem|Corollary)\s+([\w\']+)', txt, re.M)
        req = set(re.findall(r'From\s+(?:Proofs|Model)\s+Require\s+(?:Import|Export)?\s*([^.]*)\.', txt))
        nfiles = len({n for r in req for n in r.split()})
        ev = {}
        try:
            ev = json.load(open(os.path.join(VERIF, 'evidence', pid + '.json')))
        except Exception:
            pass
        c = ev.get('coverage', {})
        rows.append(f"| {pid} | {len(names)} | {sum(1 for n in names if '_partial' in n)} | {sum(1 for n in names if '_refuted' in n)} | {nfiles} | "
                    f"{c.get('discharged', '?')}/{c.get('obligations', '?')} | {c.get('evaluations', '?')} | {ev.get('wall_s', '?')} |")
    return '\n'.join(rows)


def main():
    p = os.path.join(VERIF, 'DESIGN.md')
    s = open(p).read()
    for name, fn in (('fixes', table_fixes), ('known', table_known), ('seeded', table_seeded), ('counts', table_counts)):
        b, e = f'<!-- BEGIN {name} -->', f'<!-- END {name} -->'
        if b in s and e in s:
            s = s[:s.index(b) + len(b)] + '\n' + fn() + '\n' + s[s.index(e):]
    open(p, 'w').write(s)


if __name__ == '__main__':
    main()
