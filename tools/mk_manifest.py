#!/usr/bin/env python3
"""Writes /verif/MANIFEST.json from the table below (one entry per claimed property)."""
import json
import os

VERIF = os.path.dirname(os.path.dirname(os.path.abspath(__file__)))

COMMON_NOTE = ('Trusted: Coq 8.16.1 kernel (+ vm_compute, no native_compute), the fail-closed translators under tools/, '
               'the correspondence runners under harness/, the CachedMethods shim harness/boot.py (the installed '
               'CachedMethods 0.2.0 breaks slotted classes; the shim restores 0.1 semantics, /repo is not patched), CPython 3.12.1. '
               'Theorems are about the Coq model; the tie to /repo is the regenerated tables and the model/implementation correspondence run on every check. ')

# only properties listed in harness/manifest/READY (checked by hand: ./check passes on the unchanged tree) are claimed
READY = set(open(os.path.join(VERIF, 'harness', 'manifest', 'READY')).read().split())
CLAIMED = {}
for _f in sorted(os.listdir(os.path.join(VERIF, 'harness', 'manifest'))):
    if _f.endswith('.json') and _f[:-5] in READY:
        CLAIMED[_f[:-5]] = json.load(open(os.path.join(VERIF, 'harness', 'manifest', _f)))

PLANNED = {
}


def main():
    props = [json.loads(l) for l in open(os.path.join(VERIF, 'properties.jsonl'))]
    checks = []
    na = []
    for p in props:
        pid = p['id']
        if pid in CLAIMED:
            c = CLAIMED[pid]
            checks.append({
                'property_id': pid,
                'quick_cmd': f'./check {pid} --quick',
                'thorough_cmd': f'./check {pid} --thorough',
                'evidence_file': f'/verif/evidence/{pid}.json',
                'replay_cmd_template': f'./check {pid} --replay {{path}}',
                'engine': 'coq-proof',
                'level_claimed': {'category': c.get('category', 'proof'), 'text': c['text'], 'design_ref': c['ref']},
                'level_note': COMMON_NOTE + c['note'],
                'technique': c['technique'],
            })
        else:
            na.append({'property_id': pid, 'reason': PLANNED.get(pid, 'check under construction in this development (design in DESIGN.md section 5): not yet passing reliably on the unchanged tree, therefore not claimed')})
    man = {
        'version': 1,
        'setup_cmd': './check --setup',
        'hooks': {'guard': 'CHYTHON_VERIF', 'enable': 'no source hooks: all instrumentation is external (harness/boot.py shim, module injection of transpiled .pyx)',
                  'baseline_off_cmd': 'cd /repo && /venv/bin/python -m pytest -ra -q -p no:cacheprovider --timeout=900 --continue-on-collection-errors',
                  'source_commits': [], 'add_only': True},
        'engines': [{'name': 'coq-proof', 'path': '/verif/check',
                     'serves_properties': [c['property_id'] for c in checks],
                     'kind_free_text': 'Coq 8.16.1 development (coq/), translators (tools/), correspondence and search harness (harness/)'}],
        'checks': checks,
        'notes': 'See DESIGN.md. fix: commits in /repo are recorded in known_findings.json (status fixed).',
        'not_applicable': na,
    }
    with open(os.path.join(VERIF, 'MANIFEST.json'), 'w') as f:
        json.dump(man, f, indent=1)


if __name__ == '__main__':
    main()
