"""Translator for C06: the TOP of the ring perception -- Rings.sssr, Rings.rings_count (chython/algorithms/rings.py, class Rings) and
the function _sssr that chains _skin_graph, _bfs, _make_pid, _c_set, _rings_filter -- -> coq/gen/RingsTopBody.v.

Statement by statement (ast, fail closed).  Calls are translated through a fixed table callee -> model function with its result kind
(value that may raise = pyres, plain value, tuple of three); the arguments must be plain names bound before (so a swapped, dropped or
repeated argument or stage changes the generated term or stops the translator).  The arithmetic of rings_count is translated operator by
operator.  coq/proofs/RingsTopTie.v proves the translated functions equal to sssr_model / rings_count of the hand-written model."""
import ast
import os
import sys

sys.path.insert(0, os.path.dirname(__file__))
from coqfmt import *  # noqa

PATH = 'chython/algorithms/rings.py'

# callee -> (model function, kind, takes the set-order oracle)
CALLS = {'_skin_graph': ('skin_graph', 'res', False), '_bfs': ('bfs_paths', 'res', True), '_make_pid': ('make_pid', 'tuple3', False),
         '_c_set': ('c_set', 'res3', False), '_rings_filter': ('rings_filter', 'res', False)}


def err(node, msg):
    raise TranslatorError(f'{PATH}:{getattr(node, "lineno", 0)}: {msg}: `{ast.unparse(node)[:120]}`')


def src(n):
    return ast.unparse(n)


def find(tree, name, cls=None):
    body = tree.body
    if cls:
        body = next((n.body for n in tree.body if isinstance(n, ast.ClassDef) and n.name == cls), None)
        if body is None:
            raise TranslatorError(f'{PATH}: class {cls} not found')
    for n in body:
        if isinstance(n, ast.FunctionDef) and n.name == name:
            return n
    raise TranslatorError(f'{PATH}: {name} not found')


def strip_doc(body):
    return body[1:] if body and isinstance(body[0], ast.Expr) and isinstance(body[0].value, ast.Constant) and isinstance(body[0].value.value, str) else body


def call(e, env):
    """a call of a pipeline stage with plain-name arguments -> (gallina term, kind)"""
    if not (isinstance(e, ast.Call) and isinstance(e.func, ast.Name) and e.func.id in CALLS and not e.keywords):
        err(e, 'call of a pipeline stage expected')
    fn, kind, oracle = CALLS[e.func.id]
    args = []
    for a in e.args:
        if not (isinstance(a, ast.Name) and a.id in env):
            err(e, 'arguments must be names bound before')
        args.append(env[a.id])
    if kind == 'res3':           # _c_set(pid1, pid2, dist): the three tables, in this order, as one triple
        if len(args) != 3:
            err(e, 'three arguments expected')
        return f'{fn} ({args[0]}, {args[1]}, {args[2]})', 'res'
    if e.func.id == '_rings_filter':
        if len(args) != 2:
            err(e, 'two arguments expected')
        return f'{fn} {args[0]} (Z.to_nat {args[1]})', 'res'
    if len(args) != 1:
        err(e, 'one argument expected')
    return f'{fn} {args[0]}' + (' o' if oracle else ''), kind


def pipeline(stmts, env, k=0):
    if not stmts:
        raise TranslatorError(f'{PATH}: _sssr: a path without return')
    s, rest = stmts[0], stmts[1:]
    if isinstance(s, ast.Return):
        if rest:
            err(s, 'statements after return')
        v = s.value
        # return f(g(...), n): the inner call is evaluated first
        if isinstance(v, ast.Call) and v.args and isinstance(v.args[0], ast.Call):
            inner, kind = call(v.args[0], env)
            if kind != 'res':
                err(v, 'inner call must be a stage that may raise')
            name = f'v{k}'
            env2 = dict(env, **{name: name})
            outer = ast.Call(func=v.func, args=[ast.Name(id=name, ctx=ast.Load())] + v.args[1:], keywords=v.keywords)
            t, kind2 = call(outer, env2)
            return f'match {inner} with\n  | Err x => Err x\n  | Ok {name} => {t}\n  end'
        t, kind = call(v, env)
        return t
    if isinstance(s, ast.Assign) and len(s.targets) == 1:
        t, kind = call(s.value, env)
        tg = s.targets[0]
        if isinstance(tg, ast.Name) and kind == 'res':
            name = f'{tg.id}{k}'
            return f'match {t} with\n  | Err x => Err x\n  | Ok {name} =>\n  ' + pipeline(rest, dict(env, **{tg.id: name}), k + 1) + '\n  end'
        if isinstance(tg, ast.Tuple) and kind == 'tuple3' and len(tg.elts) == 3 and all(isinstance(x, ast.Name) for x in tg.elts):
            names = [x.id for x in tg.elts]
            return f"let '({names[0]}, {names[1]}, {names[2]}) := {t} in\n  " + pipeline(rest, dict(env, **{n: n for n in names}), k + 1)
        err(s, 'assignment not recognised')
    err(s, 'statement not recognised')


def arith(e):
    if isinstance(e, ast.BinOp) and isinstance(e.op, (ast.Add, ast.Sub, ast.FloorDiv)):
        op = {'Add': '+', 'Sub': '-', 'FloorDiv': '/'}[type(e.op).__name__]
        return f'({arith(e.left)} {op} {arith(e.right)})'
    if isinstance(e, ast.Constant) and type(e.value) is int:
        return zraw(e.value)
    t = src(e)
    if t == 'sum((len(x) for x in bonds.values()))':
        return 'degree_sum g'
    if t == 'len(bonds)':
        return 'Z.of_nat (length g)'
    if t == 'len(_connected_components(bonds))':
        return 'Z.of_nat (length (components_order g (keys g)))'
    err(e, 'rings_count: term not recognised')


def main(repo='/repo', dest=None):
    dest = dest or gen_path('RingsTopBody.v')
    tree = ast.parse(open(os.path.join(repo, PATH)).read())
    fs = find(tree, '_sssr')
    if [a.arg for a in fs.args.args] != ['bonds', 'n_sssr']:
        err(fs, '_sssr: signature')
    body = pipeline(strip_doc(fs.body), {'bonds': 'g', 'n_sssr': 'n_sssr'})
    # Rings.sssr: if self.rings_count: return _sssr(self.not_special_connectivity, self.rings_count) ; return []
    ps = strip_doc(find(tree, 'sssr', 'Rings').body)
    if len(ps) != 2 or src(ps[0]) != 'if self.rings_count:\n    return _sssr(self.not_special_connectivity, self.rings_count)' or src(ps[1]) != 'return []':
        err(ps[0], 'Rings.sssr: `if self.rings_count: return _sssr(self.not_special_connectivity, self.rings_count)` / `return []` expected')
    # Rings.rings_count
    pr = strip_doc(find(tree, 'rings_count', 'Rings').body)
    if len(pr) != 2 or src(pr[0]) != 'bonds = self.not_special_connectivity' or not isinstance(pr[1], ast.Return):
        err(pr[0], 'Rings.rings_count: `bonds = self.not_special_connectivity` / `return ...` expected')
    value = arith(pr[1].value)
    text = (f'(* GENERATED by tools/gen_ringstop.py from {PATH}: _sssr (lines {fs.lineno}-{fs.end_lineno}), Rings.sssr, Rings.rings_count -- do not edit. *)\n'
            'From Coq Require Import ZArith List Bool.\nFrom Model Require Import PyBase Graph Rings RingsFilter RingsGen.\nImport ListNotations.\nOpen Scope Z_scope.\n\n'
            '(* Rings.rings_count on bonds = not_special_connectivity (the subscripts of _connected_components raise KeyError on a dangling neighbour) *)\n'
            f'Definition gen_rings_count_value (g : graph) : Z :=\n  {value}.\n'
            'Definition gen_rings_count (g : graph) : pyres Z := if closed_b g then Ok (gen_rings_count_value g) else Err KeyError.\n\n'
            '(* _sssr(bonds, n_sssr); o = the set orders consumed by _bfs *)\n'
            f'Definition gen_sssr_fn (g : graph) (n_sssr : Z) (o : oracle) : pyres (list ring) :=\n  {body}.\n\n'
            '(* Rings.sssr: `if self.rings_count:` is the truth value of an int *)\n'
            'Definition gen_sssr (g : graph) (o : oracle) : pyres (list ring) :=\n  match gen_rings_count g with\n  | Err x => Err x\n'
            '  | Ok n => if negb (n =? 0) then gen_sssr_fn g n o else Ok []\n  end.\n')
    write_if_changed(dest, text)
    return True


if __name__ == '__main__':
    print(main(*sys.argv[1:]))
