"""Translator for C05: everything of Thiele.thiele (chython/algorithms/aromatics/thiele.py) AFTER the ring loop - the
out-of-ring double bond test, the hydrogen-moving (tautomer) search, the quinone removal and pruning, the ring count, the
bond orders written for four-membered, aromatic and rule-aromatised rings -> coq/gen/ThielePost.v.

Method: the statements after `for ring in self.sssr:` are compared, as a whole, with a SKELETON kept here in which every
decision-carrying expression (a condition, an arithmetic expression, a written constant) is a hole; the holes are translated to
Gallina by a small expression translator (and / or / not, comparisons, membership tests named by the caller, integer
constants, + - //, conditional expressions).  So an edit outside the holes (a dropped keyword argument, a changed statement
order, another container method) raises TranslatorError, and an edit inside a hole changes the generated definitions, which
coq/proofs/ThielePostTie.v proves equal to what Model.Thiele uses (gen_thiele_model_eq / gen_thiele_model_t_eq).
Python `ast` only, fail closed."""
import ast
import copy
import os
import sys

sys.path.insert(0, os.path.dirname(__file__))
from coqfmt import *  # noqa

REL = 'chython/algorithms/aromatics/thiele.py'

SKELETON = '''if not rings:
    return False
double_bonded = {n for n in rings if any((HOLE_exo for m, b in bonds[n].items()))}
if fix_tautomers and acceptors and donors:
    for start in donors:
        stack = [(start, n, HOLE_depth0, HOLE_order0) for n in rings[start] if HOLE_seed]
        path = []
        seen = {start}
        while stack:
            last, current, depth, order = stack.pop()
            if HOLE_cut:
                seen.difference_update((x for _, x, _ in path[depth:]))
                path = path[:depth]
            path.append((last, current, order))
            if current in acceptors:
                if HOLE_found:
                    acceptors.discard(current)
                    pyrroles.discard(start)
                    pyrroles.add(current)
                    atoms[current]._implicit_hydrogens = HOLE_h_acceptor
                    atoms[start]._implicit_hydrogens = HOLE_h_donor
                    break
                else:
                    continue
            depth += HOLE_depth_step
            seen.add(current)
            new_order = HOLE_new_order
            stack.extend(((current, n, depth, new_order) for n in rings[current] if HOLE_extend))
        else:
            continue
        for n, m, o in path:
            bonds[n][m]._order = o
        if not acceptors:
            break
    self.flush_cache(keep_sssr=True, keep_components=True)
    self.calc_labels()
if double_bonded:
    for n in double_bonded:
        for m in rings.pop(n):
            rings[m].discard(n)
    for n in [n for n, ms in rings.items() if not ms]:
        del rings[n]
    if not rings:
        return False
    while True:
        try:
            n = next((n for n, ms in rings.items() if HOLE_leaf))
        except StopIteration:
            break
        m = rings.pop(n).pop()
        if n in pyrroles:
            rings[m].discard(n)
        else:
            pm = rings.pop(m)
            pm.discard(n)
            for x in pm:
                rings[x].discard(m)
    if not rings:
        return False
n_sssr = HOLE_nsssr
if HOLE_stop:
    return False
rings = _sssr(rings, n_sssr)
seen = set()
for ring in rings:
    seen.update(ring)
for ring in tetracycles:
    if seen.issuperset(ring):
        n, *_, m = ring
        bonds[n][m]._order = HOLE_o_tetra1
        for n, m in zip(ring, ring[1:]):
            bonds[n][m]._order = HOLE_o_tetra2
for ring in rings:
    n, *_, m = ring
    bonds[n][m]._order = HOLE_o_ring1
    for n, m in zip(ring, ring[1:]):
        bonds[n][m]._order = HOLE_o_ring2
self.flush_cache(keep_sssr=True, keep_components=True)
self.calc_labels()
for ring in freaks:
    for q in freak_rules:
        if next(q.get_mapping(self, searching_scope=ring, automorphism_filter=False), None):
            n, *_, m = ring
            bonds[n][m]._order = HOLE_o_freak1
            for n, m in zip(ring, ring[1:]):
                bonds[n][m]._order = HOLE_o_freak2
            break
if freaks:
    self.flush_cache(keep_sssr=True, keep_components=True)
    self.calc_labels()
self.fix_stereo()
return True'''


def _err(node, msg):
    raise TranslatorError(f'{REL}:{getattr(node, "lineno", "?")}: {msg}: {ast.unparse(node)[:160]}')


class Ex:
    """expression translator.  env: source text of a sub-expression -> (Coq variable, 'Z' | 'bool' | 'nat')"""

    def __init__(self, env):
        self.env = env

    def look(self, node):
        return self.env.get(ast.unparse(node))

    def z(self, node):
        v = self.look(node)
        if v is not None:
            if v[1] != 'Z':
                _err(node, 'integer expected')
            return v[0]
        if isinstance(node, ast.Constant) and type(node.value) is int:
            return zraw(node.value)
        if isinstance(node, ast.UnaryOp) and isinstance(node.op, ast.USub) and isinstance(node.operand, ast.Constant) and type(node.operand.value) is int:
            return zraw(-node.operand.value)
        if isinstance(node, ast.BinOp):
            op = {ast.Add: '+', ast.Sub: '-', ast.FloorDiv: '/', ast.Mult: '*'}.get(type(node.op))
            if op is None:
                _err(node, 'arithmetic operator not recognised')
            if op == '/' and not (isinstance(node.right, ast.Constant) and type(node.right.value) is int and node.right.value > 0):
                _err(node, 'floor division by a positive constant only')      # Python // and Coq Z./ agree (floor) for positive divisors
            return f'({self.z(node.left)} {op} {self.z(node.right)})'
        if isinstance(node, ast.IfExp):
            return f'(if {self.b(node.test)} then {self.z(node.body)} else {self.z(node.orelse)})'
        _err(node, 'integer expression not recognised')

    def b(self, node):
        v = self.look(node)
        if v is not None:
            if v[1] == 'bool':
                return v[0]
            if v[1] == 'Z':             # truth value of an integer
                return f'(negb ({v[0]} =? 0))'
            _err(node, 'truth value of a length: write it as a comparison')
        if isinstance(node, ast.BoolOp):
            op = ' && ' if isinstance(node.op, ast.And) else ' || '
            return '(' + op.join(self.b(x) for x in node.values) + ')'
        if isinstance(node, ast.UnaryOp) and isinstance(node.op, ast.Not):
            w = self.look(node.operand)
            if w is not None and w[1] == 'Z':       # `not n` for an integer n
                return f'({w[0]} =? 0)'
            return f'(negb {self.b(node.operand)})'
        if isinstance(node, ast.Compare):
            if len(node.ops) == 1 and isinstance(node.ops[0], (ast.In, ast.NotIn)):
                w = self.env.get(ast.unparse(ast.Compare(left=node.left, ops=[ast.In()], comparators=node.comparators)))
                if w is None or w[1] != 'bool':
                    _err(node, 'membership test not named in the environment')
                return w[0] if isinstance(node.ops[0], ast.In) else f'(negb {w[0]})'
            parts = []
            terms = [node.left] + list(node.comparators)
            for i, op in enumerate(node.ops):
                lv, rv = self.look(terms[i]), self.look(terms[i + 1])
                if (lv is not None and lv[1] == 'nat') or (rv is not None and rv[1] == 'nat'):
                    # a length against an integer: compared in nat, the integer through Z.to_nat (lengths are never negative)
                    l = lv[0] if lv is not None and lv[1] == 'nat' else f'(Z.to_nat {self.z(terms[i])})'
                    r = rv[0] if rv is not None and rv[1] == 'nat' else f'(Z.to_nat {self.z(terms[i + 1])})'
                    f = {ast.Lt: f'({l} <? {r})%nat', ast.Gt: f'({r} <? {l})%nat'}.get(type(op))
                else:
                    l, r = self.z(terms[i]), self.z(terms[i + 1])
                    f = {ast.Eq: f'({l} =? {r})', ast.NotEq: f'(negb ({l} =? {r}))', ast.Lt: f'({l} <? {r})', ast.Gt: f'({r} <? {l})',
                         ast.LtE: f'({l} <=? {r})', ast.GtE: f'({r} <=? {l})'}.get(type(op))
                if f is None:
                    _err(node, 'comparison operator not recognised')
                parts.append(f)
            return parts[0] if len(parts) == 1 else '(' + ' && '.join(parts) + ')'
        _err(node, 'condition not recognised')


def thiele_fn(repo):
    with open(os.path.join(repo, REL)) as f:
        tree = ast.parse(f.read())
    for node in tree.body:
        if isinstance(node, ast.ClassDef) and node.name == 'Thiele':
            for sub in node.body:
                if isinstance(sub, ast.FunctionDef) and sub.name == 'thiele':
                    return sub
    raise TranslatorError(f'{REL}: Thiele.thiele not found')


class Holes(ast.NodeTransformer):
    """pull the holes out of the statements after the ring loop.  A hole is found by where it sits (kind of the parent statement
    and a textual anchor of its surroundings), never by what it says."""

    def __init__(self):
        self.found = {}

    def put(self, name, node):
        if name in self.found:
            _err(node, f'hole {name} found twice')
        self.found[name] = node
        return ast.Name(id='HOLE_' + name, ctx=ast.Load())


def extract(stmts):
    """(skeleton text, holes) of the post-loop statements"""
    stmts = copy.deepcopy(stmts)
    H = Holes()
    try:
        # double_bonded = {n for n in rings if any(<exo> for m, b in bonds[n].items())}
        st = next(s for s in stmts if isinstance(s, ast.Assign) and ast.unparse(s.targets[0]) == 'double_bonded')
        g = st.value.generators[0].ifs[0].args[0]
        g.elt = H.put('exo', g.elt)
        # tautomer search
        st = next(s for s in stmts if isinstance(s, ast.If) and ast.unparse(s.test).startswith('fix_tautomers'))
        loop = st.body[0]
        seed = loop.body[0].value                                     # list comprehension of the stack
        seed.elt.elts[2] = H.put('depth0', seed.elt.elts[2])
        seed.elt.elts[3] = H.put('order0', seed.elt.elts[3])
        seed.generators[0].ifs[0] = H.put('seed', seed.generators[0].ifs[0])
        wh = next(s for s in loop.body if isinstance(s, ast.While))
        cut = wh.body[1]
        cut.test = H.put('cut', cut.test)
        acc = wh.body[3]
        fnd = acc.body[0]
        fnd.test = H.put('found', fnd.test)
        fnd.body[3].value = H.put('h_acceptor', fnd.body[3].value)
        fnd.body[4].value = H.put('h_donor', fnd.body[4].value)
        wh.body[4].value = H.put('depth_step', wh.body[4].value)
        wh.body[6].value = H.put('new_order', wh.body[6].value)
        ext = wh.body[7].value.args[0]
        if len(ext.generators[0].ifs) != 1:
            _err(wh.body[7], 'one filter expected')
        ext.generators[0].ifs[0] = H.put('extend', ext.generators[0].ifs[0])
        # quinone removal / pruning
        st = next(s for s in stmts if isinstance(s, ast.If) and ast.unparse(s.test) == 'double_bonded')
        wt = next(s for s in st.body if isinstance(s, ast.While))
        gen = wt.body[0].body[0].value.args[0]
        gen.generators[0].ifs[0] = H.put('leaf', gen.generators[0].ifs[0])
        # ring count
        i = next(i for i, s in enumerate(stmts) if isinstance(s, ast.Assign) and ast.unparse(s.targets[0]) == 'n_sssr')
        stmts[i].value = H.put('nsssr', stmts[i].value)
        stmts[i + 1].test = H.put('stop', stmts[i + 1].test)
        # written bond orders
        loops = [s for s in stmts if isinstance(s, ast.For) and ast.unparse(s.target) == 'ring']
        tet = next(s for s in loops if ast.unparse(s.iter) == 'tetracycles').body[0]
        tet.body[1].value = H.put('o_tetra1', tet.body[1].value)
        tet.body[2].body[0].value = H.put('o_tetra2', tet.body[2].body[0].value)
        rg = [s for s in loops if ast.unparse(s.iter) == 'rings' and len(s.body) == 3]
        if len(rg) != 1:
            raise TranslatorError(f'{REL}: one bond writing loop `for ring in rings:` expected')
        rg[0].body[1].value = H.put('o_ring1', rg[0].body[1].value)
        rg[0].body[2].body[0].value = H.put('o_ring2', rg[0].body[2].body[0].value)
        fr = next(s for s in loops if ast.unparse(s.iter) == 'freaks').body[0].body[0]
        fr.body[1].value = H.put('o_freak1', fr.body[1].value)
        fr.body[2].body[0].value = H.put('o_freak2', fr.body[2].body[0].value)
    except (StopIteration, AttributeError, IndexError, TypeError) as e:
        raise TranslatorError(f'{REL}: the part of thiele() after the ring loop has another shape than expected ({type(e).__name__}: {e})')
    return '\n'.join(ast.unparse(s) for s in stmts), H.found


def main(repo='/repo', dest=None):
    fn = thiele_fn(repo)
    idx = [i for i, st in enumerate(fn.body) if isinstance(st, ast.For) and ast.unparse(st.target) == 'ring' and ast.unparse(st.iter) == 'self.sssr']
    if len(idx) != 1:
        raise TranslatorError(f'{REL}: exactly one `for ring in self.sssr:` expected at the top level of thiele()')
    text, holes = extract(fn.body[idx[0] + 1:])
    if text != SKELETON:
        import difflib
        d = '\n'.join(list(difflib.unified_diff(SKELETON.split('\n'), text.split('\n'), 'expected', 'source', lineterm='', n=0))[:12])
        raise TranslatorError(f'{REL}: thiele() after the ring loop differs from the expected statements outside the translated decisions:\n{d}')
    for a, b_ in (('o_tetra1', 'o_tetra2'), ('o_ring1', 'o_ring2'), ('o_freak1', 'o_freak2')):
        if ast.unparse(holes[a]) != ast.unparse(holes[b_]):
            _err(holes[b_], f'the closing bond and the other bonds of a ring are written with different orders ({ast.unparse(holes[a])})')
    z0 = Ex({})
    defs = [
        ('gen_tp_exo (inring : bool) (o : Z) : bool', Ex({'m in rings[n]': ('inring', 'bool'), 'b': ('o', 'Z')}).b(holes['exo'])),
        ('gen_tp_depth0 : Z', z0.z(holes['depth0'])),
        ('gen_tp_order0 : Z', z0.z(holes['order0'])),
        ('gen_tp_seed (indbl : bool) : bool', Ex({'n in double_bonded': ('indbl', 'bool')}).b(holes['seed'])),
        ('gen_tp_cut (lenpath : nat) (depth : Z) : bool', Ex({'len(path)': ('lenpath', 'nat'), 'depth': ('depth', 'Z')}).b(holes['cut'])),
        ('gen_tp_found (order : Z) : bool', Ex({'order': ('order', 'Z')}).b(holes['found'])),
        ('gen_tp_h_acceptor : Z', z0.z(holes['h_acceptor'])),
        ('gen_tp_h_donor : Z', z0.z(holes['h_donor'])),
        ('gen_tp_depth_step : Z', z0.z(holes['depth_step'])),
        ('gen_tp_new_order (order : Z) : Z', Ex({'order': ('order', 'Z')}).z(holes['new_order'])),
        ('gen_tp_extend (inseen indbl : bool) (bo order : Z) : bool',
         Ex({'n in seen': ('inseen', 'bool'), 'n in double_bonded': ('indbl', 'bool'), 'bonds[current][n]': ('bo', 'Z'), 'order': ('order', 'Z')}).b(holes['extend'])),
        ('gen_tp_leaf (len : Z) : bool', Ex({'len(ms)': ('len', 'Z')}).b(holes['leaf'])),
        ('gen_tp_nsssr (sumlen nkeys ncc : Z) : Z',
         Ex({'sum((len(x) for x in rings.values()))': ('sumlen', 'Z'), 'len(rings)': ('nkeys', 'Z'), 'len(_connected_components(rings))': ('ncc', 'Z')}).z(holes['nsssr'])),
        ('gen_tp_stop (n_sssr : Z) : bool', Ex({'n_sssr': ('n_sssr', 'Z')}).b(holes['stop'])),
        ('gen_tp_order_tetra : Z', z0.z(holes['o_tetra1'])),
        ('gen_tp_order_ring : Z', z0.z(holes['o_ring1'])),
        ('gen_tp_order_freak : Z', z0.z(holes['o_freak1'])),
    ]
    out = ('(* GENERATED by tools/gen_thielepost.py from chython/algorithms/aromatics/thiele.py (Thiele.thiele, the statements after\n'
           '   `for ring in self.sssr:`) -- do not edit.  Every decision of that part as the source writes it; the statements around the\n'
           '   decisions are compared with a skeleton kept in the translator.  proofs/ThielePostTie.v proves that Model.Thiele is built\n'
           '   from them. *)\nFrom Coq Require Import ZArith Bool Arith.\nOpen Scope Z_scope.\n\n')
    out += ''.join(f'Definition {sig} := {body}.\n' for sig, body in defs)
    write_if_changed(dest or gen_path('ThielePost.v'), out)
    return [sig.split()[0] for sig, _ in defs]


if __name__ == '__main__':
    print(main(sys.argv[1] if len(sys.argv) > 1 else '/repo'))
