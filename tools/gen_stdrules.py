"""Translator (runtime dump): the standardisation rule tables of chython -> coq/gen/StdRules.v

The tables (chython/algorithms/standardize/_groups.py: single_rules, double_rules; _metal_organics.py: rules;
_charged.py: fixed_rules, morgan_rules) are built at import time from SMARTS strings, so -- exactly like
tools/gen_runtime.py -- chython is IMPORTED from the repository under the CachedMethods shim in a fresh subprocess and
the live rule objects are dumped: for every rule the pattern atoms (number, kind, element list, charge / radical
constraint or unconstrained, neighbours / hybridisation / heteroatoms / ring sizes / implicit H constraints), the
pattern bonds (allowed orders, ring mark), atom_fix IN ITS DICT ORDER (charge DELTA -- the engine does `_charge += ch` --
and new radical state or None), bonds_fix, any_atoms and the is_tautomer flag.

Fail closed (TranslatorError) on: a rule tuple of another shape than (pattern, atom_fix, bonds_fix, any_atoms,
is_tautomer) -- in particular anything that could add or delete atoms --, an unknown query atom class, non-int
deltas, non-bool radical marks, a changed set of rule collections imported by standardize/molecule.py, or a changed
patch statement in Standardize.__standardize (the model relies on `a._charge += ch`)."""
import ast
import json
import os
import re
import subprocess
import sys

sys.path.insert(0, os.path.dirname(__file__))
from coqfmt import *  # noqa

DUMP = r'''
import sys, json
sys.path.insert(0, sys.argv[1])
import boot
import chython
from chython.containers import QueryContainer
from chython.containers.bonds import QueryBond
from chython.periodictable.base.query import AnyMetal, AnyElement, ListElement, QueryElement, ExtendedQuery
from chython.algorithms.standardize._groups import single_rules, double_rules
from chython.algorithms.standardize._metal_organics import rules as metal_rules
from chython.algorithms.standardize._charged import fixed_rules, morgan_rules


def fail(msg):
    sys.stderr.write('UNRECOGNISED: ' + msg + '\n')
    sys.exit(3)


def ints(v, what):
    if not isinstance(v, tuple) or not all(type(x) is int for x in v):
        fail(f'{what}: not a tuple of ints: {v!r}')
    return list(v)


def pattern(q, where):
    if type(q) is not QueryContainer:
        fail(f'{where}: pattern is {type(q).__name__}, not QueryContainer')
    atoms = []
    for n, a in q.atoms():
        if type(n) is not int:
            fail(f'{where}: atom number {n!r}')
        if type(a) is AnyMetal:
            kind, nums, chg, rad = 'M', [], None, None
            het = ring = hyd = []
        elif isinstance(a, ExtendedQuery):
            if type(a) is AnyElement:
                kind, nums = 'A', []
            elif type(a) is ListElement:
                kind, nums = 'E', list(a.atomic_numbers)
                if not nums or len(nums) != len(a._elements):
                    fail(f'{where}: element list {a._elements!r} does not resolve')
            elif isinstance(a, QueryElement):
                kind, nums = 'E', [a.atomic_number]
                if a.isotope is not None:
                    fail(f'{where}: isotope constraint on pattern atom {n}')
            else:
                fail(f'{where}: unknown query atom class {type(a).__name__}')
            chg, rad = a.charge, a.is_radical
            if type(chg) is not int or type(rad) is not bool:
                fail(f'{where}: charge/radical of pattern atom {n}')
            het, ring, hyd = ints(a.heteroatoms, where), ints(a.ring_sizes, where), ints(a.implicit_hydrogens, where)
            if a.stereo is not None:
                fail(f'{where}: stereo constraint on pattern atom {n}')
        else:
            fail(f'{where}: unknown query atom class {type(a).__name__}')
        if a.masked:
            fail(f'{where}: masked pattern atom {n}')
        atoms.append([n, kind, nums, chg, rad, ints(a.neighbors, where), ints(a.hybridization, where), het, ring, hyd])
    bonds = []
    for n, m, b in q.bonds():
        if type(b) is not QueryBond or b.stereo is not None:
            fail(f'{where}: pattern bond {n}-{m} is {b!r}')
        bonds.append([n, m, ints(b.order, where), b.in_ring])
    return {'name': str(q), 'atoms': atoms, 'bonds': bonds}


def rules(coll, name):
    out = []
    for i, r in enumerate(coll):
        where = f'{name}[{i}]'
        if not isinstance(r, tuple) or len(r) != 5:
            fail(f'{where}: rule is not a 5-tuple (pattern, atom_fix, bonds_fix, any_atoms, is_tautomer): {r!r}')
        q, af, bf, aa, taut = r
        d = pattern(q, where)
        if type(af) is not dict:
            fail(f'{where}: atom_fix is not a dict')
        afl = []
        for k, v in af.items():      # dict order = patch order of the engine
            if type(k) is not int or not isinstance(v, tuple) or len(v) != 2 or type(v[0]) is not int or not (v[1] is None or type(v[1]) is bool):
                fail(f'{where}: atom_fix entry {k!r}: {v!r}')
            afl.append([k, v[0], v[1]])
        bfl = []
        for x in bf:
            if not isinstance(x, tuple) or len(x) != 3 or not all(type(y) is int for y in x):
                fail(f'{where}: bonds_fix entry {x!r}')
            bfl.append(list(x))
        if not isinstance(aa, list) or not all(type(x) is int for x in aa):
            fail(f'{where}: any_atoms {aa!r}')
        if type(taut) is not bool:
            fail(f'{where}: is_tautomer {taut!r}')
        d.update(afix=afl, bfix=bfl, any=list(aa), taut=taut)
        out.append(d)
    return out


def crules(coll, name):
    out = []
    for i, r in enumerate(coll):
        where = f'{name}[{i}]'
        if not isinstance(r, tuple) or len(r) != 2 or type(r[1]) is not bool:
            fail(f'{where}: rule is not (pattern, fix): {r!r}')
        d = pattern(r[0], where)
        d['fix'] = r[1]
        out.append(d)
    return out


json.dump({'double': rules(double_rules, 'double_rules'), 'single': rules(single_rules, 'single_rules'),
           'metal': rules(metal_rules, 'metal_rules'), 'fixed': crules(fixed_rules, 'fixed_rules'),
           'morgan': crules(morgan_rules, 'morgan_rules')}, sys.stdout)
'''

HEADER = '''(* GENERATED by tools/gen_stdrules.py by importing chython from the repository and dumping the live rule objects of
   chython/algorithms/standardize/{_groups,_metal_organics,_charged}.py.  Do not edit. *)
From Coq Require Import ZArith List String Bool.
Import ListNotations.
Open Scope Z_scope.

(* kind of a pattern atom: an element or element list; AnyElement `A`; AnyMetal `M` (charge and radical NOT compared) *)
Inductive pkind := PElem (nums : list Z) | PAny | PMetal.

Record patom := mkPAtom {
  pa_id : Z; pa_kind : pkind;
  pa_chg : option Z;          (* Some c: the matcher requires charge = c;  None: unconstrained (AnyMetal) *)
  pa_rad : option bool;       (* Some r: the matcher requires is_radical = r;  None: unconstrained *)
  pa_nb : list Z; pa_hyb : list Z; pa_het : list Z; pa_ring : list Z; pa_h : list Z   (* [] = unconstrained *)
}.
Record pbond := mkPBond { pb_n : Z; pb_m : Z; pb_ord : list Z; pb_ring : option bool }.

(* (pattern, atom_fix, bonds_fix, any_atoms, is_tautomer);  atom_fix in dict order: (pattern atom, charge DELTA, new
   radical state or None);  bonds_fix: (pattern atom, pattern atom, new order) *)
Record rule := mkRule {
  r_name : string; r_atoms : list patom; r_bonds : list pbond;
  r_afix : list (Z * Z * option bool); r_bfix : list (Z * Z * Z); r_any : list Z; r_taut : bool }.

(* charge canonisation rules of standardize_charges: (pattern, fix) *)
Record crule := mkCRule { c_name : string; c_atoms : list patom; c_bonds : list pbond; c_fix : bool }.
'''


def source_audit(repo):
    """the model of Standardize.__standardize relies on a handful of statements; fail closed when they change shape"""
    path = os.path.join(repo, 'chython/algorithms/standardize/molecule.py')
    src = open(path).read()
    tree = ast.parse(src)
    imported = set()
    for node in tree.body:
        if isinstance(node, ast.ImportFrom) and node.module in ('_charged', '_groups', '_metal_organics'):
            imported.update((node.module, a.name, a.asname) for a in node.names)
    want = {('_charged', 'fixed_rules', None), ('_charged', 'morgan_rules', None), ('_groups', '*', None),
            ('_metal_organics', 'rules', 'metal_rules')}
    if imported != want:
        raise TranslatorError(f'{path}: rule collections imported by the engine changed: {sorted(imported)}')
    fn = None
    for node in ast.walk(tree):
        if isinstance(node, ast.FunctionDef) and node.name == '__standardize':
            fn = node
    if fn is None:
        raise TranslatorError(f'{path}: Standardize.__standardize not found')
    squash = lambda t: re.sub(r'[()\s]', '', t)   # ast.unparse parenthesises tuples differently across versions
    text = squash(ast.unparse(fn))
    for needle in ('for (r, (pattern, atom_fix, bonds_fix, any_atoms, is_tautomer)) in enumerate(rules)',
                   'for (n, (ch, ir)) in atom_fix.items()', 'a._charge += ch', 'if a.charge > 4', 'a._charge -= ch',
                   'for (n, m, bo) in bonds_fix', 'if not match.isdisjoint(seen)'):
        if squash(needle) not in text:
            raise TranslatorError(f'{path}:{fn.lineno}: __standardize no longer contains `{needle}`')
    # the order in which standardize() runs the collections
    std = next(n for n in ast.walk(tree) if isinstance(n, ast.FunctionDef) and n.name == 'standardize')
    calls = [c for c in ast.walk(std) if isinstance(c, ast.Call) and isinstance(c.func, ast.Attribute)
             and c.func.attr.endswith('__standardize') and c.args]
    calls = [ast.unparse(c.args[0]) for c in sorted(calls, key=lambda c: (c.lineno, c.col_offset))]
    if calls != ['double_rules', 'double_rules', 'single_rules', 'metal_rules']:
        raise TranslatorError(f'{path}:{std.lineno}: standardize() runs the rule collections in another order: {calls}')


def zl(xs):
    return lst([zraw(x) for x in xs])


def patom(a):
    n, kind, nums, chg, rad, nb, hyb, het, ring, hyd = a
    k = {'M': 'PMetal', 'A': 'PAny'}.get(kind) or f'(PElem {zl(nums)})'
    return (f'(mkPAtom {zraw(n)} {k} {opt(chg, zraw)} {opt(rad, b)} {zl(nb)} {zl(hyb)} {zl(het)} {zl(ring)} {zl(hyd)})')


def pbond(x):
    n, m, orders, ring = x
    return f'(mkPBond {zraw(n)} {zraw(m)} {zl(orders)} {opt(ring, b)})'


def rule(d):
    af = lst([tup(zraw(n), zraw(ch), opt(ir, b)) for n, ch, ir in d['afix']])
    bf = lst([tup(zraw(n), zraw(m), zraw(o)) for n, m, o in d['bfix']])
    return (f'(mkRule {s(d["name"])}\n     {lst([patom(a) for a in d["atoms"]])}\n     {lst([pbond(x) for x in d["bonds"]])}\n'
            f'     {af} {bf} {zl(d["any"])} {b(d["taut"])})')


def crule(d):
    return (f'(mkCRule {s(d["name"])}\n     {lst([patom(a) for a in d["atoms"]])}\n     {lst([pbond(x) for x in d["bonds"]])} {b(d["fix"])})')


def dump(repo='/repo'):
    """the raw dump (also used by the harness to cross-check the generated file against the live objects)"""
    here = os.path.dirname(os.path.abspath(__file__))
    env = dict(os.environ, PYTHONPATH=repo, PYTHONHASHSEED='0')
    p = subprocess.run(['/venv/bin/python', '-c', DUMP, os.path.join(os.path.dirname(here), 'harness')],
                       env=env, stdout=subprocess.PIPE, stderr=subprocess.PIPE, text=True, timeout=300)
    if p.returncode:
        raise TranslatorError('rule table dump failed: ' + p.stderr[-1500:])
    return json.loads(p.stdout)


def render(d):
    out = [HEADER]
    for key in ('double', 'single', 'metal'):
        out.append(f'Definition {key}_rules : list rule :=\n  [' + ';\n   '.join(rule(r) for r in d[key]) + '].\n')
    for key in ('fixed', 'morgan'):
        out.append(f'Definition {key}_rules : list crule :=\n  [' + ';\n   '.join(crule(r) for r in d[key]) + '].\n')
    return '\n'.join(out)


def main(repo='/repo', dest=None):
    dest = dest or gen_path('StdRules.v')
    source_audit(repo)
    return write_if_changed(dest, render(dump(repo)))


if __name__ == '__main__':
    main(*sys.argv[1:])
