"""Translator: /repo/chython/periodictable/group*.py  +  the tables at the bottom of the two
.pyx codec files  ->  coq/gen/Elements.v

Reads the Python AST only (chython is NOT imported): every Element subclass must consist of
`__slots__ = ()` and @property methods whose body is a single `return <literal>`; anything else
stops the translator (fail closed).  Float literals are kept exactly, as (mantissa, decimals)
pairs taken from their source spelling.
"""
import ast
import glob
import os
import re
import sys

sys.path.insert(0, os.path.dirname(__file__))
from coqfmt import *  # noqa

ROMAN = {'I': 1, 'II': 2, 'III': 3, 'IV': 4, 'V': 5, 'VI': 6, 'VII': 7, 'VIII': 8, 'IX': 9, 'X': 10,
         'XI': 11, 'XII': 12, 'XIII': 13, 'XIV': 14, 'XV': 15, 'XVI': 16, 'XVII': 17, 'XVIII': 18}

KNOWN_PROPS = {'atomic_number', 'isotopes_distribution', 'isotopes_masses', '_common_valences',
               '_valences_exceptions', 'atomic_radius', 'mdl_isotope', 'is_forming_single_bonds',
               'is_forming_double_bonds'}


def dec_of(src, where):
    """exact decimal of a float/int literal spelling -> (mantissa, digits)"""
    t = src.strip()
    m = re.fullmatch(r'(-?)(\d*)\.?(\d*)(?:[eE]([-+]?\d+))?', t)
    if not m or not (m.group(2) or m.group(3)):
        raise TranslatorError(f'{where}: unsupported numeric literal {src!r}')
    sign, ip, fp, ex = m.groups()
    mant = int((ip or '0') + fp)
    digits = len(fp)
    if ex:
        e = int(ex)
        if e >= 0:
            mant *= 10 ** e
        else:
            digits += -e
    # normalise trailing zeros
    while digits and mant % 10 == 0:
        mant //= 10
        digits -= 1
    if sign:
        mant = -mant
    return mant, digits


def lit(node, where):
    try:
        return ast.literal_eval(node)
    except Exception:
        raise TranslatorError(f'{where}: not a literal')


def parse_group_file(path, out):
    src = open(path).read()
    tree = ast.parse(src)
    for node in tree.body:
        if not isinstance(node, ast.ClassDef):
            if isinstance(node, (ast.ImportFrom, ast.Import, ast.Expr)):
                continue
            if isinstance(node, ast.Assign) and getattr(node.targets[0], 'id', '') == '__all__':
                continue
            raise TranslatorError(f'{path}:{node.lineno}: unexpected top-level statement')
        where = f'{path}:{node.lineno}'
        bases = [getattr(bb, 'id', None) for bb in node.bases]
        if 'Element' not in bases:
            raise TranslatorError(f'{where}: class {node.name} is not an Element')
        period = [ROMAN[x[6:]] for x in bases if x and x.startswith('Period')]
        group = [ROMAN[x[5:]] for x in bases if x and x.startswith('Group')]
        if len(period) != 1 or len(group) != 1:
            raise TranslatorError(f'{where}: period/group bases')
        rec = {'symbol': node.name, 'period': period[0], 'group': group[0], 'file': os.path.basename(path),
               'line': node.lineno}
        for item in node.body:
            iw = f'{path}:{item.lineno}'
            if isinstance(item, ast.Assign):
                if getattr(item.targets[0], 'id', '') == '__slots__' and lit(item.value, iw) == ():
                    continue
                raise TranslatorError(f'{iw}: unexpected assignment')
            if isinstance(item, ast.Expr) and isinstance(item.value, ast.Constant):
                continue  # docstring
            if not isinstance(item, ast.FunctionDef):
                raise TranslatorError(f'{iw}: unexpected class member')
            if [getattr(d, 'id', None) for d in item.decorator_list] != ['property']:
                raise TranslatorError(f'{iw}: {item.name} is not a plain property')
            if item.name not in KNOWN_PROPS:
                raise TranslatorError(f'{iw}: unknown property {item.name}')
            body = [x for x in item.body if not (isinstance(x, ast.Expr) and isinstance(x.value, ast.Constant))]
            if len(body) != 1 or not isinstance(body[0], ast.Return):
                raise TranslatorError(f'{iw}: body of {item.name} is not a single return')
            val = body[0].value
            if item.name in ('isotopes_distribution', 'isotopes_masses'):
                if not isinstance(val, ast.Dict):
                    raise TranslatorError(f'{iw}: dict display expected')
                pairs = []
                for k, v in zip(val.keys, val.values):
                    kk = lit(k, iw)
                    if not isinstance(kk, int) or isinstance(kk, bool):
                        raise TranslatorError(f'{iw}: int key expected')
                    pairs.append((kk, dec_of(ast.get_source_segment(src, v), iw)))
                rec[item.name] = pairs
            elif item.name == 'atomic_radius':
                rec[item.name] = dec_of(ast.get_source_segment(src, val), iw)
            else:
                v = lit(val, iw)
                if item.name == '_common_valences':
                    if not (isinstance(v, tuple) and all(isinstance(x, int) for x in v)):
                        raise TranslatorError(f'{iw}: tuple of ints expected')
                elif item.name == '_valences_exceptions':
                    if not isinstance(v, tuple):
                        raise TranslatorError(f'{iw}: tuple expected')
                    for r in v:
                        if not (isinstance(r, tuple) and len(r) == 4 and isinstance(r[0], int)
                                and isinstance(r[1], bool) and isinstance(r[2], int) and isinstance(r[3], tuple)
                                and all(isinstance(e, tuple) and len(e) == 2 and isinstance(e[0], int)
                                        and isinstance(e[1], str) for e in r[3])):
                            raise TranslatorError(f'{iw}: malformed valence exception {r!r}')
                elif item.name in ('atomic_number', 'mdl_isotope'):
                    if not isinstance(v, int) or isinstance(v, bool):
                        raise TranslatorError(f'{iw}: int expected')
                else:
                    if not isinstance(v, bool):
                        raise TranslatorError(f'{iw}: bool expected')
                rec[item.name] = v
        for req in ('atomic_number', 'isotopes_distribution', 'isotopes_masses', '_common_valences',
                    '_valences_exceptions', 'atomic_radius', 'mdl_isotope'):
            if req not in rec:
                raise TranslatorError(f'{where}: class {node.name} lacks {req}')
        rec.setdefault('is_forming_single_bonds', False)
        rec.setdefault('is_forming_double_bonds', False)
        out.append(rec)


def pyx_int_table(path, name):
    src = open(path).read()
    m = re.search(rf'^cdef short\[(\d+)\] {name}\n{name}\[:\] = \[([^\]]*)\]', src, re.M)
    if not m:
        raise TranslatorError(f'{path}: table {name} not found')
    vals = [int(x) for x in m.group(2).replace('\n', ' ').split(',')]
    if len(vals) != int(m.group(1)):
        raise TranslatorError(f'{path}: table {name} length mismatch')
    return vals


def pyx_elements_list(path):
    src = open(path).read()
    m = re.search(r'^cdef list elements\nelements = \[([^\]]*)\]', src, re.M)
    if not m:
        raise TranslatorError(f'{path}: elements list not found')
    return [x.strip() for x in m.group(1).replace('\n', ' ').split(',')]


def dec(p):
    return f'({zraw(p[0])}, {p[1]}%nat)'


def generate(repo):
    recs = []
    files = sorted(glob.glob(os.path.join(repo, 'chython/periodictable/group*.py')))
    if len(files) != 18:
        raise TranslatorError(f'expected 18 group files, found {len(files)}')
    for f in files:
        parse_group_file(f, recs)
    # the order of Element.__subclasses__() is import order: __init__ imports groupI..groupXVIII
    init = open(os.path.join(repo, 'chython/periodictable/__init__.py')).read()
    imp = re.findall(r'^from \.(group[IVX]+) import \*$', init, re.M)
    order = {name + '.py': i for i, name in enumerate(imp)}
    if sorted(order) != sorted(os.path.basename(f) for f in files):
        raise TranslatorError('periodictable/__init__.py does not import exactly the 18 group files')
    recs.sort(key=lambda r: (order[r['file']], r['line']))

    out = ['(* GENERATED by tools/gen_elements.py from /repo/chython/periodictable/group*.py and the',
           '   .pyx codec tables.  Do not edit. *)',
           'From Coq Require Import ZArith List String Bool.',
           'Import ListNotations.',
           'Open Scope Z_scope.',
           '',
           '(* exact decimal: (mantissa, number of decimal digits) *)',
           'Definition dec := (Z * nat)%type.',
           '',
           'Record elem := mkElem {',
           '  e_sym : string; e_num : Z; e_period : Z; e_group : Z;',
           '  e_dist : list (Z * dec); e_mass : list (Z * dec);',
           '  e_common : list Z;',
           '  e_exc : list (Z * bool * Z * list (Z * string));',
           '  e_radius : dec; e_mdl : Z; e_single : bool; e_double : bool }.',
           '']
    names = []
    for r in recs:
        nm = 'el_' + r['symbol']
        names.append(nm)
        exc = lst([tup(zraw(c), b(rad), zraw(h), lst([tup(zraw(o), s(e)) for o, e in env]))
                   for c, rad, h, env in r['_valences_exceptions']], per_line=2)
        out.append(f'Definition {nm} : elem := mkElem {s(r["symbol"])} {zraw(r["atomic_number"])} '
                   f'{r["period"]} {r["group"]}\n'
                   f'  {lst([tup(zraw(k), dec(v)) for k, v in r["isotopes_distribution"]])}\n'
                   f'  {lst([tup(zraw(k), dec(v)) for k, v in r["isotopes_masses"]])}\n'
                   f'  {lst([zraw(x) for x in r["_common_valences"]])}\n'
                   f'  {exc}\n'
                   f'  {dec(r["atomic_radius"])} {zraw(r["mdl_isotope"])} {b(r["is_forming_single_bonds"])} '
                   f'{b(r["is_forming_double_bonds"])}.')
    out.append('')
    out.append('(* in the order of Element.__subclasses__() (import order) *)')
    out.append('Definition elements : list elem :=\n  ' + lst(names, per_line=12) + '.')
    out.append('')
    pk = pyx_int_table(os.path.join(repo, 'chython/containers/_pack_v2.pyx'), 'common_isotopes')
    up = pyx_int_table(os.path.join(repo, 'chython/containers/_unpack_v0v2.pyx'), 'common_isotopes')
    out.append('Definition pack_common_isotopes : list Z :=\n  ' + lst([zraw(x) for x in pk], per_line=20) + '.')
    out.append('Definition unpack_common_isotopes : list Z :=\n  ' + lst([zraw(x) for x in up], per_line=20) + '.')
    el = pyx_elements_list(os.path.join(repo, 'chython/containers/_unpack_v0v2.pyx'))
    out.append('Definition unpack_elements : list string :=\n  ' + lst([s(x) for x in el], per_line=16) + '.')
    out.append('')
    return '\n'.join(out)


def main(repo='/repo', dest=None):
    dest = dest or gen_path('Elements.v')
    return write_if_changed(dest, generate(repo))


if __name__ == '__main__':
    try:
        main(*sys.argv[1:])
    except TranslatorError as e:
        print('tie-broken: translator gen_elements:', e)
        sys.exit(2)
