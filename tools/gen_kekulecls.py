"""Translator for C05: the per-atom decision trees of Kekule.__prepare_rings (chython/algorithms/aromatics/kekule.py) --
the quinone test `for n in double_bonded:` and the atom loop `for n in rings:` -- as Coq functions of the atom's
attributes -> coq/gen/KekuleCls.v.  coq/proofs/KekuleGenTie.v proves that the hand-written model
(Model.Kekule.quinone_ok, classify_atom) equals them for ALL integers, so an edit of an element, charge, neighbour count,
hydrogen test or of the branch order in the source breaks a named theorem.
Python `ast` only, fail closed (TranslatorError) on any statement or expression shape it does not recognise."""
import ast
import os
import sys

sys.path.insert(0, os.path.dirname(__file__))
from coqfmt import *  # noqa

REL = 'chython/algorithms/aromatics/kekule.py'
ELEMENTS = ('B', 'C', 'N', 'O', 'P', 'S', 'As', 'Se', 'Te')


def _err(node, msg):
    raise TranslatorError(f'{REL}:{getattr(node, "lineno", "?")}: {msg}: {ast.unparse(node)[:120]}')


def _is_atom(node):
    """`atom` or `(atom := atoms[n])`"""
    if isinstance(node, ast.Name) and node.id == 'atom':
        return True
    if isinstance(node, ast.NamedExpr) and isinstance(node.target, ast.Name) and node.target.id == 'atom':
        v = node.value
        if isinstance(v, ast.Subscript) and isinstance(v.value, ast.Name) and v.value.id == 'atoms' and isinstance(v.slice, ast.Name) and v.slice.id == 'n':
            return True
        _err(node, 'atom := atoms[n] expected')
    return False


def _attr(node):
    if isinstance(node, ast.Attribute) and _is_atom(node.value) and node.attr in ('charge', 'neighbors', 'implicit_hydrogens', 'is_radical'):
        return node.attr
    return None


class Tr:
    def __init__(self, consts):
        self.consts = consts

    def elem(self, node):
        if isinstance(node, ast.Name) and node.id in self.consts:
            return zraw(self.consts[node.id])
        _err(node, 'element constant expected')

    def intc(self, node):
        if isinstance(node, ast.Constant) and type(node.value) is int:
            return zraw(node.value)
        if isinstance(node, ast.UnaryOp) and isinstance(node.op, ast.USub) and isinstance(node.operand, ast.Constant) and type(node.operand.value) is int:
            return zraw(-node.operand.value)
        _err(node, 'integer literal expected')

    def items(self, node, f):
        if isinstance(node, ast.Tuple) and node.elts:
            return [f(e) for e in node.elts]
        _err(node, 'non-empty tuple expected')

    def eq(self, var, val):
        """var == val for var in num / chg / nb / h"""
        if var == 'h':
            return f'(match h with Some x => x =? {val} | None => false end)'
        return f'({var} =? {val})'

    def cond(self, node, d):
        """boolean Coq expression; d = current symbolic state of `n in double_bonded`"""
        if isinstance(node, ast.BoolOp):
            op = ' && ' if isinstance(node.op, ast.And) else ' || '
            return '(' + op.join(self.cond(v, d) for v in node.values) + ')'
        if isinstance(node, ast.UnaryOp) and isinstance(node.op, ast.Not):
            return f'(negb {self.cond(node.operand, d)})'
        a = _attr(node)
        if a == 'is_radical':
            return 'rad'
        if a == 'charge':
            return '(negb (chg =? 0))'
        if a == 'implicit_hydrogens':          # truthiness: not None and not 0
            return '(match h with Some x => negb (x =? 0) | None => false end)'
        if isinstance(node, ast.Compare) and len(node.ops) == 1:
            op, left, right = node.ops[0], node.left, node.comparators[0]
            neg = isinstance(op, (ast.NotEq, ast.NotIn, ast.IsNot))
            wrap = (lambda e: f'(negb {e})') if neg else (lambda e: e)
            if isinstance(left, ast.Name) and left.id == 'n' and isinstance(op, (ast.In, ast.NotIn)) and isinstance(right, ast.Name) and right.id == 'double_bonded':
                return wrap(d)
            if _is_atom(left):
                if isinstance(op, (ast.Eq, ast.NotEq)):
                    return wrap(self.eq('num', self.elem(right)))
                if isinstance(op, (ast.In, ast.NotIn)):
                    return wrap('(' + ' || '.join(self.eq('num', v) for v in self.items(right, self.elem)) + ')')
            la = _attr(left)
            var = {'charge': 'chg', 'neighbors': 'nb', 'implicit_hydrogens': 'h'}.get(la)
            if var:
                if isinstance(op, (ast.Is, ast.IsNot)) and var == 'h' and isinstance(right, ast.Constant) and right.value is None:
                    return wrap('(match h with None => true | Some _ => false end)')
                if isinstance(op, (ast.Eq, ast.NotEq)):
                    return wrap(self.eq(var, self.intc(right)))
                if isinstance(op, (ast.In, ast.NotIn)):
                    return wrap('(' + ' || '.join(self.eq(var, v) for v in self.items(right, self.intc)) + ')')
        _err(node, 'condition not recognised')

    def stmts(self, body, p, d, ind):
        """the statements `body` from state (p, d) on; Coq expression of type pyres (bool * bool)"""
        if not body:
            return f'Ok ({p}, {d})'
        st, rest = body[0], body[1:]
        if isinstance(st, ast.Pass):
            return self.stmts(rest, p, d, ind)
        if isinstance(st, ast.Raise):
            e = st.exc
            if isinstance(e, ast.Call):
                e = e.func
            if isinstance(e, ast.Name) and e.id == 'InvalidAromaticRing' and st.cause is None:
                return '(Err OtherError)'
            _err(st, 'raise InvalidAromaticRing expected')
        if isinstance(st, ast.Expr) and isinstance(st.value, ast.Call):
            c = st.value
            if isinstance(c.func, ast.Attribute) and c.func.attr == 'add' and isinstance(c.func.value, ast.Name) and len(c.args) == 1 and not c.keywords \
                    and isinstance(c.args[0], ast.Name) and c.args[0].id == 'n':
                if c.func.value.id == 'double_bonded':
                    return self.stmts(rest, p, 'true', ind)
                if c.func.value.id == 'pyrroles':
                    return self.stmts(rest, 'true', d, ind)
            _err(st, 'double_bonded.add(n) / pyrroles.add(n) expected')
        if isinstance(st, ast.If):
            pad = '  ' * ind
            return (f'if {self.cond(st.test, d)}\n{pad}then {self.stmts(list(st.body) + rest, p, d, ind + 1)}\n'
                    f'{pad}else {self.stmts(list(st.orelse) + rest, p, d, ind + 1)}')
        _err(st, 'statement not recognised')


def main(repo):
    path = os.path.join(repo, REL)
    with open(path) as f:
        tree = ast.parse(f.read())
    consts = {}
    for node in tree.body:
        if isinstance(node, ast.Assign) and len(node.targets) == 1 and isinstance(node.targets[0], ast.Name) and node.targets[0].id in ELEMENTS:
            if not (isinstance(node.value, ast.Constant) and type(node.value.value) is int) or node.targets[0].id in consts:
                _err(node, 'element constant: one integer literal expected')
            consts[node.targets[0].id] = node.value.value
    if sorted(consts) != sorted(ELEMENTS):
        raise TranslatorError(f'{REL}: module constants {sorted(consts)} found, {sorted(ELEMENTS)} expected')
    fn = None
    for node in tree.body:
        if isinstance(node, ast.ClassDef) and node.name == 'Kekule':
            for sub in node.body:
                if isinstance(sub, ast.FunctionDef) and sub.name == '__prepare_rings':
                    fn = sub
    if fn is None:
        raise TranslatorError(f'{REL}: Kekule.__prepare_rings not found')
    loops = {}
    for st in fn.body:
        if isinstance(st, ast.For) and isinstance(st.target, ast.Name) and st.target.id == 'n' and isinstance(st.iter, ast.Name) and st.iter.id in ('double_bonded', 'rings'):
            if st.iter.id in loops or st.orelse:
                _err(st, 'one loop without else expected')
            loops[st.iter.id] = st
    if sorted(loops) != ['double_bonded', 'rings']:
        raise TranslatorError(f'{REL}: loops `for n in double_bonded` and `for n in rings` expected at the top level of __prepare_rings, found {sorted(loops)}')
    if loops['double_bonded'].lineno > loops['rings'].lineno:
        raise TranslatorError(f'{REL}: the quinone loop is expected before the atom loop')
    # nothing between the two loops and only `return rings, pyrroles, double_bonded` after the atom loop
    idx = fn.body.index(loops['rings'])
    if fn.body.index(loops['double_bonded']) != idx - 1 or idx != len(fn.body) - 2 or ast.unparse(fn.body[-1]) != 'return (rings, pyrroles, double_bonded)':
        raise TranslatorError(f'{REL}: __prepare_rings is expected to end with the quinone loop, the atom loop and `return rings, pyrroles, double_bonded`')
    # the atom loop starts from pyrroles = set() (assigned once, before the loops) and the double_bonded of the quinone test
    tr = Tr(consts)
    quinone = tr.stmts(list(loops['double_bonded'].body), 'false', 'true', 2)
    classify = tr.stmts(list(loops['rings'].body), 'false', 'indb', 2)
    text = ('(* GENERATED by tools/gen_kekulecls.py from chython/algorithms/aromatics/kekule.py (Kekule.__prepare_rings) -- do not edit.\n'
            '   The two per-atom decision trees of __prepare_rings as the source writes them: branch for branch, in source order.\n'
            '   proofs/KekuleGenTie.v proves Model.Kekule.quinone_ok / classify_atom equal to them for all integers. *)\n'
            'From Coq Require Import ZArith Bool.\nFrom Model Require Import PyBase.\nOpen Scope Z_scope.\n\n' +
            '\n'.join(f'Definition src_{k} : Z := {zraw(v)}.' for k, v in sorted(consts.items(), key=lambda kv: kv[1])) + '\n\n'
            '(* `for n in double_bonded:` -- the body falls through (true) or raises InvalidAromaticRing (false) *)\n'
            'Definition gen_quinone_ok (num chg : Z) : bool :=\n  match (' + quinone + ') : pyres (bool * bool) with Ok _ => true | Err _ => false end.\n\n'
            '(* `for n in rings:` -- (n in pyrroles, n in double_bonded) after the body, indb = n in double_bonded before it *)\n'
            'Definition gen_classify (num chg : Z) (rad : bool) (nb : Z) (h : option Z) (indb : bool) : pyres (bool * bool) :=\n  ' + classify + '.\n')
    write_if_changed(gen_path('KekuleCls.v'), text)
    return consts


if __name__ == '__main__':
    print(main(sys.argv[1] if len(sys.argv) > 1 else '/repo'))
