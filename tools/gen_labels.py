"""Translator (C08): the label loop of chython/containers/molecule.py:MoleculeContainer.calc_labels -> coq/gen/LabelsBody.v

The body of the inner loop `for m, bond in m_bond.items()` (neighbours, heteroatoms, hybridisation, explicit hydrogens of one
atom) is translated statement by statement into the Gallina function g_label_step over the tuple of the four counters, the four
initialisations before the loop into g_label_init; proofs/LabelsTie.v proves them equal to the hand-written Query.label_step and
the start value of Query.labels_of, which the labels_spec theorems are stated for.

FAIL CLOSED (TranslatorError) on anything outside:
  statements : `<counter> = <int>`, `<counter> += <int>`, `if / elif / else`, `continue` as the last statement of an if body,
               `bond._in_ring = <anything>` (the ring mark of the bond: NOT part of the counters, modelled by Query.bond_in_ring /
               Smarts.bond_ring_label and tied by correspondence; the statement is recognised and left out)
  tests      : `bond == <int>`, `<counter> == <int>`, `<counter> != <int>`, `(a := atoms[m]) == H`, `a != C` (H, C = the element
               classes of atomic number 1 and 6)"""
import ast
import os
import sys

sys.path.insert(0, os.path.dirname(__file__))
from coqfmt import *  # noqa
from gen_smarts import method

REL = 'chython/containers/molecule.py'
STATE = ['neighbors', 'heteroatoms', 'hybridization', 'explicit_hydrogens']
ELEMENT = {'H': 1, 'C': 6}


def err(node, what):
    raise TranslatorError(f'{REL}:{getattr(node, "lineno", "?")}: calc_labels: {what}: {ast.dump(node)[:160]}')


def tup():
    return '(' + ', '.join('v_' + n for n in STATE) + ')'


def int_const(e):
    if isinstance(e, ast.Constant) and type(e.value) is int:
        return f'({e.value})' if e.value < 0 else str(e.value)
    err(e, 'not an int literal')


class Tr:
    def __init__(self, bond, nbr, atoms):
        self.bond, self.nbr, self.atoms = bond, nbr, atoms
        self.elem_vars = set()
        self.dropped = []

    def test(self, t):
        if not (isinstance(t, ast.Compare) and len(t.ops) == 1 and isinstance(t.ops[0], (ast.Eq, ast.NotEq))):
            err(t, 'unsupported test')
        l, r = t.left, t.comparators[0]
        neg = isinstance(t.ops[0], ast.NotEq)
        def wrap(x):
            return f'negb ({x})' if neg else f'({x})'
        if isinstance(l, ast.NamedExpr):        # (a := atoms[m]) == H
            v = l.value
            if not (isinstance(v, ast.Subscript) and getattr(v.value, 'id', None) == self.atoms and getattr(v.slice, 'id', None) == self.nbr):
                err(t, 'unsupported := in a test')
            self.elem_vars.add(l.target.id)
            l = ast.Name(id=l.target.id, ctx=ast.Load())
        if isinstance(l, ast.Name) and l.id in self.elem_vars and isinstance(r, ast.Name) and r.id in ELEMENT:
            return wrap(f'num =? {ELEMENT[r.id]}')
        if isinstance(l, ast.Name) and l.id == self.bond:
            return wrap(f'ord =? {int_const(r)}')
        if isinstance(l, ast.Name) and l.id in STATE:
            return wrap(f'v_{l.id} =? {int_const(r)}')
        err(t, 'unsupported test')

    def block(self, stmts, k):
        """k: text of what follows (a tuple expression); returns a tuple-valued expression"""
        if not stmts:
            return k
        st, rest = stmts[0], stmts[1:]
        if isinstance(st, ast.Assign) and len(st.targets) == 1:
            tg = st.targets[0]
            if isinstance(tg, ast.Attribute) and getattr(tg.value, 'id', None) == self.bond and tg.attr == '_in_ring':
                self.dropped.append(st.lineno)
                return self.block(rest, k)
            if isinstance(tg, ast.Name) and tg.id in STATE:
                return f'let v_{tg.id} := {int_const(st.value)} in {self.block(rest, k)}'
            err(st, 'unsupported assignment')
        if isinstance(st, ast.AugAssign) and isinstance(st.op, ast.Add) and isinstance(st.target, ast.Name) and st.target.id in STATE:
            return f'let v_{st.target.id} := v_{st.target.id} + {int_const(st.value)} in {self.block(rest, k)}'
        if isinstance(st, ast.Continue):
            if rest:
                err(st, 'statement after continue')
            return tup()          # the loop goes on with the counters as they are
        if isinstance(st, ast.If):
            ends = lambda b: bool(b) and isinstance(b[-1], ast.Continue)
            c = self.test(st.test)
            if ends(st.body) or ends(st.orelse) or not rest:
                follow = self.block(rest, k)
                return f'(if {c} then {self.block(st.body, follow)}\n   else {self.block(st.orelse, follow)})'
            if any(isinstance(x, ast.Continue) for b in (st.body, st.orelse) for s_ in b for x in ast.walk(s_)):
                err(st, 'continue inside a nested if that is followed by other statements')
            return (f"let '{tup()} := (if {c} then {self.block(st.body, tup())}\n   else {self.block(st.orelse, tup())}) in\n  "
                    f'{self.block(rest, k)}')
        err(st, 'unsupported statement')


def main(repo='/repo', dest=None):
    path = os.path.join(repo, REL)
    try:
        tree = ast.parse(open(path).read())
    except (OSError, SyntaxError) as e:
        raise TranslatorError(f'{REL}: {e}')
    fn = method(tree, 'MoleculeContainer', 'calc_labels', REL)
    outer = [s_ for s_ in fn.body if isinstance(s_, ast.For)]
    if len(outer) != 1:
        raise TranslatorError(f'{REL}:{fn.lineno}: calc_labels: expected one loop over the atoms')
    outer = outer[0]
    inner = [s_ for s_ in outer.body if isinstance(s_, ast.For)]
    if len(inner) != 1 or inner[0].orelse or outer.orelse:
        raise TranslatorError(f'{REL}:{outer.lineno}: calc_labels: expected one loop over the bonds of an atom')
    inner = inner[0]
    tg = inner.target
    if not (isinstance(tg, ast.Tuple) and len(tg.elts) == 2 and all(isinstance(x, ast.Name) for x in tg.elts)):
        err(inner, 'unexpected loop target')
    nbr, bond = tg.elts[0].id, tg.elts[1].id
    atoms = None
    for s_ in fn.body:
        if (isinstance(s_, ast.Assign) and isinstance(s_.targets[0], ast.Name) and isinstance(s_.value, ast.Attribute)
                and getattr(s_.value.value, 'id', None) == 'self' and s_.value.attr == '_atoms'):
            atoms = s_.targets[0].id
    if atoms is None:
        raise TranslatorError(f'{REL}:{fn.lineno}: calc_labels: `atoms = self._atoms` not found')
    # the initialisations before the inner loop
    init = {}
    for s_ in outer.body[:outer.body.index(inner)]:
        if isinstance(s_, ast.Assign) and isinstance(s_.targets[0], ast.Name) and s_.targets[0].id in STATE:
            init[s_.targets[0].id] = int_const(s_.value)
        elif any(isinstance(x, ast.Name) and x.id in STATE for x in ast.walk(s_)):
            err(s_, 'a counter is used before the loop in an unsupported way')
    if set(init) != set(STATE):
        raise TranslatorError(f'{REL}:{outer.lineno}: calc_labels: counters initialised before the loop: {sorted(init)}')
    # what is stored after the loop: atom._<counter> = <counter>
    stored = []
    for s_ in outer.body[outer.body.index(inner) + 1:]:
        if isinstance(s_, ast.Assign) and isinstance(s_.targets[0], ast.Attribute) and isinstance(s_.value, ast.Name) and s_.value.id in STATE:
            stored.append((s_.targets[0].attr, s_.value.id))
        elif any(isinstance(x, ast.Name) and x.id in STATE for x in ast.walk(s_)):
            err(s_, 'a counter is used after the loop in an unsupported way')
    if sorted(stored) != sorted(('_' + n, n) for n in STATE):
        raise TranslatorError(f'{REL}:{outer.lineno}: calc_labels: counters stored after the loop: {stored}')
    tr = Tr(bond, nbr, atoms)
    body = tr.block(inner.body, tup())
    text = '\n'.join([
        '(* GENERATED by tools/gen_labels.py from chython/containers/molecule.py:MoleculeContainer.calc_labels. Do not edit. *)',
        'From Coq Require Import ZArith List Bool.',
        'Import ListNotations.',
        'Open Scope Z_scope.',
        '',
        f'(* the counters ({", ".join(STATE)}) before the loop over the bonds of an atom (lines {outer.lineno}-{inner.lineno}) *)',
        f'Definition g_label_init : Z * Z * Z * Z := ({", ".join(init[n] for n in STATE)}).',
        f'(* one pass of `for {nbr}, {bond} in ...` (lines {inner.lineno}-{inner.end_lineno}); mb = (atomic number of atoms[{nbr}], order of {bond});',
        f'   left out: the ring mark `{bond}._in_ring = ...` (lines {", ".join(map(str, tr.dropped))}) *)',
        'Definition g_label_step (st : Z * Z * Z * Z) (mb : Z * Z) : Z * Z * Z * Z :=',
        f"  let '{tup()} := st in",
        "  let '(num, ord) := mb in",
        f'  {body}.',
        ''])
    write_if_changed(dest or gen_path('LabelsBody.v'), text)


if __name__ == '__main__':
    main(*sys.argv[1:])
