"""Translator (C17): the BODIES of the fingerprint functions -> coq/gen/FingerprintBodies.v, statement by statement.

  chython/algorithms/fingerprints/linear.py   LinearFingerprint._chains          -> g_chains (+ g_chains_while, the `while queue:` loop)
                                              LinearFingerprint._fragments       -> g_fragments
                                              LinearFingerprint.linear_hash_set  -> g_linear_hash_set
                                              LinearFingerprint.linear_bit_set   -> g_linear_bit_set
  chython/algorithms/fingerprints/morgan.py   MorganFingerprint._morgan_hash_dict -> g_morgan_hash_dict
                                              MorganFingerprint.morgan_hash_set   -> g_morgan_hash_set
                                              MorganFingerprint.morgan_bit_set    -> g_morgan_bit_set
                                              MorganFingerprint.morgan_fingerprint -> g_morgan_fingerprint
  (linear.py)                                 LinearFingerprint.linear_fingerprint -> g_linear_fingerprint
  chython/algorithms/fingerprints/__init__.py Fingerprints._atom_identifiers      -> g_atom_identifiers
                                              FingerprintsCGR._atom_identifiers   -> g_cgr_atom_identifiers
  chython/containers/bonds.py                 DynamicBond.__hash__                -> g_dynbond_int   (DynamicBond.__int__ is checked to be
                                              `return hash(self)`, Bond.__int__ to be `return self.order`: the rule int(b) = b_ord b)
  chython/containers/graph.py                 Graph.atoms is checked to be `return iter(self._atoms.items())`

Every function body is translated from the Python `ast` of /repo's source on every run into a Gallina definition (docstrings are
skipped, nothing else).  proofs/FingerprintBodiesProofs.v proves each generated definition equal to the hand-written model of
Model.Fingerprint (C17_translated_*), so an edit of the source that changes behaviour either stops the translator or breaks a named theorem.

FAIL CLOSED: every statement / expression form outside the fragment below raises TranslatorError.
  statements : `x = e` (also `x: T` annotations without value), `x >>= e`, `assert c, msg`, `return e`, `if/elif/else` (the rest of the
               block is continued in both branches), `for T in e: body` (fold over the variables the body rebinds), `while q: body`
               (hoisted Fixpoint with fuel; the function then returns option), `x = q.popleft()`, `s.add(e)`, `l.append(e)`,
               `q.extend(e)`, `d[k].append(e)` on a defaultdict(list)
  expressions: int literals, names, tuples with `*` items (concatenation), one-element lists, `+ - & >>`, subscripts `[0] [-1] [::-1] [1:]
               [-(e):]`, `bonds[k]`, `bonds[x][y]`, `atoms[k]`, comparisons `== < > >=`, `not in`, `not <int>`, `a if c else b`, list / set /
               generator / dict comprehensions (one or two `for` clauses, optional `if`), `len min range hash int tuple dict deque set
               sorted zip`, `int(log2(e))`, `.items()`, `.values()`, `self.<method>(<the parameters it is given in the source>)`.
Python sets and deques are lists (a set = the sequence of its additions, compared as a set by the theorems), dicts are association lists in
insertion order; `hash` is the parameter h; math.log2 raises ValueError (math domain error) for an argument <= 0 and int(log2(n)) is
Z.log2 n (exact below 2^49 - 1); `assert` raises AssertionError = Err OtherError; `sorted` of (int, int) tuples is Model.Fingerprint.sort_pairs;
`l[-(n):]` is skipn (length l - n) l (n >= 1; Python's l[-0:] is the whole list: the translated occurrence is guarded by the asserts).
In the identifier functions `hash` of a tuple of ints / bools is Model.PyHash.tuple_hash_lanes over hash_int / hash_bool (the bit-exact model of
CPython's tuple hash), `x or 0` on an Optional[int] attribute is `match x with Some v => v | None => 0 end`.  numpy: `zeros(n, dtype=uint8)` is
np_zeros n (n entries 0), `v[list(bits)] = 1` is np_put_ones v bits (IndexError for an index outside [-len, len), negative indices wrap around)."""
import ast
import os
import sys

sys.path.insert(0, os.path.dirname(__file__))
from coqfmt import *  # noqa

RESERVED = {'rev', 'length', 'map', 'filter', 'hd', 'tl', 'last', 'keys', 'min', 'max', 'log', 'fst', 'snd', 'combine', 'skipn', 'ident',
            'h', 'g', 'fuel', 'e', 'nat', 'list', 'option', 'mask', 'atom', 'bond', 'mol', 'c', 'b', 'v', 'n', 'ix'}

# element types of iterables
ELT = {'path': 'Z', 'paths': 'path', 'pairs': 'pair', 'pair': 'Z', 'zdict_items': ('Z', 'Z'), 'frs_items': ('path', 'paths'),
       'nbr_items': ('Z', 'bond'), 'zip_zz': ('Z', 'Z'), 'dicts': 'zdict', 'zdict_values': 'Z',
       'atom_items': ('Z', 'atom'), 'catom_items': ('Z', 'catom'), 'enum_dicts': ('Z', 'zdict'), 'sdict_items': ('Z', 'strs'), 'strs': 'str'}
# list-of-X type names
LISTOF = {'Z': 'path', 'path': 'paths', 'pair': 'pairs', 'zdict': 'dicts', 'str': 'strs'}
OBJ_ATTRS = {'atom': {'isotope': ('a_iso', 'optZ'), 'atomic_number': ('a_num', 'Z'), 'charge': ('a_chg', 'Z'), 'is_radical': ('a_rad', 'bool')},
             'catom': {'isotope': ('ca_iso', 'optZ'), 'atomic_number': ('ca_num', 'Z'), 'charge': ('ca_chg', 'Z'), 'p_charge': ('ca_pchg', 'Z'),
                       'is_radical': ('ca_rad', 'bool'), 'p_is_radical': ('ca_prad', 'bool')}}
COQTY = {'Z': 'Z', 'path': 'list Z', 'paths': 'list (list Z)', 'frs': 'list (list Z * list (list Z))', 'zdict': 'list (Z * Z)',
         'dicts': 'list (list (Z * Z))', 'sdict': 'list (Z * list string)', 'strdict': 'list (string * list Z)'}


def cname(n):
    return n + '_v' if n in RESERVED else n


class Fn:
    """translator of one function body"""

    def __init__(self, path, fn, cfg):
        self.path, self.fn, self.cfg = path, fn, cfg
        self.mode = cfg['mode']               # 'plain' | 'option' | 'pyres'
        self.env = dict(cfg['params'])        # python name -> type
        self.calls = cfg.get('calls', {})     # self.<method> -> (coq parameter, type, raises, expected args)
        self.attrs = cfg.get('attrs', {})     # self.<attr> -> (coq text, type)
        self.hoisted = []
        self.bound_calls = {}                 # method -> coq name of its (unwrapped) value

    def err(self, node, what):
        raise TranslatorError(f'{self.path}:{getattr(node, "lineno", "?")}: {self.fn.name}: {what}: {ast.dump(node)[:200]}')

    # ------------------------------------------------------------------------------------------------ expressions
    def name(self, e):
        if e.id not in self.env:
            self.err(e, 'unknown name')
        return cname(e.id), self.env[e.id]

    def ex(self, e, want=None, hint=None):
        """-> coq text; checks the type when `want` is given"""
        t, ty = self.expr(e, hint)
        if want is not None and ty != want and not (isinstance(want, tuple) and ty in want):
            self.err(e, f'type {ty}, expected {want}')
        return t

    def is_int(self, e, v=None):
        return isinstance(e, ast.Constant) and type(e.value) is int and (v is None or e.value == v)

    def expr(self, e, hint=None):
        """-> (coq text, type)"""
        if self.is_int(e):
            return (f'({e.value})' if e.value < 0 else str(e.value)), 'Z'
        if isinstance(e, ast.Name):
            return self.name(e)
        if isinstance(e, ast.UnaryOp) and isinstance(e.op, ast.USub):
            return f'(- {self.ex(e.operand, "Z")})', 'Z'
        if isinstance(e, ast.UnaryOp) and isinstance(e.op, ast.Not):
            return f'({self.ex(e.operand, "Z")} =? 0)', 'bool'
        if isinstance(e, ast.Tuple):
            if hint == 'pair':
                if len(e.elts) != 2 or any(isinstance(x, ast.Starred) for x in e.elts):
                    self.err(e, 'pair expected')
                return f'({self.ex(e.elts[0], "Z")}, {self.ex(e.elts[1], "Z")})', 'pair'
            parts = []
            for x in e.elts:
                if isinstance(x, ast.Starred):
                    parts.append(self.ex(x.value, 'path'))
                else:
                    parts.append(f'[{self.ex(x, "Z")}]')
            if not parts:
                self.err(e, 'empty tuple')
            return '(' + ' ++ '.join(parts) + ')' if len(parts) > 1 else parts[0], 'path'
        if isinstance(e, ast.List):
            if len(e.elts) != 1:
                self.err(e, 'list literal')
            t, ty = self.expr(e.elts[0])
            if ty not in ('Z', 'str'):
                self.err(e, 'list literal')
            return f'[{t}]', LISTOF[ty]
        if isinstance(e, ast.BinOp):
            l, lt = self.expr(e.left)
            r, rt = self.expr(e.right)
            if isinstance(e.op, ast.Add) and lt == rt == 'path':
                return f'({l} ++ {r})', 'path'
            if lt == rt == 'Z':
                if isinstance(e.op, ast.Add):
                    return f'({l} + {r})', 'Z'
                if isinstance(e.op, ast.Sub):
                    return f'({l} - {r})', 'Z'
                if isinstance(e.op, ast.BitAnd):
                    return f'(Z.land {l} {r})', 'Z'
                if isinstance(e.op, ast.RShift):
                    return f'(Z.shiftr {l} {r})', 'Z'
            self.err(e, 'binary operator')
        if isinstance(e, ast.IfExp):
            c = self.ex(e.test, 'bool')
            a, at = self.expr(e.body)
            b, bt = self.expr(e.orelse)
            if at != bt:
                self.err(e, 'branches of different type')
            return f'(if {c} then {a} else {b})', at
        if isinstance(e, ast.Compare):
            if len(e.ops) != 1:
                self.err(e, 'chained comparison')
            op, l, r = e.ops[0], e.left, e.comparators[0]
            if isinstance(op, ast.NotIn):
                return f'(negb (zmem {self.ex(l, "Z")} {self.ex(r, "path")}))', 'bool'
            a, at = self.expr(l)
            b, bt = self.expr(r)
            if at == bt == 'Z':
                if isinstance(op, ast.Eq):
                    return f'({a} =? {b})', 'bool'
                if isinstance(op, ast.Lt):
                    return f'({a} <? {b})', 'bool'
                if isinstance(op, ast.Gt):
                    return f'({b} <? {a})', 'bool'
                if isinstance(op, ast.GtE):
                    return f'({b} <=? {a})', 'bool'
            if at == bt == 'path' and isinstance(op, ast.Gt):
                return f'(tuple_gtb {a} {b})', 'bool'
            self.err(e, 'comparison')
        if isinstance(e, ast.Subscript):
            return self.subscript(e)
        if isinstance(e, ast.Call):
            return self.call(e, hint)
        if isinstance(e, (ast.ListComp, ast.SetComp, ast.GeneratorExp)):
            return self.comp(e, e.elt, hint)
        if isinstance(e, ast.DictComp):
            if not isinstance(e.key, ast.Name):
                self.err(e, 'dict comprehension key')
            return self.comp(e, None, None)
        if isinstance(e, ast.Attribute) and isinstance(e.value, ast.Name) and e.value.id == 'self':
            if e.attr in self.attrs:
                return self.attrs[e.attr]
            self.err(e, 'attribute of self')
        if isinstance(e, ast.Attribute) and isinstance(e.value, ast.Name) and self.env.get(e.value.id) in OBJ_ATTRS:
            table = OBJ_ATTRS[self.env[e.value.id]]
            if e.attr in table:
                return f'({table[e.attr][0]} {cname(e.value.id)})', table[e.attr][1]
            self.err(e, 'attribute of an atom')
        if isinstance(e, ast.BoolOp) and isinstance(e.op, ast.Or) and len(e.values) == 2 and self.is_int(e.values[1], 0):
            return f'(match {self.ex(e.values[0], "optZ")} with Some v => v | None => 0 end)', 'Z'
        self.err(e, 'expression')

    def subscript(self, e):
        v, sl = e.value, e.slice
        if isinstance(sl, ast.Slice):
            a, ty = self.expr(v)
            if ty not in ('path', 'paths', 'dicts'):
                self.err(e, 'slice of a non-sequence')
            if sl.lower is None and sl.upper is None and isinstance(sl.step, ast.UnaryOp) and isinstance(sl.step.op, ast.USub) \
                    and self.is_int(sl.step.operand, 1):
                return f'(rev {a})', ty
            if sl.upper is None and sl.step is None and self.is_int(sl.lower, 1):
                return f'(tl {a})', ty
            if sl.upper is None and sl.step is None and isinstance(sl.lower, ast.UnaryOp) and isinstance(sl.lower.op, ast.USub) \
                    and not self.is_int(sl.lower.operand):
                n = self.ex(sl.lower.operand, 'Z')
                return f'(skipn (List.length {a} - Z.to_nat {n}) {a})', ty
            self.err(e, 'slice')
        # bonds[x][y]
        if isinstance(v, ast.Subscript):
            inner, ity = self.expr(v)
            if ity == 'nbrd':
                self.err(e, 'bonds[x][y] outside int(...)')
        a, ty = self.expr(v)
        if ty == 'bondsd':
            return f'(nbrs g {self.ex(sl, "Z")})', 'nbrd'
        if ty == 'zdict':
            return f'(ident {a} {self.ex(sl, "Z")})', 'Z'
        if isinstance(sl, ast.UnaryOp) and isinstance(sl.op, ast.USub) and self.is_int(sl.operand, 1) and ty == 'path':
            return f'(last {a} 0)', 'Z'
        if self.is_int(sl, 0) and ty == 'path':
            return f'(hd 0 {a})', 'Z'
        if self.is_int(sl, 0) and ty == 'paths':
            return f'(hd [] {a})', 'path'
        self.err(e, 'subscript')

    def iterable(self, e):
        """-> (coq list text, element type) of `for ... in e`"""
        if isinstance(e, ast.Subscript) and not isinstance(e.slice, ast.Slice):
            a, ty = self.expr(e.value)
            if ty == 'bondsd':                                    # iterating a neighbour dict = its keys
                return f'(nbr_ids g {self.ex(e.slice, "Z")})', 'Z'
        t, ty = self.expr(e)
        if ty == 'atomsd':
            return '(ids g)', 'Z'
        if ty == 'pair':
            return f'[fst {t}; snd {t}]', 'Z'
        if ty == 'zdict':
            return f'(keys {t})', 'Z'
        if ty in ELT:
            return t, ELT[ty]
        self.err(e, f'not iterable: {ty}')

    def bind(self, target, ety):
        """pattern text of a loop target; extends env"""
        if isinstance(target, ast.Name):
            if isinstance(ety, tuple):
                self.err(target, 'tuple element bound to one name')
            self.env[target.id] = ety
            return '_' if target.id == '_' else cname(target.id)
        if isinstance(target, ast.Tuple) and isinstance(ety, tuple) and len(target.elts) == len(ety) \
                and all(isinstance(x, ast.Name) for x in target.elts):
            for x, t in zip(target.elts, ety):
                self.env[x.id] = t
            return "'(" + ', '.join(cname(x.id) for x in target.elts) + ')'
        self.err(target, 'loop target')

    def comp(self, e, elt, hint):
        gens = e.generators
        if len(gens) not in (1, 2) or any(g.is_async for g in gens):
            self.err(e, 'comprehension clauses')
        saved = dict(self.env)
        try:
            heads = []
            for g in gens:
                it, ety = self.iterable(g.iter)
                pat = self.bind(g.target, ety)
                if len(g.ifs) > 1:
                    self.err(e, 'several ifs')
                if g.ifs:
                    it = f'(filter (fun {pat} => {self.ex(g.ifs[0], "bool")}) {it})'
                heads.append((pat, it))
            if elt is None:                                       # dict comprehension {k: v ...}
                k = self.ex(e.key, 'Z')
                v, vty = self.expr(e.value)
                if vty not in ('Z', 'strs'):
                    self.err(e, f'dict comprehension value of type {vty}')
                body, bty, rty = f'({k}, {v})', 'pair', ('zdict' if vty == 'Z' else 'sdict')
            else:
                body, bty = self.expr(elt, hint)
                if bty not in LISTOF:
                    self.err(e, f'comprehension of {bty}')
                rty = LISTOF[bty]
        finally:
            self.env = saved
        if len(heads) == 1:
            return f'(map (fun {heads[0][0]} => {body}) {heads[0][1]})', rty
        return f'(flat_map (fun {heads[0][0]} => map (fun {heads[1][0]} => {body}) {heads[1][1]}) {heads[0][1]})', rty

    def selfcall(self, e):
        m = e.func.attr
        if m in ('_format_atom', '_format_bond') and self.cfg.get('spell'):
            # self._format_atom(n, None, stereo=False) / self._format_bond(n, m, None, stereo=False, aromatic=False): parameters fa / fb
            k = 1 if m == '_format_atom' else 2
            kw = [(x.arg, ast.unparse(x.value)) for x in e.keywords]
            if len(e.args) != k + 1 or ast.unparse(e.args[k]) != 'None' or kw != [('stereo', 'False')] + ([('aromatic', 'False')] if k == 2 else []):
                self.err(e, f'{m} is expected to be called with (..., None, stereo=False{", aromatic=False" if k == 2 else ""})')
            return '(' + ('fa' if k == 1 else 'fb') + ' ' + ' '.join(self.ex(x, 'Z') for x in e.args[:k]) + ')', 'str'
        if m not in self.calls:
            self.err(e, 'call of an unknown method of self')
        par, ty, raises, args = self.calls[m]
        if [ast.unparse(a) for a in e.args] != args or e.keywords:
            self.err(e, f'{m} is expected to be called with ({", ".join(args)})')
        if raises:
            if m not in self.bound_calls:
                self.err(e, f'call of {m} (may raise) in an unsupported position')
            return self.bound_calls[m], ty
        return par, ty

    def call(self, e, hint):
        f = e.func
        if isinstance(f, ast.Attribute) and isinstance(f.value, ast.Name) and f.value.id == 'self':
            return self.selfcall(e)
        if isinstance(f, ast.Attribute) and f.attr == 'join' and isinstance(f.value, ast.Constant) and f.value.value == '' and len(e.args) == 1 \
                and not e.keywords:
            return f'(String.concat EmptyString {self.ex(e.args[0], "strs")})', 'str'
        if isinstance(f, ast.Attribute) and f.attr in ('items', 'values') and not e.args and not e.keywords:
            a, ty = self.expr(f.value)
            if f.attr == 'items' and ty in ('zdict', 'frs', 'nbrd', 'catomsd', 'sdict'):
                return a, {'zdict': 'zdict_items', 'frs': 'frs_items', 'nbrd': 'nbr_items', 'catomsd': 'catom_items', 'sdict': 'sdict_items'}[ty]
            if f.attr == 'values' and ty == 'zdict':
                return f'(map snd {a})', 'path'
            self.err(e, f'.{f.attr}() of {ty}')
        if not isinstance(f, ast.Name) or e.keywords:
            self.err(e, 'call')
        n, a = f.id, e.args
        if n == 'len' and len(a) == 1:
            t, ty = self.expr(a[0])
            if ty not in ('path', 'paths'):
                self.err(e, 'len')
            return f'(len_z {t})', 'Z'
        if n == 'min' and len(a) == 2:
            return f'(Z.min {self.ex(a[0], "Z")} {self.ex(a[1], "Z")})', 'Z'
        if n == 'range' and len(a) == 1:
            return f'(zrange 0 {self.ex(a[0], "Z")})', 'path'
        if n == 'range' and len(a) == 2:
            return f'(zrange {self.ex(a[0], "Z")} {self.ex(a[1], "Z")})', 'path'
        if n == 'hash' and len(a) == 1 and self.cfg.get('concrete_hash'):
            if not isinstance(a[0], ast.Tuple) or not a[0].elts:
                self.err(e, 'hash of something else than a tuple display')
            lanes = []
            for x in a[0].elts:
                t, ty = self.expr(x)
                if ty not in ('Z', 'bool'):
                    self.err(x, f'hashed item of type {ty}')
                lanes.append(f'hash_{"int" if ty == "Z" else "bool"} {t}')
            return f'(tuple_hash_lanes [{"; ".join(lanes)}])', 'Z'
        if n == 'hash' and len(a) == 1:
            return f'(h {self.ex(a[0], "path")})', 'Z'
        if n == 'int' and len(a) == 1:
            x = a[0]
            if isinstance(x, ast.Call) and isinstance(x.func, ast.Name) and x.func.id == 'log2':
                self.err(e, 'int(log2(...)) outside `name = int(log2(name))`')
            if isinstance(x, ast.Subscript) and isinstance(x.value, ast.Subscript) and not isinstance(x.slice, ast.Slice):
                inner, ity = self.expr(x.value.value)
                if ity == 'bondsd':                                # int(bonds[x][y])
                    return f'(bond_order g {self.ex(x.value.slice, "Z")} {self.ex(x.slice, "Z")})', 'Z'
            t, ty = self.expr(x)
            if ty == 'bond':
                return f'(b_ord {t})', 'Z'
            self.err(e, 'int()')
        if n in ('tuple', 'deque') and len(a) == 1:
            t, ty = self.expr(a[0])
            if ty not in ('path', 'paths'):
                self.err(e, n)
            return t, ty
        if n == 'dict' and len(a) == 1:
            t, ty = self.expr(a[0])
            if ty not in ('frs', 'strdict'):
                self.err(e, 'dict()')
            return t, ty
        if n == 'set' and not a and hint in ('paths', 'path'):
            return '[]', hint
        if n == 'defaultdict' and len(a) == 1 and isinstance(a[0], ast.Name) and a[0].id in ('list', 'set'):
            ty = self.cfg.get('ddict', 'frs')
            if (a[0].id == 'set') != (ty == 'sdict'):
                self.err(e, 'defaultdict')
            return '[]', ty
        if n == 'sorted' and len(a) == 1 and isinstance(a[0], ast.Name) and self.env.get(a[0].id) == 'strs':
            return cname(a[0].id), 'strs'                        # sorted(<set of str>): the set itself (values are compared as sets)
        if n == 'enumerate' and len(a) == 2:
            t, ty = self.expr(a[0])
            if ty != 'dicts':
                self.err(e, 'enumerate')
            return f'(combine (zrange_from {self.ex(a[1], "Z")} (List.length {t})) {t})', 'enum_dicts'
        if n == 'format' and len(a) == 2:
            c = a[0]
            if (isinstance(a[1], ast.Constant) and a[1].value == 'A' and isinstance(c, ast.Call) and isinstance(c.func, ast.Attribute)
                    and isinstance(c.func.value, ast.Name) and c.func.value.id == 'self' and c.func.attr == 'augmented_substructure'
                    and len(c.args) == 1 and isinstance(c.args[0], ast.Tuple) and len(c.args[0].elts) == 1
                    and [k.arg for k in c.keywords] == ['deep'] and self.cfg.get('cs')):
                return f'(cs g (ball g {self.ex(c.args[0].elts[0], "Z")} (Z.to_nat {self.ex(c.keywords[0].value, "Z")})))', 'str'
            self.err(e, 'format')
        if n == 'sorted' and len(a) == 1 and isinstance(a[0], ast.GeneratorExp):
            t, ty = self.expr(a[0], 'pair')
            if ty != 'pairs':
                self.err(e, 'sorted of something else than (int, int) tuples')
            return f'(sort_pairs {t})', 'pairs'
        if n == 'zip' and len(a) == 2:
            return f'(combine {self.ex(a[0], "path")} {self.ex(a[1], "path")})', 'zip_zz'
        self.err(e, 'call')

    # ------------------------------------------------------------------------------------------------ statements
    def ret(self, text):
        return {'plain': text, 'option': f'Some {text}', 'pyres': f'Ok {text}'}[self.mode]

    def assigned(self, stmts):
        """names (re)bound by the statements"""
        out = []

        def add(n):
            if n not in out:
                out.append(n)
        for s in stmts:
            for n in ast.walk(s):
                if isinstance(n, ast.Assign):
                    for t in n.targets:
                        if isinstance(t, ast.Name):
                            add(t.id)
                elif isinstance(n, ast.AugAssign) and isinstance(n.target, ast.Name):
                    add(n.target.id)
                elif isinstance(n, ast.Expr) and isinstance(n.value, ast.Call) and isinstance(n.value.func, ast.Attribute):
                    r = n.value.func.value
                    if isinstance(r, ast.Subscript):
                        r = r.value
                    if isinstance(r, ast.Name):
                        add(r.id)
                elif isinstance(n, ast.Call) and isinstance(n.func, ast.Attribute) and n.func.attr == 'popleft' and isinstance(n.func.value, ast.Name):
                    add(n.func.value.id)
        return out

    def state(self, body):
        st = [n for n in self.assigned(body) if n in self.env]
        if not st:
            self.err(body[0], 'loop without effect')
        return st

    @staticmethod
    def tup(names):
        return cname(names[0]) if len(names) == 1 else '(' + ', '.join(cname(n) for n in names) + ')'

    @staticmethod
    def pat(names):
        return cname(names[0]) if len(names) == 1 else "'(" + ', '.join(cname(n) for n in names) + ')'

    def raising_calls(self, e):
        out = []
        for n in ast.walk(e):
            if isinstance(n, ast.Call) and isinstance(n.func, ast.Attribute) and isinstance(n.func.value, ast.Name) and n.func.value.id == 'self' \
                    and n.func.attr in self.calls and self.calls[n.func.attr][2]:
                out.append(n.func.attr)
        return out

    def block(self, stmts, ind, final):
        """Coq expression for: run stmts, then `final` (None: the block has to end in return)"""
        pad = '  ' * ind
        if not stmts:
            if final is None:
                self.err(self.fn, 'a path through the function does not end in return')
            return pad + final
        s, rest = stmts[0], stmts[1:]
        if isinstance(s, ast.Expr) and isinstance(s.value, ast.Constant) and isinstance(s.value.value, str):
            return self.block(rest, ind, final)                                   # docstring
        if isinstance(s, ast.AnnAssign) and s.value is None and isinstance(s.target, ast.Name):
            return self.block(rest, ind, final)                                   # `queue: Deque[...]  # typing`
        head = s.iter if isinstance(s, ast.For) else s.value if isinstance(s, (ast.Assign, ast.Return)) and s.value is not None else None
        if head is not None:
            for m in self.raising_calls(head):
                if m not in self.bound_calls:
                    if self.mode != 'pyres':
                        self.err(s, 'raising call in a function that cannot raise')
                    par = self.calls[m][0]
                    self.bound_calls[m] = par + '_ok'
                    try:
                        inner = self.block(stmts, ind + 1, final)
                    finally:
                        del self.bound_calls[m]
                    return f'{pad}match {par} with\n{pad}| Err e => Err e\n{pad}| Ok {par}_ok =>\n{inner}\n{pad}end'
        if isinstance(s, ast.Return):
            if s.value is None or final is not None:
                self.err(s, 'return')
            t, ty = self.expr(s.value)
            if ty != self.cfg['ret']:
                self.err(s, f'returns {ty}, expected {self.cfg["ret"]}')
            return pad + self.ret(t)
        if isinstance(s, ast.Assert):
            if self.mode != 'pyres':
                self.err(s, 'assert in a function that cannot raise')
            return f'{pad}if {self.ex(s.test, "bool")} then\n{self.block(rest, ind, final)}\n{pad}else Err OtherError'
        if isinstance(s, ast.Assign) and len(s.targets) == 1 and isinstance(s.targets[0], ast.Subscript):
            # fingerprints[list(bits)] = 1
            t = s.targets[0]
            if not (isinstance(t.value, ast.Name) and self.env.get(t.value.id) == 'vec' and self.is_int(s.value, 1) and isinstance(t.slice, ast.Call)
                    and isinstance(t.slice.func, ast.Name) and t.slice.func.id == 'list' and len(t.slice.args) == 1 and not t.slice.keywords
                    and self.mode == 'pyres'):
                self.err(s, 'subscript assignment')
            v = cname(t.value.id)
            return (f'{pad}match np_put_ones {v} {self.ex(t.slice.args[0], "path")} with\n{pad}| Err e => Err e\n{pad}| Ok {v} =>\n'
                    + self.block(rest, ind + 1, final) + f'\n{pad}end')
        if isinstance(s, ast.Assign):
            if len(s.targets) != 1 or not isinstance(s.targets[0], ast.Name):
                self.err(s, 'assignment target')
            n = s.targets[0].id
            v = s.value
            # x = q.popleft()
            if isinstance(v, ast.Call) and isinstance(v.func, ast.Attribute) and v.func.attr == 'popleft' and not v.args \
                    and isinstance(v.func.value, ast.Name) and self.env.get(v.func.value.id) == 'paths':
                q = cname(v.func.value.id)
                self.env[n] = 'path'
                return f'{pad}let {cname(n)} := hd [] {q} in\n{pad}let {q} := tl {q} in\n' + self.block(rest, ind, final)
            # log = int(log2(length)): ValueError for length <= 0
            if isinstance(v, ast.Call) and isinstance(v.func, ast.Name) and v.func.id == 'int' and len(v.args) == 1 \
                    and isinstance(v.args[0], ast.Call) and isinstance(v.args[0].func, ast.Name) and v.args[0].func.id == 'log2' \
                    and len(v.args[0].args) == 1:
                if self.mode != 'pyres':
                    self.err(s, 'log2 in a function that cannot raise')
                a = self.ex(v.args[0].args[0], 'Z')
                self.env[n] = 'Z'
                return f'{pad}if {a} <=? 0 then Err ValueError else\n{pad}let {cname(n)} := Z.log2 {a} in\n' + self.block(rest, ind, final)
            # fingerprints = zeros(length, dtype=uint8)
            if isinstance(v, ast.Call) and isinstance(v.func, ast.Name) and v.func.id == 'zeros':
                if len(v.args) != 1 or [(k.arg, ast.unparse(k.value)) for k in v.keywords] != [('dtype', 'uint8')]:
                    self.err(s, 'zeros(...)')
                self.env[n] = 'vec'
                return f'{pad}let {cname(n)} := np_zeros {self.ex(v.args[0], "Z")} in\n' + self.block(rest, ind, final)
            hint = None
            if isinstance(v, ast.Call) and isinstance(v.func, ast.Name) and v.func.id == 'set' and not v.args:
                hint = self.cfg.get('sets', {}).get(n)
                if hint is None:
                    self.err(s, 'set() of unknown element type')
            if isinstance(v, ast.List) and len(v.elts) == 1:                      # out = [identifiers]
                t0, ty0 = self.expr(v.elts[0])
                if ty0 == 'zdict':
                    self.env[n] = 'dicts'
                    return f'{pad}let {cname(n)} := [{t0}] in\n' + self.block(rest, ind, final)
            t, ty = self.expr(v, hint)
            self.env[n] = ty
            if ty in ('atomsd', 'bondsd'):                                        # atoms = self._atoms: symbolic (the molecule g)
                return self.block(rest, ind, final)
            return f'{pad}let {cname(n)} := {t} in\n' + self.block(rest, ind, final)
        if isinstance(s, ast.AugAssign) and isinstance(s.target, ast.Name) and isinstance(s.op, ast.RShift) and self.env.get(s.target.id) == 'Z':
            n = cname(s.target.id)
            return f'{pad}let {n} := Z.shiftr {n} {self.ex(s.value, "Z")} in\n' + self.block(rest, ind, final)
        if isinstance(s, ast.Expr) and isinstance(s.value, ast.Call) and isinstance(s.value.func, ast.Attribute) and len(s.value.args) == 1 \
                and not s.value.keywords:
            f, arg = s.value.func, s.value.args[0]
            if isinstance(f.value, ast.Name):
                n, ty = self.name(f.value)
                if f.attr in ('add', 'append') and ty in ('path', 'paths', 'dicts', 'strs'):
                    want = {'path': 'Z', 'paths': 'path', 'dicts': 'zdict', 'strs': 'str'}[ty]
                    return f'{pad}let {n} := {n} ++ [{self.ex(arg, want)}] in\n' + self.block(rest, ind, final)
                if f.attr == 'extend' and ty == 'paths':
                    return f'{pad}let {n} := {n} ++ {self.ex(arg, "paths")} in\n' + self.block(rest, ind, final)
            if isinstance(f.value, ast.Subscript) and isinstance(f.value.value, ast.Name) and f.attr == 'add' \
                    and self.env.get(f.value.value.id) == 'sdict':                # d[k].add(s), d = defaultdict(set)
                n = cname(f.value.value.id)
                return f'{pad}let {n} := sdict_add {n} {self.ex(f.value.slice, "Z")} {self.ex(arg, "str")} in\n' + self.block(rest, ind, final)
            if isinstance(f.value, ast.Subscript) and isinstance(f.value.value, ast.Name) and f.attr == 'append' \
                    and self.env.get(f.value.value.id) == 'strdict':              # d[s].append(k), d = defaultdict(list) with str keys
                n = cname(f.value.value.id)
                return f'{pad}let {n} := strdict_append {n} {self.ex(f.value.slice, "str")} {self.ex(arg, "Z")} in\n' + self.block(rest, ind, final)
            if isinstance(f.value, ast.Subscript) and isinstance(f.value.value, ast.Name) and f.attr == 'append' \
                    and self.env.get(f.value.value.id) == 'frs':                  # out[k].append(v), out = defaultdict(list)
                n = cname(f.value.value.id)
                return f'{pad}let {n} := dict_append {n} {self.ex(f.value.slice, "path")} {self.ex(arg, "path")} in\n' + self.block(rest, ind, final)
            self.err(s, 'method call statement')
        if isinstance(s, ast.If):
            t, ty = self.expr(s.test)
            if ty in ('paths', 'path'):
                c = f'negb (len_z {t} =? 0)'
            elif ty == 'bool':
                c = t
            else:
                self.err(s, 'if test')
            saved = dict(self.env)
            a = self.block(s.body + rest, ind + 1, final)
            self.env = dict(saved)
            b = self.block(s.orelse + rest, ind + 1, final)
            self.env = saved
            return f'{pad}if {c} then\n{a}\n{pad}else\n{b}'
        if isinstance(s, ast.For) and not s.orelse:
            it, ety = self.iterable(s.iter)
            st = self.state(s.body)
            saved = dict(self.env)
            pat = self.bind(s.target, ety)
            body = self.block(s.body, ind + 2, self.tup(st))
            self.env = saved
            return (f'{pad}let {self.pat(st)} :=\n{pad}  fold_left (fun {self.pat(st)} {pat} =>\n{body})\n{pad}    {it} {self.tup(st)} in\n'
                    + self.block(rest, ind, final))
        if isinstance(s, ast.While) and not s.orelse:
            if self.mode != 'option' or not isinstance(s.test, ast.Name) or self.env.get(s.test.id) != 'paths':
                self.err(s, 'while')
            st = self.state(s.body)
            if s.test.id not in st:
                self.err(s, 'the loop does not change its condition')
            saved = dict(self.env)
            saved_mode = self.mode
            nm = self.cfg['gname'] + '_while'
            inner_final = f'{nm} fuel g {self.cfg["argnames"]} {self.tup(st)}'
            body = self.block(s.body, 3, inner_final)
            self.env, self.mode = saved, saved_mode
            styp = ' * '.join(COQTY[self.env[n]] for n in st)
            text = (
                f'(* line {s.lineno}: `while {s.test.id}:`; fuel = number of iterations allowed + 1, None = out of fuel *)\n'
                f'Fixpoint {nm} (fuel : nat) (g : mol) {self.cfg["sig"]} (st : {styp}) : option ({styp}) :=\n'
                f'  match fuel with\n  | O => None\n  | S fuel =>\n    let {self.pat(st)} := st in\n'
                f'    if negb (len_z {cname(s.test.id)} =? 0) then\n{body}\n    else Some st\n  end.')
            if text not in self.hoisted:                                         # the rest of a block is continued in both branches of an if
                self.hoisted.append(text)
            return (f'{pad}match {nm} fuel g {self.cfg["argnames"]} {self.tup(st)} with\n{pad}| None => None\n{pad}| Some {self.pat(st).lstrip(chr(39))} =>\n'
                    + self.block(rest, ind + 1, final) + f'\n{pad}end')
        self.err(s, 'statement')

    def run(self):
        args = [a.arg for a in self.fn.args.args]
        if args != ['self'] + [p for p, _ in self.cfg['params']] or self.fn.args.vararg or self.fn.args.kwarg or self.fn.args.kwonlyargs:
            self.err(self.fn, f'parameters changed: {args}')
        defaults = [ast.unparse(d) for d in self.fn.args.defaults]
        if defaults != self.cfg['defaults']:
            self.err(self.fn, f'default values changed: {defaults}')
        body = self.block(self.fn.body, 1, None)
        return body


def find_class_func(tree, cls, name, path, decorators=()):
    for c in tree.body:
        if isinstance(c, ast.ClassDef) and c.name == cls:
            fs = [f for f in c.body if isinstance(f, ast.FunctionDef) and f.name == name]
            if len(fs) == 1:
                if [ast.unparse(d) for d in fs[0].decorator_list] != list(decorators):
                    raise TranslatorError(f'{path}: {cls}.{name}: unexpected decorators')
                return fs[0]
    raise TranslatorError(f'{path}: {cls}.{name} not found (or defined twice)')


FP = 'chython/algorithms/fingerprints/'
RADII = [('min_radius', 'Z'), ('max_radius', 'Z')]
RSIG, RARGS = '(min_radius max_radius : Z)', 'min_radius max_radius'
SELF_G = {'_atoms': ('g', 'atomsd'), '_bonds': ('g', 'bondsd')}

FUNCS = [
    dict(file=FP + 'linear.py', cls='LinearFingerprint', name='_chains', gname='g_chains', mode='option', ret='paths',
         params=RADII, defaults=['1', '4'], sig=RSIG, argnames=RARGS, attrs=SELF_G, sets={'arr': 'paths'},
         head='(fuel : nat) (g : mol) (min_radius max_radius : Z) : option (list (list Z))',
         doc='_chains: the value is the sequence of arr.add(...) arguments (a Python set: compared as a set)'),
    dict(file=FP + 'linear.py', cls='LinearFingerprint', name='_fragments', gname='g_fragments', mode='plain', ret='frs',
         params=RADII, defaults=['1', '4'], attrs=dict(SELF_G, _atom_identifiers=('self_atom_identifiers', 'zdict')),
         calls={'_chains': ('self_chains', 'paths', False, ['min_radius', 'max_radius'])},
         head='(g : mol) (self_atom_identifiers : list (Z * Z)) (self_chains : list (list Z)) (min_radius max_radius : Z) : list (list Z * list (list Z))',
         doc='_fragments over the identifier dictionary and the iteration sequence of self._chains(min_radius, max_radius)'),
    dict(file=FP + 'linear.py', cls='LinearFingerprint', name='linear_hash_set', gname='g_linear_hash_set', mode='plain', ret='path',
         params=RADII + [('number_bit_pairs', 'Z')], defaults=['1', '4', '4'],
         calls={'_fragments': ('self_fragments', 'frs', False, ['min_radius', 'max_radius'])},
         head='(h : list Z -> Z) (self_fragments : list (list Z * list (list Z))) (min_radius max_radius number_bit_pairs : Z) : list Z',
         doc='linear_hash_set over the dictionary returned by self._fragments(min_radius, max_radius)'),
    dict(file=FP + 'linear.py', cls='LinearFingerprint', name='linear_bit_set', gname='g_linear_bit_set', mode='pyres', ret='path',
         params=RADII + [('length', 'Z'), ('number_active_bits', 'Z'), ('number_bit_pairs', 'Z')], defaults=['1', '4', '1024', '2', '4'],
         calls={'linear_hash_set': ('self_linear_hash_set', 'path', False, ['min_radius', 'max_radius', 'number_bit_pairs'])},
         sets={'active_bits': 'path'},
         head='(self_linear_hash_set : list Z) (min_radius max_radius length_v number_active_bits number_bit_pairs : Z) : pyres (list Z)',
         doc='linear_bit_set over the iteration sequence of self.linear_hash_set(min_radius, max_radius, number_bit_pairs)'),
    dict(file=FP + 'morgan.py', cls='MorganFingerprint', name='_morgan_hash_dict', gname='g_morgan_hash_dict', mode='pyres', ret='dicts',
         params=RADII, defaults=['1', '4'], attrs=dict(SELF_G, _atom_identifiers=('self_atom_identifiers', 'zdict')),
         head='(h : list Z -> Z) (g : mol) (self_atom_identifiers : list (Z * Z)) (min_radius max_radius : Z) : pyres (list (list (Z * Z)))',
         doc='_morgan_hash_dict over the identifier dictionary'),
    dict(file=FP + 'morgan.py', cls='MorganFingerprint', name='morgan_hash_set', gname='g_morgan_hash_set', mode='pyres', ret='path',
         params=RADII, defaults=['1', '4'],
         calls={'_morgan_hash_dict': ('self_morgan_hash_dict', 'dicts', True, ['min_radius', 'max_radius'])},
         head='(self_morgan_hash_dict : pyres (list (list (Z * Z)))) (min_radius max_radius : Z) : pyres (list Z)',
         doc='morgan_hash_set over the result of self._morgan_hash_dict(min_radius, max_radius)'),
    dict(file=FP + 'morgan.py', cls='MorganFingerprint', name='morgan_bit_set', gname='g_morgan_bit_set', mode='pyres', ret='path',
         params=RADII + [('length', 'Z'), ('number_active_bits', 'Z')], defaults=['1', '4', '1024', '2'],
         calls={'morgan_hash_set': ('self_morgan_hash_set', 'path', True, ['min_radius', 'max_radius'])},
         sets={'active_bits': 'path'},
         head='(self_morgan_hash_set : pyres (list Z)) (min_radius max_radius length_v number_active_bits : Z) : pyres (list Z)',
         doc='morgan_bit_set over the result of self.morgan_hash_set(min_radius, max_radius), which is evaluated after log2(length)'),
    dict(file=FP + 'linear.py', cls='LinearFingerprint', name='linear_fingerprint', gname='g_linear_fingerprint', mode='pyres', ret='vec',
         params=RADII + [('length', 'Z'), ('number_active_bits', 'Z'), ('number_bit_pairs', 'Z')], defaults=['1', '4', '1024', '2', '4'],
         calls={'linear_bit_set': ('self_linear_bit_set', 'path', True,
                                   ['min_radius', 'max_radius', 'length', 'number_active_bits', 'number_bit_pairs'])},
         head='(self_linear_bit_set : pyres (list Z)) (min_radius max_radius length_v number_active_bits number_bit_pairs : Z) : pyres (list Z)',
         doc='linear_fingerprint over the result of self.linear_bit_set(...)'),
    dict(file=FP + 'morgan.py', cls='MorganFingerprint', name='morgan_fingerprint', gname='g_morgan_fingerprint', mode='pyres', ret='vec',
         params=RADII + [('length', 'Z'), ('number_active_bits', 'Z')], defaults=['1', '4', '1024', '2'],
         calls={'morgan_bit_set': ('self_morgan_bit_set', 'path', True, ['min_radius', 'max_radius', 'length', 'number_active_bits'])},
         head='(self_morgan_bit_set : pyres (list Z)) (min_radius max_radius length_v number_active_bits : Z) : pyres (list Z)',
         doc='morgan_fingerprint over the result of self.morgan_bit_set(...)'),
    dict(file=FP + 'morgan.py', cls='MorganFingerprint', name='morgan_hash_smiles', gname='g_morgan_hash_smiles', mode='pyres', ret='sdict',
         params=RADII, defaults=['1', '4'], ddict='sdict', cs=True,
         calls={'_morgan_hash_dict': ('self_morgan_hash_dict', 'dicts', True, ['min_radius', 'max_radius'])},
         head='(cs : mol -> list Z -> string) (g : mol) (self_morgan_hash_dict : pyres (list (list (Z * Z)))) (min_radius max_radius : Z) '
              ': pyres (list (Z * list string))',
         doc='morgan_hash_smiles over the result of self._morgan_hash_dict(...); format(self.augmented_substructure((a,), deep=r), "A") = '
             'cs g (ball g a r), the canonical string of the substructure on the atoms within r bonds (parameter cs, atom set Model.MorganSmiles.ball)'),
    dict(file=FP + 'morgan.py', cls='MorganFingerprint', name='morgan_smiles_hash', gname='g_morgan_smiles_hash', mode='pyres', ret='strdict',
         params=RADII, defaults=['1', '4'], ddict='strdict',
         calls={'morgan_hash_smiles': ('self_morgan_hash_smiles', 'sdict', True, ['min_radius', 'max_radius'])},
         head='(self_morgan_hash_smiles : pyres (list (Z * list string))) (min_radius max_radius : Z) : pyres (list (string * list Z))',
         doc='morgan_smiles_hash over the result of self.morgan_hash_smiles(...)'),
    dict(file=FP + 'linear.py', cls='LinearFingerprint', name='linear_hash_smiles', gname='g_linear_hash_smiles', mode='plain', ret='sdict',
         params=RADII + [('number_bit_pairs', 'Z')], defaults=['1', '4', '4'], ddict='sdict', spell=True,
         calls={'_fragments': ('self_fragments', 'frs', False, ['min_radius', 'max_radius'])},
         head='(fa : Z -> string) (fb : Z -> Z -> string) (h : list Z -> Z) (self_fragments : list (list Z * list (list Z))) '
              '(min_radius max_radius number_bit_pairs : Z) : list (Z * list string)',
         doc='linear_hash_smiles over the dictionary returned by self._fragments(...); fa n = self._format_atom(n, None, stereo=False), '
             'fb n m = self._format_bond(n, m, None, stereo=False, aromatic=False) (parameters; modelled by Model.LinearSpell)'),
    dict(file=FP + 'linear.py', cls='LinearFingerprint', name='linear_smiles_hash', gname='g_linear_smiles_hash', mode='plain', ret='strdict',
         params=RADII + [('number_bit_pairs', 'Z')], defaults=['1', '4', '4'], ddict='strdict',
         calls={'linear_hash_smiles': ('self_linear_hash_smiles', 'sdict', False, ['min_radius', 'max_radius', 'number_bit_pairs'])},
         head='(self_linear_hash_smiles : list (Z * list string)) (min_radius max_radius number_bit_pairs : Z) : list (string * list Z)',
         doc='linear_smiles_hash over the result of self.linear_hash_smiles(...)'),
    dict(file=FP + '__init__.py', cls='Fingerprints', name='_atom_identifiers', gname='g_atom_identifiers', mode='plain', ret='zdict',
         params=[], defaults=[], decorators=('property',), concrete_hash=True,
         calls={'atoms': ('(m_atoms g)', 'atom_items', False, [])},
         head='(g : mol) : list (Z * Z)', doc='Fingerprints._atom_identifiers; self.atoms() = the items of self._atoms'),
    dict(file=FP + '__init__.py', cls='FingerprintsCGR', name='_atom_identifiers', gname='g_cgr_atom_identifiers', mode='plain', ret='zdict',
         params=[], defaults=[], decorators=('property',), concrete_hash=True, attrs={'_atoms': ('(c_atoms c)', 'catomsd')},
         head='(c : cgr) : list (Z * Z)', doc='FingerprintsCGR._atom_identifiers'),
    dict(file='chython/containers/bonds.py', cls='DynamicBond', name='__hash__', gname='g_dynbond_int', mode='plain', ret='Z',
         params=[], defaults=[], concrete_hash=True, attrs={'order': ('(cb_ord b)', 'optZ'), 'p_order': ('(cb_pord b)', 'optZ')},
         head='(b : cbond) : Z', doc='int(DynamicBond) = DynamicBond.__hash__ (DynamicBond.__int__ is `return hash(self)`)'),
]

# one-line bodies the translation rules rely on: (file, class, function, decorators, body after the docstring)
FIXED_BODIES = [
    ('chython/containers/bonds.py', 'DynamicBond', '__int__', (), 'return hash(self)'),
    ('chython/containers/bonds.py', 'Bond', '__int__', (), 'return self.order'),                       # int(b) = b_ord b
    ('chython/containers/bonds.py', 'Bond', 'order', ('property',), 'return self._order'),
    ('chython/containers/bonds.py', 'DynamicBond', 'order', ('property',), 'return self._order'),
    ('chython/containers/bonds.py', 'DynamicBond', 'p_order', ('property',), 'return self._p_order'),
    ('chython/containers/graph.py', 'Graph', 'atoms', (), 'return iter(self._atoms.items())'),       # self.atoms() = items of _atoms
]

PRELUDE = '''(* GENERATED by tools/gen_fpbodies.py from chython/algorithms/fingerprints/linear.py and morgan.py. Do not edit.
   Statement-by-statement translation of the function bodies; vocabulary (zmem, nbr_ids, nbrs, ids, len_z, tuple_gtb, zrange, ident,
   bond_order, dict_append, sort_pairs) from Model.PyBase / Graph / Fingerprint. *)
From Coq Require Import ZArith List Bool String.
From Model Require Import PyBase Graph PyHash Fingerprint FingerprintCGR LinearSmiles MorganSmiles.
Import ListNotations.
Open Scope Z_scope.

(* numpy: zeros(n, dtype=uint8) and the assignment v[list(bits)] = 1 (an index outside [-len, len) is an IndexError raised before anything
   is stored; a negative index counts from the end) *)
Definition np_zeros (n : Z) : list Z := map (fun _ => 0) (zrange 0 n).
Definition np_put_ones (v : list Z) (idx : list Z) : pyres (list Z) :=
  let n := len_z v in
  if existsb (fun b => (b <? - n) || (n <=? b)) idx then Err IndexError
  else Ok (map (fun ix => if existsb (fun b => b mod n =? fst ix) idx then 1 else snd ix) (combine (zrange 0 n) v)).
'''


def check_imports(tree, path, wanted):
    """the names the translation rules give a fixed meaning to must be the library ones"""
    found = {}
    for n in tree.body:
        if isinstance(n, ast.ImportFrom):
            for a in n.names:
                found[a.asname or a.name] = n.module
    for k, mod in wanted.items():
        if found.get(k) != mod:
            raise TranslatorError(f'{path}: `{k}` is not imported from {mod}')
    for n in ast.walk(tree):
        if isinstance(n, (ast.FunctionDef, ast.ClassDef)) and n.name in wanted or \
                isinstance(n, ast.Assign) and any(isinstance(t, ast.Name) and t.id in wanted for t in n.targets):
            raise TranslatorError(f'{path}:{n.lineno}: a library name is redefined')


def body_text(fn):
    body = fn.body
    if body and isinstance(body[0], ast.Expr) and isinstance(body[0].value, ast.Constant) and isinstance(body[0].value.value, str):
        body = body[1:]
    return '\n'.join(ast.unparse(b) for b in body)


IMPORTS = {FP + 'linear.py': {'defaultdict': 'collections', 'deque': 'collections', 'log2': 'math', 'zeros': 'numpy', 'uint8': 'numpy'},
           FP + 'morgan.py': {'defaultdict': 'collections', 'log2': 'math', 'zeros': 'numpy', 'uint8': 'numpy'}}


def main(repo='/repo', dest=None):
    dest = dest or gen_path('FingerprintBodies.v')
    trees = {}

    def tree(rel):
        if rel not in trees:
            p = os.path.join(repo, rel)
            try:
                trees[rel] = ast.parse(open(p).read())
            except (OSError, SyntaxError) as e:
                raise TranslatorError(f'{p}: {e}')
            check_imports(trees[rel], p, IMPORTS.get(rel, {}))
        return trees[rel]
    for rel, cls, name, decorators, expected in FIXED_BODIES:
        fn = find_class_func(tree(rel), cls, name, rel, decorators)
        if body_text(fn) != expected or [a.arg for a in fn.args.args] != ['self']:
            raise TranslatorError(f'{rel}:{fn.lineno}: {cls}.{name} is expected to be `{expected}`')
    # the shared methods must not be overridden by the two classes that inherit them
    ini = tree(FP + '__init__.py')
    for c in ini.body:
        if isinstance(c, ast.ClassDef) and c.name in ('Fingerprints', 'FingerprintsCGR'):
            if [ast.unparse(b) for b in c.bases] != ['LinearFingerprint', 'MorganFingerprint']:
                raise TranslatorError(f'{FP}__init__.py:{c.lineno}: bases of {c.name} changed')
            extra = [f.name for f in c.body if isinstance(f, (ast.FunctionDef, ast.AsyncFunctionDef)) and f.name != '_atom_identifiers']
            if extra:
                raise TranslatorError(f'{FP}__init__.py:{c.lineno}: {c.name} defines {extra}')
    # every method of the two mixin classes is translated; nothing else may be defined there
    for rel, cls in ((FP + 'linear.py', 'LinearFingerprint'), (FP + 'morgan.py', 'MorganFingerprint')):
        c = [c for c in tree(rel).body if isinstance(c, ast.ClassDef) and c.name == cls]
        if len(c) != 1 or c[0].bases or c[0].decorator_list or c[0].keywords:
            raise TranslatorError(f'{rel}: class {cls} not found or has bases / decorators')
        defined = sorted(f.name for f in c[0].body if isinstance(f, (ast.FunctionDef, ast.AsyncFunctionDef)))
        expected = sorted([cfg['name'] for cfg in FUNCS if cfg['cls'] == cls] + ['_atom_identifiers'])
        if defined != expected:
            raise TranslatorError(f'{rel}: methods of {cls} changed: {defined}')
        stub = find_class_func(tree(rel), cls, '_atom_identifiers', rel, ('property',))
        if body_text(stub) != 'raise NotImplementedError':
            raise TranslatorError(f'{rel}:{stub.lineno}: {cls}._atom_identifiers is expected to be abstract')
    out = [PRELUDE]
    for cfg in FUNCS:
        p = os.path.join(repo, cfg['file'])
        fn = find_class_func(tree(cfg['file']), cfg['cls'], cfg['name'], p, cfg.get('decorators', ()))
        tr = Fn(p, fn, cfg)
        body = tr.run()
        out.extend(tr.hoisted)
        last = fn.body[-1]
        out.append(f'(* {cfg["cls"]}.{cfg["name"]}, {cfg["file"]} lines {fn.lineno}-{getattr(last, "end_lineno", last.lineno)}: {cfg["doc"]} *)\n'
                   f'Definition {cfg["gname"]} {cfg["head"]} :=\n{body}.\n')
    return write_if_changed(dest, '\n'.join(out))


if __name__ == '__main__':
    main(*sys.argv[1:])
