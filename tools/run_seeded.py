#!/usr/bin/env python3
"""Run the checks against the seeded breaking changes kept under /verif/seeded/<name>/ (patch.diff + meta.json).
Each patch is applied to a scratch copy of /repo (so /repo itself is never disturbed while other work uses it); the
property's check runs with VERIF_REPO pointing at the copy; the copy is removed afterwards.
usage: tools/run_seeded.py [name ...] [--tier quick|thorough]      results -> seeded/RESULTS.json"""
import json
import os
import shutil
import subprocess
import sys
import time

VERIF = os.path.dirname(os.path.dirname(os.path.abspath(__file__)))


def main(argv):
    tier = 'quick'
    names = []
    it = iter(argv)
    as_pid = None
    for a in it:
        if a == '--tier':
            tier = next(it)
        elif a == '--as':          # run another property's check against the seed (result recorded under 'also')
            as_pid = next(it)
        else:
            names.append(a)
    sd = os.path.join(VERIF, 'seeded')
    names = names or sorted(d for d in os.listdir(sd) if os.path.isdir(os.path.join(sd, d)) and not d.startswith('_'))
    res_path = os.path.join(sd, 'RESULTS.json')
    results = json.load(open(res_path)) if os.path.exists(res_path) else {}
    for name in names:
        d = os.path.join(sd, name)
        meta = json.load(open(os.path.join(d, 'meta.json')))
        pid = as_pid or meta['property']
        scratch = f'/tmp/repo_seed_{name}'
        shutil.rmtree(scratch, ignore_errors=True)
        subprocess.run(['rsync', '-a', '--exclude', '.git', '/repo/', scratch + '/'], check=True)
        p = subprocess.run(['patch', '-p1', '-s', '-i', os.path.join(d, 'patch.diff')], cwd=scratch, capture_output=True, text=True)
        if p.returncode:
            print(name, 'PATCH DOES NOT APPLY', p.stdout, p.stderr)
            results[name] = {'property': pid, 'applies': False}
            continue
        t0 = time.time()
        env = dict(os.environ, VERIF_REPO=scratch)
        r = subprocess.run([os.path.join(VERIF, 'check'), pid, '--' + tier], env=env, capture_output=True, text=True, timeout=3600)
        viol = [l for l in r.stdout.split('\n') if l.startswith('VIOLATION')]
        replay = None
        kind = None
        if viol:
            try:
                replay = viol[0].split('replay=')[1].split()[0]
                rj = json.load(open(replay))
                kind = rj.get('kind')
                what = rj.get('what') or (rj.get('no_longer_checks') or [{}])[0].get('name')
            except Exception:
                what = None
        rec = {'property': pid, 'applies': True, 'caught': bool(viol), 'exit': r.returncode, 'tier': tier,
               'violation_lines': viol[:3], 'kind': kind, 'what': what if viol else None, 'wall_s': round(time.time() - t0, 1)}
        if as_pid:
            prev = {}
            rp0 = os.path.join(d, 'result.json')
            if os.path.exists(rp0):
                prev = json.load(open(rp0))
            prev.setdefault('also', {})[as_pid] = rec
            results[name] = prev
        else:
            rp0 = os.path.join(d, 'result.json')
            if os.path.exists(rp0) and 'also' in json.load(open(rp0)):
                rec['also'] = json.load(open(rp0))['also']
            results[name] = rec
        print(name, pid, 'CAUGHT' if viol else 'MISSED', kind, (what or '')[:100] if viol else '', f'{time.time() - t0:.0f}s')
        shutil.rmtree(scratch, ignore_errors=True)
        import hashlib
        shutil.rmtree('/tmp/verif_coq_' + hashlib.blake2b(os.path.realpath(scratch).encode(), digest_size=5).hexdigest(), ignore_errors=True)
        with open(os.path.join(d, 'result.json'), 'w') as f:   # one file per seed: parallel runs do not overwrite each other
            json.dump(results[name], f, indent=1)
        merged = {}
        for n2 in sorted(os.listdir(sd)):
            rp = os.path.join(sd, n2, 'result.json')
            if os.path.exists(rp):
                merged[n2] = json.load(open(rp))
        with open(res_path, 'w') as f:
            json.dump(merged, f, indent=1)
    # restore evidence of the unchanged tree
    return 0


if __name__ == '__main__':
    sys.exit(main(sys.argv[1:]))
