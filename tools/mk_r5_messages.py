#!/usr/bin/env python3
"""usage: mk_r5_messages.py <deadline> -> prints JSON {pid: message} for properties whose wave-6 seeds are not all caught with a counterexample"""
import json, os, sys
V = os.path.dirname(os.path.dirname(os.path.abspath(__file__)))
deadline = sys.argv[1]
names = sorted(v for v in json.load(open(os.path.join(V, 'seeded/_wave6.json'))).values() if v != 'REJECTED')
out = {}
for i in range(1, 21):
    pid = f'C{i:02d}'
    lines, need = [], False
    for n in names:
        if not n.startswith(pid + '-'):
            continue
        rp = os.path.join(V, 'seeded', n, 'result.json')
        meta = json.load(open(os.path.join(V, 'seeded', n, 'meta.json')))
        if os.path.exists(rp):
            r = json.load(open(rp))
            st = ('CAUGHT (' + str(r.get('kind')) + (': ' + str(r.get('what'))[:80] if r.get('kind') != 'counterexample' else '') + ')') if r.get('caught') else 'MISSED'
            if not r.get('caught') or r.get('kind') != 'counterexample':
                need = True
        else:
            st = 'NOT RUN YET (run it: python3 /verif/tools/run_seeded.py ' + n + ')'
            need = True
        lines.append(f'  - /verif/seeded/{n}: {st} - {meta["summary"][:260]} NEEDS: {meta.get("needs","")[:200]}')
    if need:
        out[pid] = (f'Round 5 (short, hard stop {deadline} UTC - check `date -u`; I commit what is on disk at that time, never leave the check failing). A sixth wave of independent breaking changes was '
                    f'run against your quick check (patch.diff / demo / meta.json / result.json under each directory):\n' + '\n'.join(lines) +
                    '\nFor every one that is MISSED or caught only as unchecked-obligation (a broken translator / theorem / correspondence with no concrete failing input): same procedure as Part A of round 4 - '
                    'find the GENERAL input family / history / independent oracle the check lacks (never special-case the patch or the demo inputs), add it to search AND correspondence (and model + theorem where the '
                    'changed code is inside or next to what you model; when a translator refuses the patched source make sure the directed search still runs on the real code and produces the concrete input), confirm with '
                    '`python3 /verif/tools/run_seeded.py <name>` that it is now `kind: counterexample`, re-run at least four older seeds (the two wave-5 ones included) and the unchanged tree for VERIF_SEED=1,2 '
                    '(exit 0, no VIOLATION, discharged == obligations, quick <= ~3 min of CPU-bound wall on an idle machine). If an oracle strong enough to catch one would alarm on correct code, say so instead of forcing it. '
                    '/repo HEAD is d9d8bf3 (four fix: commits since round 4 started: ec73a88 fix_resonance calls calc_labels, 93f39b0 rxn.py $MOL search offset, fed0944 remove_metals drops cached not_special_connectivity, '
                    'd9d8bf3 second guard statement in QueryIsomorphism.get_mapping for ring sizes > 65); if your check pins or translates any of those lines and has not been updated yet, update it. Update harness/manifest/<id>.json. '
                    'Same rules as always (only your own files, no git state changes, never git stash). Finish with a SHORT report: per seed what was missing / added / which layer catches it; quick result for seeds 1,2.')
print(json.dumps(out))
