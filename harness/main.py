"""Entry point of every check (see DESIGN.md section 2)."""
import importlib
import os
import sys
import time
import traceback

import common


def setup():
    t0 = time.time()
    failed = common.regenerate()
    for name, err in failed:
        print(f'setup: translator {name} failed: {err}')
    import json
    man = json.load(open(os.path.join(common.VERIF, 'MANIFEST.json')))
    targets = [f"props/{c['property_id']}.vo" for c in man['checks']]
    ok, log = common.coq_make(targets, timeout=3000)
    if not ok:
        print(log[-4000:])
        print('setup: coq build FAILED')
        return 1
    # the correspondence steps import modules outside the closure of props/*.vo (trace models, state tables): build everything now
    # (a failure here is not fatal for setup: common.ensure_imports_built rebuilds what a cases file needs and reports it there)
    ok, log = common.coq_make(['-k', 'all'], timeout=3000)
    if not ok:
        print(log[-2000:])
        print('setup: WARNING: some development file outside the property closures did not build')
    try:
        import extract_build
        if not extract_build.build_all():
            return 1
    except ImportError:
        pass
    print(f'setup done in {time.time() - t0:.0f}s')
    return 0


def main(argv):
    if not argv or argv[0] in ('-h', '--help'):
        print(__doc__)
        return 2
    if argv[0] == '--setup':
        return setup()
    pid = argv[0]
    tier = os.environ.get('VERIF_TIER', 'quick')
    replay = None
    for i, a in enumerate(argv[1:], 1):
        if a == '--quick':
            tier = 'quick'
        elif a == '--thorough':
            tier = 'thorough'
        elif a == '--replay':
            if i + 1 >= len(argv):
                print('usage: ./check <Cxx> --replay <replay file>')
                return 2
            replay = argv[i + 1]
    seed = int(os.environ.get('VERIF_SEED', '0') or 0)
    mod = importlib.import_module(f'checks.{pid}')
    if replay:
        return mod.replay(replay)
    ck = common.Check(pid, tier, seed)
    try:
        mod.run(ck)
    except Exception:
        tb = traceback.format_exc()
        print(tb)
        ck.oblige('check machinery ran to completion', False, 'machinery', tb)
        ck.unchecked('check machinery crashed', tb)
    return ck.finish()


if __name__ == '__main__':
    sys.exit(main(sys.argv[1:]))
