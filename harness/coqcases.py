"""Running the Coq model on correspondence cases: the harness writes coq/cases/<name>_<k>.v files holding
(index, model_output =? implementation_output) pairs; coqc evaluates them with vm_compute and prints the failing
indices.  Shards run in parallel."""
import concurrent.futures as cf
import re

import common

HEADER = '''From Coq Require Import ZArith List String Bool.
From Model Require Import PyBase {imports}.
{extra}
Import ListNotations.
Open Scope Z_scope.
Definition cases : list (nat * bool) := [
{body}
].
Definition result := failing cases.
Eval vm_compute in result.
'''


def run_cases(name, imports, cases, extra='', shard=400, timeout=900):
    """cases: list of Coq boolean expressions (strings). returns (ok, failing_indices, log)"""
    if not cases:
        return True, [], ''
    shards = [cases[i:i + shard] for i in range(0, len(cases), shard)]

    def one(k):
        body = ';\n'.join(f'({i}%nat, {c})' for i, c in enumerate(shards[k]))
        text = HEADER.format(imports=imports, extra=extra, body=body)
        ok, out = common.coq_eval(f'{name}_{k}', text, timeout)
        if not ok:
            return k, None, out
        flat = out.replace('\n', ' ')
        m = re.search(r'=\s*(\[[^\]]*\]|nil)\s*:\s*list nat', flat)
        if not m:
            return k, None, out
        body = m.group(1).strip('[]')
        idx = [int(x.replace('%nat', '').strip()) for x in body.split(';') if x.strip()] if body != 'nil' else []
        return k, idx, out

    failing = []
    logs = []
    ok_all = True
    with cf.ThreadPoolExecutor(max_workers=8) as ex:
        for k, idx, out in ex.map(one, range(len(shards))):
            if idx is None:
                ok_all = False
                logs.append(out[-2000:])
            else:
                failing.extend(k * shard + i for i in idx)
    return ok_all, failing, '\n'.join(logs)
