import CachedMethods
_orig = CachedMethods.class_cached_property
class class_cached_property:
    def __init__(self, func):
        self.__doc__ = getattr(func, '__doc__')
        self.func = func
        name = func.__name__
        if name.startswith('__') and not name.endswith('__'):
            name = f'_{func.__qualname__.split(".")[-2]}{name}'
        self.name = name
    def __get__(self, obj, cls):
        if obj is None:
            return self
        cc = cls.__class_cache__.setdefault(cls, {})
        try:
            return cc[self.name]
        except KeyError:
            v = cc[self.name] = CachedMethods._freeze(self.func(obj)) if hasattr(CachedMethods,'_freeze') else self.func(obj)
            return v
CachedMethods.class_cached_property = class_cached_property
