"""C09 accelerated (bit-mask) matcher == reference matcher.  Model: coq/model/IsoBits.v.
chython/algorithms/_isomorphism.pyx cannot be compiled here: it is transpiled to Python from its current source text
(harness/iso_pyx.py, fail closed) and injected, so that the library's own `_cython=True` path runs end to end.  The claim
is therefore about the .pyx SOURCE as transpiled, not about a compiled extension."""
import itertools
import random
import struct
from array import array

import boot  # noqa
import common
import coqcases
import corpus
import iso_pyx
from coqfmt import zraw, b, lst, opt, tup

replay = common.generic_replay
REPLAY_PRE = 'import iso_pyx; iso_pyx.inject(); from chython import smiles, smarts; from checks.C09 import *; '
MAX_MAPPINGS = 1500


# ---------------------------------------------------------------------------------------------------------
# printing model terms

def latom_term(a):
    return (f'(mkLA {zraw(a.atomic_number)} {opt(a.isotope, zraw)} {zraw(a.charge)} {b(a.is_radical)} {zraw(a.neighbors)} '
            f'{zraw(a.hybridization)} {opt(a.implicit_hydrogens, zraw)} {zraw(a.heteroatoms)} {lst(sorted(a.ring_sizes), zraw)})')


def lbond_term(bd):
    return f'(mkLB {zraw(int(bd))} {b(bd.in_ring)})'


def qx_term(a):
    return (f'(mkQX {zraw(a.charge)} {b(a.is_radical)} {lst(a.neighbors, zraw)} {lst(a.hybridization, zraw)} '
            f'{lst(a.implicit_hydrogens, zraw)} {lst(a.heteroatoms, zraw)} {lst(a.ring_sizes, zraw)})')


def qatom_term(a):
    from chython.periodictable import AnyElement, AnyMetal, ListElement, QueryElement
    if isinstance(a, AnyMetal):
        return f'(QMetal {lst(a.neighbors, zraw)} {lst(a.hybridization, zraw)})'
    if isinstance(a, AnyElement):
        return f'(QAny {qx_term(a)})'
    if isinstance(a, ListElement):
        return f'(QList {lst(a.atomic_numbers, zraw)} {qx_term(a)})'
    if isinstance(a, QueryElement):
        return f'(QElem {zraw(a.atomic_number)} {opt(a.isotope, zraw)} {qx_term(a)})'
    raise TypeError(type(a))


def qbond_term(qb):
    return f'(mkQB {lst(qb.order, zraw)} {opt(qb.in_ring, b)})'


def rmol_term(m):
    """the molecule as _get_mapping sees it; neighbours as POSITIONS in dict order"""
    pos = {n: i for i, n in enumerate(m._atoms)}
    return lst([f'(mkRA {zraw(n)} {latom_term(a)} {lst([tup(zraw(pos[k]), lbond_term(bd)) for k, bd in m._bonds[n].items()])})'
                for n, a in m._atoms.items()])


def rq_term(component, closures):
    """one component of _compiled_query: entries (s_n, back, s_atom, s_bond) + query_closures[s_n], back / partners as depths"""
    depth = {e[0]: i for i, e in enumerate(component)}
    out = []
    for n, back, atom, bond in component:
        cl = closures.get(n, [])
        out.append(f'(mkRQ {zraw(n)} {zraw(depth[back]) if back is not None else "0"} {qatom_term(atom)} {opt(bond, qbond_term)} '
                   f'{lst([tup(zraw(depth[k]), qbond_term(qb)) for k, qb in cl])})')
    return lst(out)


def b4_term(w):
    return f'(mkB4 {w[0]} {w[1]} {w[2]} {w[3]})'


def decode_mol(buf, lay):
    fa, sa, _ = lay['atom_t']
    fb, sb, _ = lay['bond_t']
    n = struct.unpack_from('<I', buf, 0)[0]
    atoms = [struct.unpack_from(fa, buf, 4 + i * sa) for i in range(n)]
    rest = len(buf) - 4 - n * sa
    if rest % sb:
        raise ValueError('molecule buffer: bond block is not a whole number of records')
    bonds = [struct.unpack_from(fb, buf, 4 + n * sa + i * sb) for i in range(rest // sb)]
    return atoms, bonds


def decode_query(buf, lay):
    fa, sa, _ = lay['q_atom_t']
    fb, sb, _ = lay['bond_t']
    n = struct.unpack_from('<I', buf, 0)[0]
    atoms = [struct.unpack_from(fa, buf, 4 + i * sa) for i in range(n)]
    rest = len(buf) - 4 - n * sa
    if rest % sb:
        raise ValueError('query buffer: bond block is not a whole number of records')
    bonds = [struct.unpack_from(fb, buf, 4 + n * sa + i * sb) for i in range(rest // sb)]
    return atoms, bonds


def mol_t_term(dec):
    atoms, bonds = dec
    return (f'(mkMolT {lst([f"(mkMA {b4_term(a[:4])} {a[4]} {a[5]} {a[6]})" for a in atoms])} '
            f'{lst([f"(mkBT {x[0]} {x[1]})" for x in bonds])})')


def query_t_term(dec):
    atoms, bonds = dec
    return (f'(mkQueryT {lst([f"(mkQA {b4_term(a[:4])} {a[4]} {a[5]} {a[6]} {a[7]} {a[8]})" for a in atoms])} '
            f'{lst([f"(mkBT {x[0]} {x[1]})" for x in bonds])})')


def maps_term(maps, qnums):
    """observed mappings (list of dicts) in query order, or None for an exception"""
    if maps is None:
        return 'None'
    return '(Some ' + lst([lst([tup(zraw(q), zraw(d[q])) for q in qnums]) for d in maps]) + ')'


EXTRA = '''From Model Require Import PeriodicTable IsoBits IsoBitsExt IsoBitsPyx IsoBitsGuard.
From Gen Require Import Elements.
Import ListNotations.
Open Scope Z_scope.
Definition FUEL : nat := Z.to_nat 40000.
Definition enc_mol_ok (rm : list ratom) (d : molecule_t) : bool := mol_t_eqb (enc_mol rm) d.
Definition enc_query_ok (rq : list rqent) (d : query_t) : bool := query_t_eqb (enc_query rq) d.
Definition mask_run (rq : list rqent) (rm : list ratom) (scope : list bool) : option (list (list (Z * Z))) :=
  let qu := enc_query rq in let mo := enc_mol rm in
  option_map (map (mask_mapping qu mo)) (mask_search qu mo scope FUEL).
Definition ref_run (rq : list rqent) (rm : list ratom) (scope : list bool) : option (list (list (Z * Z))) :=
  option_map (map (ref_mapping rq rm)) (ref_search rq rm scope FUEL).
(* occ = highest stack cell the transpiled loop wrote (+1), al1 / al2 = cells it allocated for stack_index / stack_depth *)
Definition tr_eqb (a c : Z * nat * list Z * list Z * nat) : bool :=
  let '(n1, d1, p1, m1, s1) := a in let '(n2, d2, p2, m2, s2) := c in
  (n1 =? n2) && Nat.eqb d1 d2 && list_eqb Z.eqb p1 p2 && list_eqb Z.eqb m1 m2 && Nat.eqb s1 s2.
(* the fuel of the model counts the iterations of the real loop: with n observed iterations (+ the one that finds the stack empty)
   the model answers, with one less it runs out (C09_*_terminates / _fuel_monotone are about this counter) *)
Definition fuel_exact (rq : list rqent) (rm : list ratom) (scope : list bool) (n : nat) : bool :=
  match pyx_search (enc_query rq) (enc_mol rm) scope (S n), mask_search (enc_query rq) (enc_mol rm) scope (S n) with
  | Some _, Some _ => true | _, _ => false end &&
  match pyx_search (enc_query rq) (enc_mol rm) scope n, mask_search (enc_query rq) (enc_mol rm) scope n with
  | None, None => true | _, _ => false end.
Definition trace_ok (rq : list rqent) (rm : list ratom) (scope : list bool) (obs : list (Z * nat * list Z * list Z * nat)) : bool :=
  match pyx_run (enc_query rq) (enc_mol rm) scope FUEL with
  | Some (_, tr, cl) => list_eqb tr_eqb tr obs && forallb (Z.eqb 0) cl && fuel_exact rq rm scope (List.length obs)
  | None => false
  end.
Definition pair_ok (rq : list rqent) (rm : list ratom) (scope : list bool) (omask oref : option (list (list (Z * Z)))) (occ al1 al2 : Z) : bool :=
  maps_eqb (mask_run rq rm scope) omask && maps_eqb (ref_run rq rm scope) oref &&
  (Z.of_nat (alloc_pyx (enc_query rq) (enc_mol rm)) =? al1) && (al1 =? al2) &&
  ((occ <? 0) || ((Z.of_nat (mask_occupancy (enc_query rq) (enc_mol rm) scope FUEL) =? occ) && (occ <=? al1))).
'''


# ---------------------------------------------------------------------------------------------------------
# synthetic atoms: the real encoders / __eq__ methods run on attribute values that are set directly, so that
# every field can be swept over its whole range (no molecule has an atom with 14 heteroatoms in a 65-ring)

DEFAULT_ATOM = dict(num=6, iso=None, chg=0, rad=False, nb=0, hyb=1, h=0, het=0, rings=())


def synth_mol(specs):
    """a molecule of disconnected atoms whose labels are the given values (dicts with the keys of DEFAULT_ATOM)"""
    from chython import MoleculeContainer
    from chython.periodictable import Element
    m = MoleculeContainer()
    for s in specs:
        s = {**DEFAULT_ATOM, **s}
        cls = Element.from_atomic_number(s['num'])
        a = cls(s['iso'])
        n = m.add_atom(a, _skip_calculation=True)
        a = m._atoms[n]
        a._charge = s['chg']
        a._is_radical = s['rad']
        a._neighbors = s['nb']
        a._hybridization = s['hyb']
        a._implicit_hydrogens = s['h']
        a._explicit_hydrogens = 0
        a._heteroatoms = s['het']
        a._ring_sizes = set(s['rings'])
        a._in_ring = bool(s['rings'])
    m._changed = None
    m.flush_cache()
    return m


def synth_mol_anchored(specs):
    """like synth_mol, but every synthetic atom is bonded (single, not in a ring) to a plain carbon anchor added before it:
    with a query  A~X  the synthetic atom is tested by the neighbour loop of the .pyx (not by the first-atom loop)"""
    from chython import MoleculeContainer
    from chython.containers.bonds import Bond
    from chython.periodictable import Element
    m = MoleculeContainer()
    for s in specs:
        s = {**DEFAULT_ATOM, **s}
        c = m.add_atom(Element.from_atomic_number(6)(), _skip_calculation=True)
        n = m.add_atom(Element.from_atomic_number(s['num'])(s['iso']), _skip_calculation=True)
        m.add_bond(c, n, Bond(1), _skip_calculation=True)
        m._bonds[c][n]._in_ring = False
        for k, (chg, rad, nb, hyb, h, het, rings) in ((c, (0, False, 1, 1, 3, 0, ())),
                                                     (n, (s['chg'], s['rad'], s['nb'], s['hyb'], s['h'], s['het'], s['rings']))):
            a = m._atoms[k]
            a._charge, a._is_radical, a._neighbors, a._hybridization = chg, rad, nb, hyb
            a._implicit_hydrogens, a._explicit_hydrogens, a._heteroatoms = h, 0, het
            a._ring_sizes, a._in_ring = set(rings), bool(rings)
    m._changed = None
    m.flush_cache()
    return m


def synth_query_next(spec):
    """A ~ X : an unconstrained neutral AnyElement first, then the synthetic query atom behind an any-order bond"""
    from chython.containers import QueryContainer
    from chython.containers.bonds import QueryBond
    from chython.periodictable import AnyElement
    q = QueryContainer('synthetic-next')
    q.add_atom(AnyElement())
    q.add_atom(synth_qatom(spec))
    q.add_bond(1, 2, QueryBond((1, 2, 3, 4, 8)))
    return q


def synth_bond_mol():
    """ten two-atom fragments and ten triangles, one per (bond order, ring mark); labels set directly"""
    from chython import MoleculeContainer
    from chython.containers.bonds import Bond
    m = MoleculeContainer()
    kinds = [(o, r) for o in (1, 2, 3, 4, 8) for r in (False, True)]
    for o, r in kinds:
        a, c = m.add_atom('C', _skip_calculation=True), m.add_atom('N', _skip_calculation=True)
        m.add_bond(a, c, Bond(o), _skip_calculation=True)
        m._bonds[a][c]._in_ring = r
    for o, r in kinds:
        t = [m.add_atom('O', _skip_calculation=True) for _ in range(3)]
        for x, y in ((0, 1), (1, 2), (2, 0)):
            m.add_bond(t[x], t[y], Bond(o), _skip_calculation=True)
            m._bonds[t[x]][t[y]]._in_ring = r
    for n, a in m._atoms.items():
        a._neighbors, a._hybridization, a._implicit_hydrogens, a._explicit_hydrogens = len(m._bonds[n]), 1, 0, 0
        a._heteroatoms, a._ring_sizes, a._in_ring = 0, set(), False
    m._changed = None
    m.flush_cache()
    return m


RING_ELEMENTS = [5, 6, 16, 35, 50, 55, 56, 57, 58, 72, 78, 80, 82, 92, 103, 116]     # not Ts, Og: documented identification with Lv


def synth_ring_mol():
    """one four-membered ring X-C-C-C per element X of RING_ELEMENTS (both mask words, the Ba/La border, Lv); all
    labels set directly (hydrogens known), so that a ring closure can land on an atom of any element"""
    from chython import MoleculeContainer
    from chython.containers.bonds import Bond
    from chython.periodictable import Element
    m = MoleculeContainer()
    for x in RING_ELEMENTS:
        t = [m.add_atom(Element.from_atomic_number(x)(), _skip_calculation=True)] + [m.add_atom('C', _skip_calculation=True) for _ in range(3)]
        for a, c in zip(t, t[1:] + t[:1]):
            m.add_bond(a, c, Bond(1), _skip_calculation=True)
            m._bonds[a][c]._in_ring = True
    for n, a in m._atoms.items():
        a._neighbors, a._hybridization, a._implicit_hydrogens, a._explicit_hydrogens = 2, 1, 0, 0
        a._heteroatoms, a._ring_sizes, a._in_ring = 0, {4}, True
    m._changed = None
    m.flush_cache()
    return m


def synth_ring_queries():
    """the four-ring written from the hetero atom (the closure lands on it), from a carbon (closure lands on carbon), with the
    hetero atom as AnyMetal / AnyElement / ListElement, closure bond with and without a ring mark"""
    from chython.containers import QueryContainer
    from chython.containers.bonds import QueryBond
    from chython.periodictable import AnyElement, AnyMetal, ListElement, QueryElement
    out = []

    def ring(name, first, hetero_pos, ring_mark=None):
        q = QueryContainer(name)
        for i in range(4):
            q.add_atom(first() if i == hetero_pos else QueryElement.from_atomic_number(6)())
        for a, c in ((1, 2), (2, 3), (3, 4)):
            q.add_bond(a, c, 1)
        q.add_bond(4, 1, QueryBond(1, in_ring=ring_mark))
        out.append((name, q))
    for x in RING_ELEMENTS:
        if x == 6:
            continue
        ring(f'ring from #{x}', lambda: QueryElement.from_atomic_number(x)(), 0)
        ring(f'ring from C next to #{x}', lambda: QueryElement.from_atomic_number(x)(), 1, True)
    ring('ring from AnyMetal', lambda: AnyMetal(), 0)
    ring('ring from AnyElement', lambda: AnyElement(), 0, True)
    ring('ring to AnyMetal', lambda: AnyMetal(), 3)
    ring('ring from [Hg,Pb,U]', lambda: ListElement(['Hg', 'Pb', 'U']), 0)
    ring('ring from [B,Ba,La]', lambda: ListElement(['B', 'Ba', 'La']), 0)
    return out


def synth_bond_queries():
    """every QueryBond (31 order sets x in_ring None/True/False) as the bond of a second atom and as a ring closure"""
    from chython.containers import QueryContainer
    from chython.containers.bonds import QueryBond
    out = []
    for r in range(1, 6):
        for orders in itertools.combinations((1, 2, 3, 4, 8), r):
            for ring in (None, True, False):
                q = QueryContainer('bond')
                q.add_atom('C'), q.add_atom('N')
                q.add_bond(1, 2, QueryBond(orders, in_ring=ring))
                out.append((f'C{list(orders)}{ring}N', q))
                q = QueryContainer('closure')
                q.add_atom('O'), q.add_atom('O'), q.add_atom('O')
                q.add_bond(1, 2, QueryBond((1, 2, 3, 4, 8)))
                q.add_bond(2, 3, QueryBond((1, 2, 3, 4, 8)))
                q.add_bond(1, 3, QueryBond(orders, in_ring=ring))
                out.append((f'O1~O~O{list(orders)}{ring}1', q))
    return out


def synth_qatom(spec):
    """spec: dict(kind='elem'|'any'|'list'|'metal', num=, nums=, iso=, chg=, rad=, nb=, hyb=, h=, het=, rings=)"""
    from chython.periodictable import AnyElement, AnyMetal, ListElement, QueryElement
    kw = {}
    if spec.get('nb') is not None:
        kw['neighbors'] = list(spec['nb'])
    if spec.get('hyb') is not None:
        kw['hybridization'] = list(spec['hyb'])
    kind = spec.get('kind', 'elem')
    if kind == 'metal':
        return AnyMetal(**kw)
    kw['charge'] = spec.get('chg', 0)
    kw['is_radical'] = spec.get('rad', False)
    if spec.get('h') is not None:
        kw['implicit_hydrogens'] = list(spec['h'])
    if spec.get('het') is not None:
        kw['heteroatoms'] = list(spec['het'])
    if spec.get('rings') is not None:
        kw['ring_sizes'] = 0 if tuple(spec['rings']) == (0,) else list(spec['rings'])
    if kind == 'any':
        return AnyElement(**kw)
    if kind == 'list':
        return ListElement(list(spec['nums']), **kw)
    return QueryElement.from_atomic_number(spec.get('num', 6))(spec.get('iso'), **kw)


def synth_query(specs):
    """a query of disconnected atoms (every atom is a component of its own)"""
    from chython.containers import QueryContainer
    q = QueryContainer('synthetic')
    for s in specs:
        q.add_atom(synth_qatom(s))
    return q


def atom_specs(rng, tier):
    from chython.periodictable import Element
    out = []
    for n in range(1, 119):
        out.append(dict(num=n))
    for cls in Element.__subclasses__():
        e = cls()
        for iso in sorted(e.isotopes_distribution):
            out.append(dict(num=e.atomic_number, iso=iso))
    for c in range(-4, 5):
        out.append(dict(chg=c))
        out.append(dict(chg=c, rad=True))
    for h in (None, 0, 1, 2, 3, 4, 5, 6):
        out.append(dict(h=h))
    for k in range(0, 17):
        out.append(dict(nb=k))
        out.append(dict(het=min(k, 14), nb=k))
    for k in range(1, 5):
        out.append(dict(hyb=k))
    for r in list(range(3, 68)) + [70, 100, 1000]:
        out.append(dict(rings=(r,)))
    for rs in ((3, 4), (5, 6), (6, 65), (65, 66), (66, 70), (3, 66), (5, 6, 7), (64, 65, 66)):
        out.append(dict(rings=rs))
    elements = list(range(1, 119))
    iso_of = {cls().atomic_number: sorted(cls().isotopes_distribution) for cls in Element.__subclasses__()}
    for _ in range(300 if tier == 'quick' else 3000):
        n = rng.choice(elements if rng.random() < .5 else [6, 7, 8, 26, 57, 86, 116, 117, 118, 56, 57])
        out.append(dict(num=n, iso=rng.choice([None] + iso_of[n]), chg=rng.randint(-4, 4), rad=rng.random() < .2,
                        nb=rng.randint(0, 14), hyb=rng.randint(1, 4), h=rng.choice([0, 0, 1, 2, 3, 4, None]),
                        het=rng.randint(0, 14), rings=tuple(sorted(rng.sample(range(3, 70), rng.choice([0, 0, 1, 1, 2, 3]))))))
    return out


def query_specs(rng, tier):
    from chython.periodictable import Element
    mdl = {cls().atomic_number: cls().mdl_isotope for cls in Element.__subclasses__()}
    out = []
    for n in range(1, 119):
        out.append(dict(num=n))
    for n in (1, 6, 8, 26, 56, 57, 92, 116, 117, 118):
        for off in range(-10, 11):
            out.append(dict(num=n, iso=mdl[n] + off))
        out.append(dict(num=n, iso=0))
    for c in range(-4, 5):
        out.append(dict(chg=c))
        out.append(dict(chg=c, rad=True, kind='any'))
    for k in range(0, 15):
        out.append(dict(nb=(k,)))
        out.append(dict(het=(k,)))
        out.append(dict(h=(k,)))
        out.append(dict(kind='metal', nb=(k,)))
    out += [dict(nb=(0, 14)), dict(nb=(1, 2, 3)), dict(het=(0, 1)), dict(het=(2, 7, 14)), dict(h=(0, 5)), dict(h=(1, 14)), dict(h=(0, 1, 2, 3, 4))]
    for r in range(1, 5):
        for hy in itertools.combinations((1, 2, 3, 4), r):
            out.append(dict(hyb=hy))
            out.append(dict(kind='metal', hyb=hy))
    for r in range(1, 6):
        for hs in itertools.combinations(range(5), r):
            out.append(dict(h=hs, kind=rng.choice(['elem', 'any'])))
    out.append(dict(rings=(0,)))
    out.append(dict(rings=(0,), kind='any'))
    for r in list(range(3, 68)) + [70, 100, 1000]:
        out.append(dict(rings=(r,)))
    for rs in ((3, 4), (5, 6), (6, 65), (65, 66), (66, 70), (3, 66), (5, 6, 7), (64, 65, 66)):
        out.append(dict(rings=rs, kind=rng.choice(['elem', 'any'])))
    out.append(dict(kind='any'))
    out.append(dict(kind='metal'))
    for nums in ((6, 7), (7, 8, 16), (6, 57), (57, 58), (56, 57), (116, 117), (117, 118), (1, 118), (86, 26), (9, 17, 35, 53)):
        out.append(dict(kind='list', nums=nums))
        out.append(dict(kind='list', nums=nums, chg=rng.choice([-1, 0, 1]), nb=(rng.randint(0, 4),)))
    for _ in range(200 if tier == 'quick' else 2000):
        kind = rng.choice(['elem', 'elem', 'any', 'list', 'metal'])
        s = dict(kind=kind)
        n = rng.choice(list(range(1, 119)) if rng.random() < .5 else [6, 7, 8, 26, 57, 86, 116, 117, 118, 56])
        s['num'] = n
        s['nums'] = tuple(sorted(set(rng.choices(range(1, 119), k=rng.randint(1, 4)))))
        if rng.random() < .3:
            s['iso'] = mdl[n] + rng.randint(-8, 8)
        s['chg'] = rng.choice([0, 0, 0, 1, -1, rng.randint(-4, 4)])
        s['rad'] = rng.random() < .15

        def sub(lo, hi, kmax=3):
            return tuple(sorted(rng.sample(range(lo, hi + 1), rng.randint(1, kmax)))) if rng.random() < .4 else None
        s['nb'] = sub(0, 14)
        s['hyb'] = sub(1, 4)
        s['h'] = sub(0, 4)
        s['het'] = sub(0, 14)
        s['rings'] = (0,) if rng.random() < .1 else sub(3, 69)
        out.append(s)
    return out


def in_range_atom(s):
    s = {**DEFAULT_ATOM, **s}
    return (1 <= s['num'] <= 116 and s['h'] is not None and 0 <= s['h'] <= 4 and 0 <= s['nb'] <= 14 and 0 <= s['het'] <= 14
            and all(3 <= r <= 65 for r in s['rings']))


def in_range_query(s, mdl):
    """query atoms on which the two paths must agree: everything the setters accept except ring sizes above 65 and the
    documented identification of Lv/Ts/Og (query isotopes, hydrogens 5..14 and AnyMetal are inside since the fix: commits)"""
    kind = s.get('kind', 'elem')
    if kind == 'metal':
        return True
    rings = s.get('rings') or ()
    if rings != (0,) and any(r > 65 for r in rings):
        return False
    if kind == 'elem' and s.get('num', 6) > 116:
        return False
    if kind == 'list' and any(n > 116 for n in s['nums']):
        return False
    return True


# ---------------------------------------------------------------------------------------------------------
# running the two real paths at the level of one component / one scope

def run_pyx(mod, qbuf, mbuf, scope_bits, trace=None):
    mod.MAX_WRITTEN.clear()
    mod.TRACE = trace
    try:
        return list(mod.get_mapping(qbuf, mbuf, array('I', scope_bits))), None
    except Exception as e:  # MemoryFault of the transpiled C memory model, struct errors, ...
        return None, f'{type(e).__name__}: {e}'


def run_py(component, closures, m, scope):
    from chython.algorithms import isomorphism as iso
    return list(iso._get_mapping(component, closures, m._atoms, m._bonds, scope))


def both_paths(q, m, **kw):
    """the property itself on the public API: (mappings of the accelerated path | error text, mappings of the reference path)"""
    try:
        fast = list(itertools.islice(q.get_mapping(m, **kw), MAX_MAPPINGS + 1))
    except Exception as e:
        fast = f'{type(e).__name__}: {e}'
    slow = list(itertools.islice(q.get_mapping(m, _cython=False, **kw), MAX_MAPPINGS + 1))
    return fast, slow


def asks_h0(q):
    """the query has an atom that constrains implicit hydrogens and allows 0 (where the known finding hydrogens-none shows)"""
    return any(0 in (getattr(a, 'implicit_hydrogens', ()) or ()) for a in q._atoms.values())


def as_set(maps):
    return {frozenset(d.items()) for d in maps}


# ---------------------------------------------------------------------------------------------------------
# molecules and queries for the pair runs

SEED_SMILES = ['C', 'CC', 'CCO', 'C=C', 'C#C', 'C#N', 'c1ccccc1', 'C1CC1', 'C1=CC1', 'C1CCC1C', 'c1ccc2ccccc2c1', 'C1CC2CC1CC2',
               'OC(=O)c1ccccc1N', 'CC(C)(C)C', 'C[N+](C)(C)C', '[O-][N+](=O)c1ccccc1', 'CS(=O)(=O)N', 'ClC(Cl)(Cl)Cl', '[13CH4]',
               '[2H]O[2H]', '[CH3]', 'C[Fe](C)(C)(C)(C)C', '[Na+].[Cl-]', 'CC.OO.N', 'C1CCCCC1.C1CCCCC1', 'c1ccncc1', 'C1CC12CC2',
               'C12C3C4C1C5C2C3C45', 'N[C@@H](C)C(=O)O', 'F/C=C/Cl', 'O=C1NC=CC(=O)N1', 'CC(=O)Oc1ccccc1C(O)=O', 'C1CCCCCCCCCCC1',
               '[La]', '[U](F)(F)(F)(F)(F)F', '[Lv]', 'F[Th](F)(F)F', '[Hg]1CCCC1', '[Pb]1CCCC1', 'C1CC[Pt]C1', 'O=[Os]1(=O)OCCO1',
               'C[Pb]1(C)CCCC1', 'C1CC[Hg]CC1', 'C[Sn]1(C)CCCC1', 'Cl[Pt]1(Cl)NCCN1', 'C[Bi]1CCCC1', 'C[Hg]C', 'Cl[Au](Cl)Cl', 'C[Pb](C)(C)C', 'O=[Os](=O)(=O)=O', 'C[Pt](N)(N)Cl', 'C~C'.replace('~', '-'), 'B1OCCO1', 'C1=CC=CC=C1']

SMARTS_LIB = ['C', 'N', 'O', '[#6]', '[C,N]', '[C,N,O;D2]', 'A', '[A]', '[M]', '[M;D6]', '[M;z1]', 'CC', 'C-C', 'C=C', 'C#C', 'C:C', 'C~C',
              'C-,=C', 'C=,:C', 'C!-C', 'C-;@C', 'C-;!@C', 'C~;@C', 'C!:;@C', '[C;D1]', '[C;D2,D3]', '[C;D4]', '[C;h0]', '[C;h1,h2]',
              '[C;h3]', '[C;r5]', '[C;r5,r6]', '[C;r3]', '[C;!R]', '[A;!R]', '[C;x0]', '[C;x1,x2]', '[N;x0]', '[C;z1]', '[C;z2]',
              '[C;z3]', '[C;z4]', '[C;a]', '[A;a]', '[C;z1,z2;D3]', '[C+]', '[N+]', '[O-]', '[N+;D4]', '[13C]', '[2H]', '[12C]',
              'C1CC1', 'C1CCC1', 'C1CCCCC1', 'c1ccccc1', 'C:1:C:C:C:C:C:1', 'C1=CC=CC=C1', '[A]1~[A]~[A]~[A]~[A]~[A]~1', 'C(C)(C)C',
              'C(C)(C)(C)C', 'CC(=O)O', 'C(=O)N', '[C;D3](=O)[O;D1]', 'N-C=O', 'OC(=O)C:C', 'C.O', 'C.C', 'CC.O', 'N.N.C',
              '[Na+].[Cl-]', 'C1CC1.C', 'CCO', 'CCCC', 'C-C-C-C-C', 'C(C)C(C)C', '[O,N;h1,h2]', '[C;r6;a]-;!@[C;h1,h2,h3]',
              'C12CC1C2', 'C1CC2CC1CC2', 'C1CC12CC2', 'C[Fe]', 'C[M]', '[M]~[A]', 'F[U]', 'S(=O)(=O)', '[S;D4](=O)(=O)', 'Cl', '[F,Cl,Br,I]',
              'C[N+](C)(C)C', '[A;D1]~[A;D4]', '[C;D1]~[C]~[C;D1]', 'C |^1:0|', '[C;h3] |^1:0|', 'c1ccncc1', 'C:N', 'C:,=N', '[#7;r6]',
              '[La]', '[Lv]', '[#57,#58]', 'F[Th]', '[Hg]1CCCC1', 'C1CC[Hg]C1', '[Pb]1CCCC1', 'C1C[Pb]CC1', '[Pt]1CCCC1', '[Pt]1NCCN1', '[Os]1OCCO1',
              'O1CCO[Os]1', '[Sn]1CCCC1', '[Bi]1CCCC1', '[Hg]1CCCCC1', '[M]1CCCC1', '[M]1~[A]~[A]~[A]~[A]~1', '[Hg,Pb]1CCCC1', '[A]1~[A]~[A]~[A]~[A]~1', 'C[Hg]', 'Cl[Au]', 'C[Pb]', 'O=[Os]', 'Cl[Pt]', 'F[Th,U]', 'C[Sn,Pb]', '[Hg,Pb]C', 'C[Hg]C', 'B1OCCO1', 'O=C1NC=CC(=O)N1', '[C;r12]', 'C1CCCCCCCCCCC1']


# inputs on which the former stack arrays of the .pyx (2 * atoms_count cells) were too small (fixed finding stack-overflow, 25e27ca)
# and near misses: a MemoryFault of the transpiled loop on any input is reported under the key of that finding
OVERFLOW_PAIRS = {'C123C45C16C24C356': ['C123C45C16C24C356', 'C1CC1', 'C12C3C1C23'],
                  'FS(F)(F)(F)(F)F': ['FS(F)(F)(F)(F)F', 'S(F)(F)(F)(F)(F)F', 'FS(F)(F)(F)F', 'FSF'],
                  'F%11.F%12.F%13.F%14.F%15.F%16.S%11%12%13%14%15%16': ['[A]([A])([A])([A])([A])([A])[A]', '[A]([A])([A])([A])([A])[A]'],
                  'F[U](F)(F)(F)(F)F': ['F[U](F)(F)(F)(F)F'], 'FP(F)(F)(F)F': ['FP(F)(F)(F)F'],
                  'FI(F)(F)(F)(F)(F)F': ['FI(F)(F)(F)(F)(F)F', 'FI(F)(F)F']}


# ring queries for the family of small dense polycycles (plain carbons, single bonds: a brute-force oracle applies)
RING_QUERIES = ['C1CC1', 'C1CCC1', 'C1CCCC1', 'C1CCCCC1', 'CC1CC1', 'CC1CCC1', 'CC1CCCC1', 'C1CC(C)C1', 'CC1CCC1C', 'CC1(C)CC1',
                'C1C2CC12', 'C1CC2CC12', 'C1CC2CCC12', 'C1CC2CC2C1', 'C1CC12CC2', 'C1C2CC1C2', 'C12CC1C2', 'CC1C2CC12', 'C1CC2C(C1)C2',
                'C1CC2(C1)CC2']


def polycycles(nmin=5, nmax=7, rmin=2, rmax=4, maxdeg=4):
    """every connected graph with nmin..nmax vertices, rmin..rmax independent rings and degree <= maxdeg, once, as the SMILES
    of the saturated hydrocarbon (274 graphs for 5-7 / 2-4 / 4): propellanes, bicyclobutanes, cages ... .  Built by adding
    pendant vertices and then edges; RDKit's canonical SMILES only removes isomorphic duplicates (generator, not oracle)."""
    from rdkit import Chem, RDLogger
    RDLogger.DisableLog('rdApp.*')

    def key(n, edges):
        m = Chem.RWMol()
        for _ in range(n):
            m.AddAtom(Chem.Atom(6))
        for a, c in edges:
            m.AddBond(a, c, Chem.BondType.SINGLE)
        mol = m.GetMol()
        Chem.SanitizeMol(mol)
        return Chem.MolToSmiles(mol)

    def degrees(m, es):
        deg = [0] * m
        for a, c in es:
            deg[a] += 1
            deg[c] += 1
        return deg
    trees = {1: {'C': (1, frozenset())}}
    for n in range(2, nmax + 1):
        cur = {}
        for m, es in trees[n - 1].values():
            deg = degrees(m, es)
            for v in range(m):
                if deg[v] < maxdeg:
                    e2 = frozenset(es | {(v, m)})
                    cur.setdefault(key(n, e2), (n, e2))
        trees[n] = cur
    out = []
    for n in range(nmin, nmax + 1):
        level = trees[n]
        for r in range(1, rmax + 1):
            nxt = {}
            for m, es in level.values():
                deg = degrees(m, es)
                for a, c in itertools.combinations(range(m), 2):
                    if (a, c) not in es and deg[a] < maxdeg and deg[c] < maxdeg:
                        e2 = frozenset(es | {(a, c)})
                        nxt.setdefault(key(n, e2), (n, e2))
            level = nxt
            if r >= rmin:
                out.extend((n, r, k) for k in sorted(level))
    return out


def brute_induced(q, m):
    """all injective maps of the query atoms into the molecule atoms that preserve adjacency AND non-adjacency (what both
    matchers must return for plain-carbon single-bond queries without the automorphism filter); plain backtracking"""
    qn = list(q._atoms)
    qadj = {n: set(q._bonds[n]) for n in qn}
    madj = {n: set(m._bonds[n]) for n in m._atoms}
    res = []

    def rec(i, mp, used):
        if i == len(qn):
            res.append(dict(mp))
            return
        u = qn[i]
        for v in madj:
            if v not in used and all((w in qadj[u]) == (mp[w] in madj[v]) for w in qn[:i]):
                mp[u] = v
                used.add(v)
                rec(i + 1, mp, used)
                used.discard(v)
                del mp[u]
    rec(0, {}, set())
    return res


def cycle_query(m, rng):
    """a ring cut out of the molecule (a simple cycle of 3-6 atoms found by a random walk), with or without one substituent;
    only the cycle bonds are kept, so the query need not match (the matchers look for induced embeddings)"""
    from chython.containers import QueryContainer
    for _ in range(20):
        start = rng.choice(list(m._atoms))
        path = [start]
        while len(path) < 7:
            nxt = [k for k in m._bonds[path[-1]] if k not in path[1:] and (k != start or len(path) >= 3)]
            if not nxt:
                break
            k = rng.choice(nxt)
            if k == start:
                if 3 <= len(path) <= 6:
                    q = QueryContainer('cycle')
                    for n in path:
                        q.add_atom('C', n)
                    for a, c in zip(path, path[1:] + [start]):
                        q.add_bond(a, c, 1)
                    subs = [(n, k2) for n in path for k2 in m._bonds[n] if k2 not in path]
                    if subs and rng.random() < .5:
                        n, k2 = rng.choice(subs)
                        q.add_atom('C', k2)
                        q.add_bond(n, k2, 1)
                    return q
                break
            path.append(k)
    return None


def molecules(rng, tier):
    from chython import smiles, MoleculeContainer
    out = []
    for s in SEED_SMILES:
        out.append(('seed', s, smiles(s)))
    m = MoleculeContainer()
    m.add_atom('C'), m.add_atom('C'), m.add_atom('O')
    m.add_bond(1, 2, 8), m.add_bond(2, 3, 1)
    out.append(('special-bond', 'C~CO (order 8)', m))
    fam = polycycles() if tier == 'quick' else polycycles(4, 8, 1, 5)     # thorough: 4-8 atoms, 1-5 rings
    if tier == 'quick':
        small = [f for f in fam if f[0] <= 6]
        fam = small + rng.sample([f for f in fam if f[0] == 7], 70)
    for n, r, s in fam:
        out.append(('polycycle', s, smiles(s)))
    pool = corpus.sample(corpus.lipo(), 30 if tier == 'quick' else 600, rng.random(), 'c09')
    for s in pool:
        try:
            m = smiles(s)
        except Exception:
            continue
        if rng.random() < .5:
            m = corpus.renumber(m, rng)
        if rng.random() < .5:
            try:
                m.kekule()
                m.thiele()     # assigns the hydrogens of aromatic heteroatoms
            except Exception:
                pass
        out.append(('corpus', s, m))
    return out


def fragment_query(m, rng):
    """a query cut out of the molecule: a random connected set of atoms, every mark switched on at random"""
    from chython.containers import QueryContainer
    from chython.containers.bonds import QueryBond
    from chython.periodictable import QueryElement, AnyElement, ListElement
    start = rng.choice(list(m._atoms))
    atoms = [start]
    seen = {start}
    size = rng.randint(1, min(7, len(m)))
    frontier = [k for k in m._bonds[start]]
    while len(atoms) < size and frontier:
        k = frontier.pop(rng.randrange(len(frontier)))
        if k in seen:
            continue
        seen.add(k)
        atoms.append(k)
        frontier.extend(x for x in m._bonds[k] if x not in seen)
    q = QueryContainer('fragment')
    rng.shuffle(atoms)
    for n in atoms:
        a = m._atoms[n]
        r = rng.random()
        flags = dict(neighbors=rng.random() < .4, hybridization=rng.random() < .4, heteroatoms=rng.random() < .3,
                     hydrogens=rng.random() < .3 and a.implicit_hydrogens is not None, ring_sizes=rng.random() < .3)
        qa = QueryElement.from_atom(a, **flags)
        if r < .15:
            x = AnyElement()
            x._charge, x._is_radical = qa.charge, qa.is_radical
            x._neighbors, x._hybridization, x._heteroatoms = qa.neighbors, qa.hybridization, qa.heteroatoms
            x._ring_sizes, x._implicit_hydrogens = qa.ring_sizes, qa.implicit_hydrogens
            qa = x
        elif r < .3:
            others = rng.sample([6, 7, 8, 16, 9, 17, 26, 57], 2)
            x = ListElement(sorted({a.atomic_number, *others}))
            x._charge, x._is_radical = qa.charge, qa.is_radical
            x._neighbors, x._hybridization, x._heteroatoms = qa.neighbors, qa.hybridization, qa.heteroatoms
            x._ring_sizes, x._implicit_hydrogens = qa.ring_sizes, qa.implicit_hydrogens
            qa = x
        q.add_atom(qa, n)
    for n, k, bd in m.bonds():
        if n in seen and k in seen and n in q._atoms and k in q._atoms:
            r = rng.random()
            if r < .5:
                qb = QueryBond.from_bond(bd, in_ring=rng.random() < .5)
            elif r < .8:
                qb = QueryBond(sorted({int(bd), rng.choice([1, 2, 3, 4])}), in_ring=rng.choice([None, None, bd.in_ring]))
            else:
                qb = QueryBond((1, 2, 3, 4, 8), in_ring=rng.choice([None, bd.in_ring, not bd.in_ring]))
            q.add_bond(n, k, qb)
    return q


# ---------------------------------------------------------------------------------------------------------
# correspondence

def corr_atoms(ck, rng, mod, lay):
    """per-field exhaustive: the two encoders (byte exact), QueryXx.__eq__ and the first-atom mask test of the .pyx on
    synthetic atoms; the property-level comparison of the two answers is the search oracle of this step"""
    from chython.periodictable import Element
    mdl = {cls().atomic_number: cls().mdl_isotope for cls in Element.__subclasses__()}
    aspecs = atom_specs(rng, ck.tier)
    qspecs = query_specs(rng, ck.tier)
    # ---- molecule side: one synthetic molecule per 120 atoms
    cases, meta = [], []
    mols = []
    for i in range(0, len(aspecs), 120):
        chunk = aspecs[i:i + 120]
        m = synth_mol(chunk)
        try:
            buf = m._cython_compiled_structure
        except Exception as e:
            ck.unchecked('encoder _cython_compiled_structure raised on synthetic atoms', f'{type(e).__name__}: {e}', [repr(chunk[:3])])
            continue
        dec = decode_mol(buf, lay)
        cases.append(f'enc_mol_ok {rmol_term(m)} {mol_t_term(dec)}')
        meta.append(('enc_mol', i, i + len(chunk)))
        mols.append((i, m, buf, dec))
        for s in chunk:
            ck.case(('enc-atom', tuple(sorted((k, repr(v)) for k, v in s.items()))))
        ck.count('enc_atom:synthetic atoms', len(chunk))
    # ---- query side: every synthetic query atom is a component of its own
    qatoms = []   # (spec, Query object, buffer)
    n_raise = 0
    for s in qspecs:
        try:
            qa = synth_qatom(s)
        except (ValueError, TypeError):
            ck.count('query spec rejected by the setters')
            continue
        q = synth_query([s])
        try:
            bufs = q._cython_compiled_query
        except (struct.error, ValueError, OverflowError) as e:
            # the reference path never raises on a query the setters accepted (fixed finding query-isotope-offset-raises)
            n_raise += 1
            ck.count(f'enc_query raises {type(e).__name__}')
            qatoms.append((s, q, None))
            ck.counterexample('query-isotope-offset-raises', '_cython_compiled_query raises on a query atom the setters accept',
                              {'query_atom': s}, f'{type(e).__name__}: {e}', 'no exception (reference path: no match)',
                              'q.get_mapping(m) vs q.get_mapping(m, _cython=False)',
                              replay_py=REPLAY_PRE + f'q = synth_query([{s!r}]); m = smiles("C"); print(list(q.get_mapping(m)))')
            continue
        comp, clo = q._compiled_query
        dec = decode_query(bufs[0], lay)
        cases.append(f'enc_query_ok {rq_term(comp[0], clo)} {query_t_term(dec)}')
        meta.append(('enc_query', s))
        qatoms.append((s, q, bufs[0]))
        ck.case(('enc-qatom', tuple(sorted((k, repr(v)) for k, v in s.items()))))
    ck.count('enc_qatom:synthetic query atoms', len(qatoms) - n_raise)
    # ---- pairs: __eq__ and the first-atom mask test
    qterms = [qatom_term(q._atoms[1]) for _, q, _ in qatoms]
    aterms = []
    for i, m, buf, dec in mols:
        aterms.extend(latom_term(a) for a in m._atoms.values())
    field_of_a = [frozenset(k for k in s) for s in aspecs]
    pair_cases, pair_meta = [], []
    by_query = {}
    n_mismatch_inrange = 0
    budget_rand = 2500 if ck.tier == 'quick' else 60000
    p_rand = budget_rand / (len(qatoms) * len(aspecs))

    def paired(qs, qfields, sa, fa):
        """same varied field on both sides (the grid of that field); isotopes only within one element"""
        if 'iso' in fa:
            return qs.get('kind', 'elem') == 'elem' and qs.get('num', 6) == sa['num'] and qfields <= {'num', 'iso'}
        if fa and fa <= {'chg', 'rad'} and (qs.get('kind', 'elem') in ('any', 'list') or any(h > 4 for h in (qs.get('h') or ()))):
            return True          # every AnyElement / ListElement / query with hydrogens above 4 against the charge x radical grid
        if not qfields or qfields == {'num'} or qfields == {'nums'}:
            return fa == {'num'}
        return bool(fa) and fa != {'num'} and len(fa) <= 2 and fa >= (qfields - {'num', 'nums'}) and bool(qfields - {'num', 'nums'})

    for qi, (qs, q, qbuf) in enumerate(qatoms):
        if qbuf is None:
            continue
        qa = q._atoms[1]
        qfields = {k for k in qs if k != 'kind' and qs[k] is not None}
        for i, m, mbuf, dec in mols:
            atoms = list(m._atoms.values())
            want = [j for j in range(len(atoms)) if paired(qs, qfields, aspecs[i + j], field_of_a[i + j]) or rng.random() < p_rand]
            if not want:
                continue
            scope = [0] * len(atoms)
            for j in want:
                scope[j] = 1
            got, err = run_pyx(mod, qbuf, mbuf, scope)
            if err is not None:
                ck.unchecked('transpiled get_mapping raised on a one-atom query', err, [repr(qs)])
                continue
            hit = {d[1] for d in got}
            nums = list(m._atoms)
            for j in want:
                oref = bool(qa == atoms[j])
                omask = nums[j] in hit
                by_query.setdefault(qi, []).append((i + j, oref, omask))
                nontrivial = oref or omask
                ck.case(('pair', qi, i + j), nontrivial=nontrivial)
                ck.count('atom pair: ' + ('match' if oref else 'no match'))
                if oref != omask and in_range_atom(aspecs[i + j]) and in_range_query(qs, mdl):
                    n_mismatch_inrange += 1
                    ck.counterexample(f'atom-mismatch:{sorted(qs.items())!r}:{sorted(aspecs[i + j].items())!r}',
                                      'mask test and __eq__ disagree on a query atom / molecule atom pair inside the representable range',
                                      {'query_atom': qs, 'atom': aspecs[i + j]}, {'mask': omask}, {'__eq__': oref},
                                      'the two real paths (transpiled .pyx first-atom test vs QueryXx.__eq__)',
                                      replay_py=REPLAY_PRE + f'q = synth_query([{qs!r}]); m = synth_mol([{aspecs[i + j]!r}]); '
                                                             f'print(list(q.get_mapping(m)), list(q.get_mapping(m, _cython=False)))')
    # ---- the same grids through the NEIGHBOUR loop of the .pyx: query A~X on anchored synthetic atoms (no random pairs)
    by_query_next = {}
    amols = []
    for i in range(0, len(aspecs), 120):
        am = synth_mol_anchored(aspecs[i:i + 120])
        amols.append((i, am, am._cython_compiled_structure))
    for qi, (qs, q, qbuf) in enumerate(qatoms):
        if qbuf is None:
            continue
        qa = q._atoms[1]
        qn = synth_query_next(qs)
        try:
            qnbuf = qn._cython_compiled_query[0]
        except Exception as e:
            ck.unchecked('encoder _cython_compiled_query raised on a two-atom synthetic query', f'{type(e).__name__}: {e}', [repr(qs)])
            continue
        qfields = {k for k in qs if k != 'kind' and qs[k] is not None}
        for i, am, ambuf in amols:
            nums = list(am._atoms)
            want = [j for j in range(len(nums) // 2) if paired(qs, qfields, aspecs[i + j], field_of_a[i + j]) and
                    (ck.tier != 'quick' or field_of_a[i + j] != {'num'} or (i + j + qi) % 3 == 0 or aspecs[i + j]['num'] == qs.get('num'))]
            if not want:
                continue
            scope = [0] * len(nums)
            for j in want:
                scope[2 * j] = scope[2 * j + 1] = 1
            got, err = run_pyx(mod, qnbuf, ambuf, scope)
            if err is not None:
                ck.unchecked('transpiled get_mapping raised on a two-atom query', err, [repr(qs)])
                continue
            hit = {d[2] for d in got}
            for j in want:
                a = am._atoms[nums[2 * j + 1]]
                oref = bool(qa == a)
                omask = nums[2 * j + 1] in hit
                by_query_next.setdefault(qi, []).append((i + j, oref, omask))
                ck.case(('pair-next', qi, i + j), nontrivial=oref or omask)
                ck.count('atom pair (neighbour loop): ' + ('match' if oref else 'no match'))
                if oref != omask and in_range_atom(aspecs[i + j]) and in_range_query(qs, mdl):
                    ck.counterexample(f'atom-mismatch-next:{sorted(qs.items())!r}:{sorted(aspecs[i + j].items())!r}',
                                      'neighbour-loop mask test and __eq__ disagree on a query atom / molecule atom pair inside the representable range',
                                      {'query_atom': qs, 'atom': aspecs[i + j]}, {'mask': omask}, {'__eq__': oref},
                                      'the two real paths (transpiled .pyx neighbour test vs QueryXx.__eq__)',
                                      replay_py=REPLAY_PRE + f'q = synth_query_next({qs!r}); m = synth_mol_anchored([{aspecs[i + j]!r}]); '
                                                             f'print(list(q.get_mapping(m)), list(q.get_mapping(m, _cython=False)))')
    # one Coq case per query atom: all its pairs (a list literal with thousands of `n%nat` indices elaborates quadratically)
    for qi, l in by_query.items():
        pair_cases.append(f'prs {qi} {lst([tup(zraw(j), b(r), b(k)) for j, r, k in l])} {lst([tup(zraw(j), b(r), b(k)) for j, r, k in by_query_next.get(qi, [])])}')
        pair_meta.append(qi)
    extra = EXTRA + 'Definition QS : list qatom := ' + lst(qterms, per_line=1) + '.\n' + \
        'Definition AS : list latom := ' + lst(aterms, per_line=1) + '.\n' + \
        'Definition pr (i j : Z) (oref omask : bool) : bool :=\n' \
        '  let q := znth QS i (QMetal [] []) in let a := znth AS j (mkLA 0 None 0 false 0 0 None 0 []) in\n' \
        '  Bool.eqb (match_atom q a) oref && Bool.eqb (mask_match_first (enc_qatom q None) (enc_atom a)) omask.\n' \
        'Definition ANYB : qbond := mkQB [1; 2; 3; 4; 8] None.\n' \
        'Definition pr2 (i j : Z) (oref omask : bool) : bool :=\n' \
        '  let q := znth QS i (QMetal [] []) in let a := znth AS j (mkLA 0 None 0 false 0 0 None 0 []) in\n' \
        '  Bool.eqb (match_atom q a) oref && Bool.eqb (mask_match_next (enc_qatom q (Some ANYB)) (enc_bond (mkLB 1 false) (w1 (enc_atom a))) (enc_atom a)) omask.\n' \
        'Definition prs (i : Z) (l l2 : list (Z * bool * bool)) : bool :=\n' \
        '  forallb (fun x => pr i (fst (fst x)) (snd (fst x)) (snd x)) l && forallb (fun x => pr2 i (fst (fst x)) (snd (fst x)) (snd x)) l2.\n'
    mol_cases = [(c, mt) for c, mt in zip(cases, meta) if mt[0] == 'enc_mol']
    q_cases = [(c, mt) for c, mt in zip(cases, meta) if mt[0] == 'enc_query']
    ok1a, f1a, log1a = coqcases.run_cases('c09_encm', 'PyBase', [c for c, _ in mol_cases], extra=EXTRA, shard=2)
    ok1b, f1b, log1b = coqcases.run_cases('c09_encq', 'PyBase', [c for c, _ in q_cases], extra=EXTRA, shard=400)
    ok1, log1 = ok1a and ok1b, log1a + log1b
    meta = [mt for _, mt in mol_cases] + [mt for _, mt in q_cases]
    failing1 = list(f1a) + [len(mol_cases) + i for i in f1b]
    ck.oblige('correspondence: _cython_compiled_structure / _cython_compiled_query (all fields of the buffers, decoded with the '
              '.pyx struct layout) == enc_mol / enc_query on synthetic atoms sweeping every field', ok1 and not failing1,
              'correspondence', log1 or str([meta[i] for i in failing1[:5]]))
    ok2, failing2, log2 = coqcases.run_cases('c09_pair', 'PyBase', pair_cases, extra=extra, shard=130)
    if ok2 and failing2:
        # second pass: which pairs of the failing query atoms
        single, smeta = [], []
        for k in failing2[:6]:
            for j, r, o in by_query[pair_meta[k]][:150]:
                single.append(f'pr {pair_meta[k]} {j} {b(r)} {b(o)}')
                smeta.append((pair_meta[k], j))
            for j, r, o in by_query_next.get(pair_meta[k], [])[:150]:
                single.append(f'pr2 {pair_meta[k]} {j} {b(r)} {b(o)}')
                smeta.append((pair_meta[k], j))
        _, f3, _ = coqcases.run_cases('c09_pair1', 'PyBase', single, extra=extra, shard=300)
        bad_pairs = [smeta[i] for i in f3]
    else:
        bad_pairs = []
    ck.oblige('correspondence: QueryXx.__eq__ == match_atom and first-atom mask test of the transpiled .pyx == mask_match_first',
              ok2 and not failing2, 'correspondence', log2 or str([(qatoms[q_][0], aspecs[a_]) for q_, a_ in bad_pairs[:5]]))
    n_pairs = sum(len(v) for v in by_query.values()) + sum(len(v) for v in by_query_next.values())
    ck.extra['correspondence_cases_atoms'] = len(cases) + n_pairs
    ck.extra['atom_pairs_in_range_mismatches'] = n_mismatch_inrange
    if pair_cases:
        ck.sample({'model_call': pair_cases[0][:300], 'query_atom': qterms[pair_meta[0]]})
    bad = []
    if not ok1 or failing1:
        bad += [repr(meta[i]) for i in failing1[:10]]
        ck.unchecked('correspondence enc_mol / enc_query vs isomorphism.py encoders (synthetic atoms)', log1[-1500:], bad)
    if not ok2 or failing2:
        bad2 = [repr((qatoms[q_][0], aspecs[a_])) for q_, a_ in bad_pairs[:10]] or [repr(qatoms[pair_meta[k]][0]) for k in failing2[:10]]
        ck.unchecked('correspondence match_atom / mask_match_first vs __eq__ / .pyx (synthetic atoms)', log2[-1500:], bad2)
        bad += bad2
    # directed search around disagreeing cases: the property itself on those inputs
    directed = []
    for i in failing1[:20]:
        if meta[i][0] == 'enc_query':
            directed.append((meta[i][1], None))
        else:
            directed.extend((None, aspecs[k]) for k in range(meta[i][1], meta[i][2], 7))
    for q_, a_ in bad_pairs[:60]:
        directed.append((qatoms[q_][0], aspecs[a_]))
    if failing2 and not bad_pairs:
        directed.extend((qatoms[pair_meta[k]][0], None) for k in failing2[:10])
    if directed:
        directed_atoms(ck, directed, qspecs, aspecs, mdl)
    return ok1 and ok2 and not failing1 and not failing2


def directed_atoms(ck, items, qspecs, aspecs, mdl):
    """the model and the code disagree on these synthetic inputs: look for a failing input of the REAL code on and around them"""
    from chython.periodictable import QueryElement
    tried = 0
    for qs, as_ in items:
        qcands = [qs] if qs is not None else []
        acands = [as_] if as_ is not None else []
        if qs is None:
            a = {**DEFAULT_ATOM, **as_}
            qcands = [dict(num=a['num']), dict(num=a['num'], iso=a['iso'], chg=a['chg'], rad=a['rad']),
                      dict(kind='any', chg=a['chg'], rad=a['rad'], nb=(a['nb'],) if 0 <= a['nb'] <= 14 else None),
                      dict(num=a['num'], chg=a['chg'], rad=a['rad'], h=(a['h'],) if a['h'] is not None and a['h'] <= 14 else None,
                           het=(a['het'],) if 0 <= a['het'] <= 14 else None, hyb=(a['hyb'],),
                           rings=tuple(a['rings']) or (0,))]
        if as_ is None:
            acands = [s for s in aspecs if in_range_atom(s)][:: max(1, len(aspecs) // 150)]
            if qs.get('kind', 'elem') == 'elem':
                acands.append(dict(num=qs.get('num', 6), iso=qs.get('iso') if qs.get('iso') else None, chg=qs.get('chg', 0), rad=qs.get('rad', False)))
        for q_ in qcands:
            if not in_range_query(q_, mdl):
                continue
            try:
                q = synth_query([q_])
            except Exception:
                continue
            good = [a for a in acands if in_range_atom(a)]
            if not good:
                continue
            try:
                m = synth_mol(good)
            except ValueError:      # a candidate atom with an isotope the Element setter rejects
                good = [a for a in good if not a.get('iso')]
                if not good:
                    continue
                m = synth_mol(good)
            tried += len(good)
            fast, slow = both_paths(q, m, automorphism_filter=False)
            if isinstance(fast, str) or as_set(fast) != as_set(slow):
                nums = list(m._atoms)
                diff = fast if isinstance(fast, str) else sorted(x[1] for d in as_set(fast) ^ as_set(slow) for x in d)
                first = good[nums.index(diff[0])] if not isinstance(fast, str) and diff else good[0]
                ck.counterexample(f'atom-mismatch:{sorted(q_.items())!r}:{sorted(first.items())!r}',
                                  'accelerated and reference matcher disagree on a one-atom query (found by the directed search '
                                  'after a model / code disagreement)', {'query_atom': q_, 'atom': first},
                                  {'accelerated': fast if isinstance(fast, str) else len(fast)}, {'reference': len(slow)},
                                  'q.get_mapping(m) vs q.get_mapping(m, _cython=False)',
                                  replay_py=REPLAY_PRE + f'q = synth_query([{q_!r}]); m = synth_mol([{first!r}]); '
                                                         f'print(list(q.get_mapping(m)), list(q.get_mapping(m, _cython=False)))')
    ck.extra['directed_atom_pairs'] = tried


def component_runs(q, m, rng, mod, full_only=False):
    """every (component, scope) call the wrapper could make for this pair, at the level of the two inner functions"""
    comps, clo = q._compiled_query
    try:
        qbufs = q._cython_compiled_query
        mbuf = m._cython_compiled_structure
    except Exception as e:
        return None, f'{type(e).__name__}: {e}'
    nums = list(m._atoms)
    scopes = [set(nums)]
    if len(nums) > 1 and not full_only:
        scopes.append(set(rng.sample(nums, max(1, len(nums) * 2 // 3))))
    cc = m.connected_components
    if len(cc) > 1 and not full_only:
        scopes.extend(set(c) for c in cc[:2])
    runs = []
    for ci, comp in enumerate(comps):
        for sc in scopes:
            bits = [int(n in sc) for n in nums]
            trace = []
            fast, err = run_pyx(mod, qbufs[ci], mbuf, bits, trace)
            mod.TRACE = None
            occ = (mod.MAX_WRITTEN.get('stack_index', 0), mod.ALLOCATED.get('stack_index', -1), mod.ALLOCATED.get('stack_depth', -1))
            slow = run_py(comp, clo, m, sc)
            runs.append((ci, comp, bits, fast, err, slow, occ, trace))
    return (comps, clo, qbufs, mbuf, runs), None


def corr_pairs(ck, rng, mod, lay):
    """whole buffers of real molecules / queries, and the two searches as sequences of mappings"""
    from chython import smarts
    mols = molecules(rng, ck.tier)
    lib = []
    for s in SMARTS_LIB:
        try:
            lib.append((s, smarts(s)))
        except Exception as e:
            ck.count(f'SMARTS of the library rejected: {type(e).__name__}')
    ck.extra['smarts_library'] = len(lib)
    cases, meta = [], []
    hyp_cases = []
    trace_cases, trace_meta = [], []
    n_trace_iter = 0
    seen_mol, seen_q = set(), set()
    mismatches = []
    n_pairs = n_oracle = 0
    per_mol = 5 if ck.tier == 'quick' else 14
    p_hit, p_empty = (.09, .008) if ck.tier == 'quick' else (1, .3)
    sb = synth_bond_mol()
    mols.append(('synthetic-bonds', 'synthetic bond fragments', sb))
    bond_queries = synth_bond_queries()
    mols.append(('synthetic-rings', 'synthetic hetero rings', synth_ring_mol()))
    hetero_ring_queries = synth_ring_queries()
    ring_queries = [(s, smarts(s)) for s in RING_QUERIES]
    from chython import smiles as _smiles
    overflow = {mt: [(qt, smarts(qt)) for qt in qts] for mt, qts in OVERFLOW_PAIRS.items()}
    for mt in OVERFLOW_PAIRS:
        mols.append(('overflow', mt, _smiles(mt)))
    p_poly = .05 if ck.tier == 'quick' else .12
    n_brute = 0
    max_occ_ratio = 0
    for kind, text, m in mols:
        h_none = any(a.implicit_hydrogens is None for a in m._atoms.values())
        if h_none:
            ck.count('molecule with an atom whose implicit_hydrogens is None (raw aromatic heteroatom, valence error)')
        qs = [(s, q) for s, q in rng.sample(lib, min(per_mol, len(lib)))] if kind == 'corpus' else list(lib)
        if kind == 'overflow':
            qs = overflow[text]
        if kind == 'polycycle':
            qs = list(ring_queries)
            for _ in range(1 if ck.tier == 'quick' else 3):
                cq = cycle_query(m, rng)
                if cq is not None:
                    qs.append(('cycle cut from ' + text + ' ' + repr(sorted(cq._atoms)), cq))
        if kind == 'synthetic-rings':
            qs = hetero_ring_queries
        if kind == 'synthetic-bonds':
            qs = bond_queries if ck.tier != 'quick' else bond_queries[::2] + bond_queries[1::4]
        if kind == 'corpus':
            for _ in range(3):
                fq = fragment_query(m, rng)
                qs.append(('fragment of ' + text, fq))
        rm = rmol_term(m)
        for qtext, q in qs:
            res, err = component_runs(q, m, rng, mod, full_only=kind in ('synthetic-bonds', 'synthetic-rings', 'polycycle', 'overflow'))
            if res is None:
                ck.unchecked('encoders raised on a library query / molecule', err, [qtext, text])
                continue
            comps, clo, qbufs, mbuf, runs = res
            if id(m) not in seen_mol:
                seen_mol.add(id(m))
                cases.append(f'enc_mol_ok {rm} {mol_t_term(decode_mol(mbuf, lay))}')
                meta.append(('enc_mol', text, qtext))
                check_layout_mol(ck, m, decode_mol(mbuf, lay), text)
            if (qtext, id(q)) not in seen_q:
                seen_q.add((qtext, id(q)))
                for ci, comp in enumerate(comps):
                    cases.append(f'enc_query_ok {rq_term(comp, clo)} {query_t_term(decode_query(qbufs[ci], lay))}')
                    meta.append(('enc_query', qtext, ci))
            for ci, comp, bits, fast, err, slow, occ, trace in runs:
                qnums = [e[0] for e in comp]
                if err is not None:
                    if not h_none:
                        mismatches.append((qtext, text, q, m, f'accelerated path raised {err}'))
                    continue
                if len(slow) > MAX_MAPPINGS:
                    ck.count('pair skipped: too many mappings')
                    continue
                # the property-level oracle runs on every call; the model is evaluated on a sample of them
                if h_none:
                    # get_mapping never hands such a molecule to the mask path (guard); only the model is compared here
                    ck.count('component call on a molecule with unknown hydrogens: oracle not applicable (guard)')
                elif as_set(fast) != as_set(slow):
                    mismatches.append((qtext, text, q, m, 'different sets of mappings from one component / scope call'))
                n_oracle += not h_none
                if kind == 'polycycle' and len(comps) == 1:
                    # third, independent answer: brute-force enumeration of the induced embeddings
                    want = as_set(brute_induced(q, m))
                    n_brute += 1
                    ck.count('polycycle pair: ' + ('some' if want else 'no') + ' embeddings (brute force)')
                    if as_set(slow) != want or as_set(fast) != want:
                        who = 'accelerated' if as_set(slow) == want else 'reference' if as_set(fast) == want else 'both'
                        mismatches.append((qtext, text, q, m, f'{who} matcher(s) differ from the brute-force enumeration of induced embeddings '
                                                              f'({len(want)} expected, accelerated {len(fast)}, reference {len(slow)})'))
                if kind == 'seed' and rng.random() >= (p_hit if (slow or fast) else p_empty):
                    continue
                if kind == 'polycycle' and rng.random() >= (p_poly * 2 if any(clo.get(e[0]) for e in comp) and (slow or fast) else p_poly / 2):
                    continue
                n_pairs += 1
                if not all(t[5] for t in trace) and not h_none:
                    dirty = next(i for i, t in enumerate(trace) if not t[5])
                    mismatches.append((qtext, text, q, m, f'the closures scratch array of the .pyx is not all zero at the top of iteration {dirty} '
                                                          '(stale entries can be read by a later candidate)'))
                if len(trace) <= 120 and (n_pairs % (4 if ck.tier == 'quick' else 6) == 1 or kind == 'polycycle' and ck.tier == 'quick' and n_pairs % 2):
                    trace_cases.append(f'trace_ok {rq_term(comp, clo)} {rm} {lst(bits, lambda x: b(bool(x)))} ' +
                                       lst([tup(zraw(t[0]), f'{t[1]}%nat', lst(t[2], zraw), lst(t[3], zraw), f'{t[4]}%nat') for t in trace]))
                    trace_meta.append((qtext, text, ci, len(trace)))
                    n_trace_iter += len(trace)
                if n_pairs % (8 if ck.tier == 'quick' else 3) == 0:
                    hyp_cases.append(f'gm_hyps_ok {rq_term(comp, clo)} {rm}')
                cases.append(f'pair_ok {rq_term(comp, clo)} {rm} {lst(bits, lambda x: b(bool(x)))} {maps_term(fast, qnums)} {maps_term(slow, qnums)} {occ[0] if n_pairs % 3 == 0 or ck.tier != "quick" else "(-1)"} {occ[1]} {occ[2]}')
                max_occ_ratio = max(max_occ_ratio, occ[0] / max(1, len(m)))
                meta.append(('pair', qtext, text, ci, sum(bits)))
                ck.case(('pair', qtext, text, ci, tuple(bits)), nontrivial=bool(slow) or bool(fast))
                ck.count(f'search pair: {min(len(slow), 5)}{"+" if len(slow) >= 5 else ""} mappings, {len(comp)} query atoms'
                         if len(comp) <= 3 else f'search pair: {"some" if slow else "no"} mappings, 4+ query atoms')
                ck.count('search pair with ring closures' if any(clo.get(e[0]) for e in comp) else 'search pair without ring closures')
    for qtext, text, q, m, what in mismatches[:10]:
        report_pair(ck, qtext, text, q, m, what)
    ok, failing, log = coqcases.run_cases('c09_srch', 'PyBase', cases, extra=EXTRA, shard=150)
    ck.oblige('correspondence: whole buffers of real molecules / SMARTS == enc_mol / enc_query; transpiled get_mapping == mask_search and '
              '_get_mapping == ref_search as SEQUENCES of mappings (every component / scope call)', ok and not failing, 'correspondence',
              log or str([meta[i] for i in failing[:5]]))
    ck.extra['correspondence_cases_search'] = len(cases)
    # intermediate states: the trace of the transpiled loop (state at the top of every iteration) == the trace of pyx_run
    hook_ok = len(getattr(mod, 'TRACE_HOOKS', [])) == 1
    ck.oblige('the loop of _isomorphism.pyx has exactly one observation point (`n = stack_index[stack]`)', hook_ok, 'translator',
              repr(getattr(mod, 'TRACE_HOOKS', None)))
    okt, ft, logt = coqcases.run_cases('c09_trace', 'PyBase', trace_cases if hook_ok else [], extra=EXTRA, shard=150)
    ck.oblige('correspondence on intermediate states: (popped atom, depth, path, matched flags, stack size) at the top of every iteration of the '
              'transpiled .pyx loop == the trace of pyx_run, the closures scratch array is all zero there, and the fuel counter of the model = the '
              'number of iterations of the real loop (observed n: answer with n + 1, out of fuel with n)', okt and not ft and hook_ok,
              'correspondence', logt or str([trace_meta[i] for i in ft[:5]]))
    ck.extra['trace_cases'] = len(trace_cases)
    ck.extra['trace_iterations_compared'] = n_trace_iter
    if not hook_ok or not okt or ft:
        ck.unchecked('trace correspondence pyx_run vs the transpiled loop', (logt or 'observation point not found')[-1500:],
                     [repr(trace_meta[i]) for i in ft[:20]])
    # how many of the compared calls lie inside the hypotheses of C09_get_mapping_equiv_b (information, not an obligation)
    okh, outside, _ = coqcases.run_cases('c09_hyp', 'PyBase', hyp_cases, extra=EXTRA, shard=200)
    if okh:
        ck.extra['search_pairs_inside_theorem_hypotheses'] = f'{len(hyp_cases) - len(outside)} of {len(hyp_cases)} sampled calls'
    ck.extra['search_pairs'] = n_pairs
    ck.extra['component_scope_calls_compared'] = n_oracle
    ck.extra['polycycle_pairs_vs_brute_force'] = n_brute
    ck.extra['largest_stack_occupancy_over_atoms'] = round(max_occ_ratio, 2)
    if cases:
        k = next((i for i, x in enumerate(meta) if x[0] == 'pair' and 'Some [[' in cases[i]), 0)
        ck.sample({'model_call': cases[k][:600], 'meta': repr(meta[k])})
    if not ok or failing:
        ck.unchecked('correspondence mask_search / ref_search / enc_mol / enc_query vs the real code', log[-1500:],
                     [repr(meta[i]) for i in failing[:20]])
        # directed search: the property on and around the disagreeing pairs (other scopes, automorphism filter off, sub-queries)
        from chython import smiles
        n = 0
        for i in failing[:30]:
            mt = meta[i]
            qtext, text = (mt[1], mt[2]) if mt[0] == 'pair' else (mt[2], mt[1]) if mt[0] == 'enc_mol' else (mt[1], None)
            for kind, t2, m in mols:
                if text is not None and t2 != text:
                    continue
                for s, q in lib:
                    if mt[0] != 'enc_mol' and s != qtext:
                        continue
                    n += 1
                    if n > 400:
                        break
                    for kw in ({}, {'automorphism_filter': False}):
                        fast, slow = both_paths(q, m, **kw)
                        if isinstance(fast, str) or as_set(fast) != as_set(slow):
                            report_pair(ck, s, t2, q, m, 'different mappings (directed search after a model / code disagreement)', kw)
        ck.extra['directed_pairs'] = n
    return ok and not failing


def check_layout_mol(ck, m, dec, text):
    """the slices [from_, to_) of the bond block list the neighbours of each atom in dict order (plain Python check of the buffer)"""
    atoms, bonds = dec
    nums = list(m._atoms)
    pos = {n: i for i, n in enumerate(nums)}
    ok = len(atoms) == len(nums) and all(a[6] == n for a, n in zip(atoms, nums))
    for a, n in zip(atoms, nums):
        ok = ok and [x[1] for x in bonds[a[4]:a[5]]] == [pos[k] for k in m._bonds[n]]
    if not ok:
        ck.unchecked('buffer of _cython_compiled_structure does not list the neighbours of every atom in order', text)


def replay_code(qtext, text, kw):
    tail = f'print(list(q.get_mapping(m, **{kw or {}!r}))); print(list(q.get_mapping(m, _cython=False, **{kw or {}!r})))'
    if text == 'synthetic hetero rings':
        return REPLAY_PRE + f'q = dict(synth_ring_queries())[{qtext!r}]; m = synth_ring_mol(); ' + tail
    if text == 'synthetic bond fragments':
        return REPLAY_PRE + f'q = dict(synth_bond_queries())[{qtext!r}]; m = synth_bond_mol(); ' + tail
    if qtext.startswith(('fragment', 'cycle cut')) or text.startswith('synthetic'):
        return None
    return REPLAY_PRE + f'q = smarts({qtext!r}); m = smiles({text!r}); ' + tail


def report_pair(ck, qtext, text, q, m, what, kw=None):
    fast, slow = both_paths(q, m, **(kw or {}))
    if kw is None and not isinstance(fast, str) and as_set(fast) == as_set(slow):
        # found at the level of one component / scope call: show it on the public API without the automorphism filter if it shows there
        f2, s2 = both_paths(q, m, automorphism_filter=False)
        if isinstance(f2, str) or as_set(f2) != as_set(s2):
            fast, slow, kw = f2, s2, {'automorphism_filter': False}
        else:
            what += ' (the public API call hides it: same result sets there)'
    key = f'stack-overflow:stack_index' if isinstance(fast, str) and 'stack_index' in fast and 'outside the allocation' in fast \
        else f'pair-mismatch:{qtext}:{text}'
    ck.counterexample(key, f'accelerated and reference matcher disagree: {what}', {'query': qtext, 'molecule': text, 'kwargs': kw or {}},
                      {'accelerated': fast if isinstance(fast, str) else sorted(map(sorted, (d.items() for d in fast)))[:5]},
                      {'reference': sorted(map(sorted, (d.items() for d in slow)))[:5]}, 'q.get_mapping(m) vs q.get_mapping(m, _cython=False)',
                      replay_py=replay_code(qtext, text, kw))


# ---------------------------------------------------------------------------------------------------------
# correspondence of the PUBLIC call: wrapper (components x connected components, scope, lazy_product, automorphism filter) + guard

EXTRA_PUB = EXTRA + '''
Fixpoint ins_kv (x : Z * Z) (l : list (Z * Z)) : list (Z * Z) :=
  match l with [] => [x] | y :: r => if fst x <=? fst y then x :: l else y :: ins_kv x r end.
Definition norm_map (m : list (Z * Z)) : list (Z * Z) := fold_right ins_kv [] m.
Definition pub_run (cython : bool) (comps : list (list rqent)) (rm : list ratom) (tcomps : list (list Z)) (flt : bool)
           (scope : option (list Z)) : list (list (Z * Z)) :=
  map norm_map (public_get_mapping2 (fun _ => true) cython comps rm tcomps flt scope FUEL).
Definition pub_ok (comps : list (list rqent)) (rm : list ratom) (tcomps : list (list Z)) (flt : bool) (scope : option (list Z))
           (ofast oslow : list (list (Z * Z))) : bool :=
  list_eqb (list_eqb pair_zz_eqb) (pub_run true comps rm tcomps flt scope) ofast &&
  list_eqb (list_eqb pair_zz_eqb) (pub_run false comps rm tcomps flt scope) oslow.
'''

MULTI_MOLS = ['CC.OO.N', 'C1CCCCC1.C1CCCCC1', '[Na+].[Cl-]', 'CCO.CCN.CC', 'c1ccccc1.CC(=O)O.O', 'C.C.C', 'CCO', 'c1ccncc1.O']
MULTI_QUERIES = ['C.O', 'C.C', 'CC.O', 'N.N.C', '[Na+].[Cl-]', 'C1CC1.C', 'C.C.C', 'O.C.N', 'CC.CC', 'C', 'CC', '[C,N].[O,N]', 'C:C.O',
                 '[N;h0].O', 'CO.CN']


def pub_case(q, m, flt, scope):
    """one public call on both paths + the model term; None when there are too many mappings"""
    kw = {'automorphism_filter': flt}
    if scope is not None:
        kw['searching_scope'] = scope
    fast, slow = both_paths(q, m, **kw)
    if isinstance(fast, str) or len(slow) > MAX_MAPPINGS or len(fast) > MAX_MAPPINGS:
        return fast, slow, None
    comps, clo = q._compiled_query
    obs = lambda maps: lst([lst([tup(zraw(k), zraw(v)) for k, v in sorted(d.items())]) for d in maps])
    term = (f'pub_ok {lst([rq_term(c, clo) for c in comps])} {rmol_term(m)} {lst([lst(list(c), zraw) for c in m.connected_components])} '
            f'{b(flt)} {opt(scope, lambda sc: lst(list(sc), zraw))} {obs(fast)} {obs(slow)}')
    return fast, slow, term


def corr_public(ck, rng):
    from chython import smiles, smarts
    from chython.containers import QueryContainer
    cases, meta = [], []
    queries = [(t, smarts(t)) for t in MULTI_QUERIES] + [('(empty query)', QueryContainer('empty'))]
    todo = []
    for mt in MULTI_MOLS:
        m = smiles(mt)
        nums = list(m._atoms)
        scopes = [None, sorted(rng.sample(nums, max(1, len(nums) * 2 // 3))), []]
        for qt, q in queries:
            for flt in (True, False):
                for sc in scopes:
                    todo.append((qt, q, mt, m, flt, sc))
    lib = []
    for t in SMARTS_LIB:
        try:
            lib.append((t, smarts(t)))
        except Exception:
            pass
    pool = corpus.sample(corpus.lipo(), 25 if ck.tier == 'quick' else 300, ck.seed, 'c09-public')
    for mt in pool:
        try:
            m = smiles(mt)
        except Exception:
            continue
        for qt, q in rng.sample(lib, 3) + [('fragment of ' + mt, fragment_query(m, rng))]:
            sc = rng.choice([None, None, sorted(rng.sample(list(m._atoms), max(1, len(m) // 2)))])
            todo.append((qt, q, mt, m, rng.random() < .5, sc))
    if ck.tier == 'quick':
        todo = [t for i, t in enumerate(todo) if t[2] not in MULTI_MOLS or i % 2 == 0]
    for qt, mt in RING_GUARD_PAIRS:
        todo.append((qt, smarts(qt), mt, smiles(mt), False, None))
    for qt, q, mt, m, flt, sc in todo:
        fast, slow, term = pub_case(q, m, flt, sc)
        if isinstance(fast, str) or as_set(fast) != as_set(slow):
            report_pair(ck, qt, mt, q, m, 'different sets of mappings (public call, wrapper correspondence inputs)',
                        {'automorphism_filter': flt, **({'searching_scope': sc} if sc is not None else {})})
        if term is None:
            continue
        cases.append(term)
        meta.append((qt, mt, flt, sc))
        ck.case(('public', qt, mt, flt, tuple(sc) if sc is not None else None), nontrivial=bool(slow))
        ncomp = len(q._compiled_query[0])
        ck.count(f'public call: {min(ncomp, 3)}{"+" if ncomp >= 3 else ""} query components, '
                 f'{"no scope" if sc is None else "empty scope" if not sc else "scope"}, {"some" if slow else "no"} mappings')
    ok, failing, log = coqcases.run_cases('c09_pub', 'PyBase', cases, extra=EXTRA_PUB, shard=60)
    ck.oblige('correspondence: QueryIsomorphism.get_mapping on both paths (guard, components x connected components, scope, lazy_product, '
              'automorphism filter) == public_get_mapping as sequences of dictionaries', ok and not failing, 'correspondence',
              log or str([meta[i] for i in failing[:5]]))
    ck.extra['correspondence_cases_public'] = len(cases)
    if not ok or failing:
        ck.unchecked('correspondence public_get_mapping vs QueryIsomorphism.get_mapping', log[-1500:], [repr(meta[i]) for i in failing[:20]])
    return ok and not failing


# ---------------------------------------------------------------------------------------------------------
# search: the property on the public API

RING66 = 'C1' + 'C' * 64 + 'C1'
RING6_70 = 'C1CCCC2C1' + 'C' * 68 + '2'
# (query, molecule): ring sizes above 65 on either side and ordinary controls; all of them also go through the public correspondence
RING_GUARD_PAIRS = [('[C;r66]', 'CCC'), ('[C;!R]', RING66), ('[C;r70]', RING6_70), ('[C;r6]', RING6_70), ('[C;r6,r70]', 'C1CCCCC1'),
                    ('[C;r65]', 'CCC'), ('[C;!R]', 'C1CCCCC1C'), ('[M].[C;r66]', '[Na+].CC'), ('C', RING66), ('[C;r6]', 'C1CCCCC1')]

KNOWN_PROBES = [
    ('anymetal-rn', '[M]', '[Rn]', 'AnyMetal mask accepts radon (and Og through the Lv bit); AnyMetal.__eq__ rejects noble gases'),
    ('hydrogens-none', '[N;h0]', 'c1ccncc1', 'implicit_hydrogens None (aromatic heteroatom as parsed, valence error) is encoded as 0 hydrogens'),
    ('query-hydrogens-over-4', '[C;h3,h8]', '[CH3-]', 'query hydrogens 5..14 alias the charge / radical bits'),
    ('query-isotope-offset', '[21C]', 'C', 'query isotope 9 above mdl_isotope lands on the "isotope not specified" bit'),
    ('query-isotope-offset-raises', '[30C]', 'C', 'query isotope >= 10 above (or > 54 below) mdl_isotope: the encoder raises'),
    ('stack-overflow:stack_index', 'C123C45C16C24C356', 'C123C45C16C24C356', 'stack arrays overflow on dense graphs (K5)'),
    ('stack-overflow:stack_index', 'FS(F)(F)(F)(F)F', 'FS(F)(F)(F)(F)F', 'stack arrays overflow when a star-shaped query re-scans one centre (SF6)'),
    # fixed by d9d8bf3 (second guard statement): must agree now, their return is a VIOLATION
    ('ring-size-above-65', '[C;r66]', 'CCC', 'ring sizes above 65 are dropped by both encoders and "only big rings" is encoded as ring-free: a query for a 66-ring matches chain atoms'),
    ('ring-size-above-65', '[C;!R]', RING66, 'ring sizes above 65: the atoms of a 66-membered ring are encoded as ring-free and match !R'),
    ('ring-size-above-65', '[C;r70]', RING6_70, 'ring sizes above 65: an atom in a 6- and a 70-ring loses the 70 and no longer matches r70'),
    ('stack-overflow:stack_index', '[A]([A])([A])([A])([A])([A])[A]', 'F%11.F%12.F%13.F%14.F%15.F%16.S%11%12%13%14%15%16', 'stack arrays overflow (star query on SF6, sulfur last)'),
]


def search(ck, rng, mod):
    from chython import smiles, smarts
    # the guard of get_mapping: the transpiled matcher is entered iff no atom of the molecule has implicit_hydrogens None
    calls = [0]
    real_gm = mod.get_mapping

    def counting(*a):
        calls[0] += 1
        return real_gm(*a)
    guard_cases, guard_meta = [], []
    _qa = smarts('[A]')
    GUARD_Q_ANY = lst([rq_term(c, _qa._compiled_query[1]) for c in _qa._compiled_query[0]])
    # the second guard statement (d9d8bf3): ring sizes above 65 in the molecule or in the query send the call to the reference path
    for qt, mt in RING_GUARD_PAIRS:
        q, m = smarts(qt), smiles(mt)
        calls[0] = 0
        mod.get_mapping = counting
        try:
            list(itertools.islice(q.get_mapping(m), 3))
        finally:
            mod.get_mapping = real_gm
        comps, clo = q._compiled_query
        guard_cases.append(f'Bool.eqb (uses_mask_path2 true {lst([rq_term(c, clo) for c in comps])} {rmol_term(m)}) {b(calls[0] > 0)}')
        guard_meta.append((qt, mt[:40]))
        expect = not (any(r > 65 for a in m._atoms.values() for r in a.ring_sizes) or
                      any(r > 65 for a in q._atoms.values() for r in (getattr(a, 'ring_sizes', None) or ())))
        ck.case(('ring-guard', qt, mt), nontrivial=True)
        ck.count('ring guard: ' + ('mask path' if expect else 'reference path (a ring size above 65)'))
        if (calls[0] > 0) != expect:
            ck.counterexample('ring-size-above-65', 'the bit-mask matcher is entered with a ring size above 65 (or a call without one does not enter it)',
                              {'query': qt, 'molecule': mt}, {'mask path entered': calls[0] > 0}, {'expected': expect}, 'call counter on the transpiled get_mapping',
                              replay_py=REPLAY_PRE + f'q = smarts({qt!r}); m = smiles({mt!r}); print(list(q.get_mapping(m, automorphism_filter=False))); '
                                                     f'print(list(q.get_mapping(m, _cython=False, automorphism_filter=False)))')
    # (1) findings, known and fixed: fixed probes (an entry with status fixed suppresses nothing: its return is a VIOLATION)
    for key, qt, mt, what in KNOWN_PROBES:
        q, m = smarts(qt), smiles(mt)
        fast, slow = both_paths(q, m, automorphism_filter=False)
        ck.case(('probe', key), nontrivial=True)
        if isinstance(fast, str) or as_set(fast) != as_set(slow):
            ck.counterexample(key, what, {'query': qt, 'molecule': mt}, {'accelerated': fast if isinstance(fast, str) else len(fast)},
                              {'reference': len(slow)}, 'q.get_mapping(m) vs q.get_mapping(m, _cython=False)',
                              replay_py=REPLAY_PRE + f'q = smarts({qt!r}); m = smiles({mt!r}); print(list(q.get_mapping(m, automorphism_filter=False))); '
                                                     f'print(list(q.get_mapping(m, _cython=False, automorphism_filter=False)))')
    # (2) corpus molecules x SMARTS library + fragment queries through the public API (components, scopes, automorphism filter,
    #     stereo post-filter included)
    lib = []
    for s in SMARTS_LIB:
        try:
            lib.append((s, smarts(s)))
        except Exception:
            pass
    pool = corpus.sample(corpus.lipo(), 150 if ck.tier == 'quick' else 2500, ck.seed, 'c09-search')
    n_eval = n_hit = 0
    for s in pool:
        try:
            m = smiles(s)
        except Exception:
            continue
        if rng.random() < .5:
            try:
                m.kekule()
                m.thiele()
            except Exception:
                pass
        h_none = any(a.implicit_hydrogens is None for a in m._atoms.values())
        ck.count('api search: molecule ' + ('with' if h_none else 'without') + ' unknown hydrogens')
        if len(guard_cases) < (60 if ck.tier == 'quick' else 400):
            calls[0] = 0
            mod.get_mapping = counting
            try:
                list(itertools.islice(smarts('[A]').get_mapping(m), 3))
            finally:
                mod.get_mapping = real_gm
            guard_cases.append(f'Bool.eqb (uses_mask_path2 true {GUARD_Q_ANY} {rmol_term(m)}) {b(calls[0] > 0)}')
            guard_meta.append(s)
            big = any(r > 65 for a in m._atoms.values() for r in a.ring_sizes)
            if (calls[0] > 0) != (not h_none and not big):
                ck.counterexample('hydrogens-none', 'a molecule with an unknown hydrogen count reaches the bit-mask matcher (or a complete one does not)',
                                  {'molecule': s}, {'mask path entered': calls[0] > 0}, {'expected': not h_none}, 'call counter on the transpiled get_mapping')
        qs = rng.sample(lib, 8 if ck.tier == 'quick' else 25) + [('fragment', fragment_query(m, rng)) for _ in range(3)]
        for qt, q in qs:
            kw = rng.choice([{}, {}, {'automorphism_filter': False}, {'searching_scope': rng.sample(list(m._atoms), max(1, len(m) * 2 // 3))}])
            fast, slow = both_paths(q, m, **kw)
            if len(slow) > MAX_MAPPINGS:
                continue
            n_eval += 1
            n_hit += bool(slow)
            ck.case(('api', qt if qt != 'fragment' else str(q._atoms), s, tuple(sorted(kw))), nontrivial=bool(slow))
            ck.count('api search: ' + ('some mappings' if slow else 'no mapping') + (', ' + ','.join(kw) if kw else ''))
            if isinstance(fast, str) or as_set(fast) != as_set(slow):
                report_pair(ck, qt if qt != 'fragment' else 'fragment ' + repr(q._atoms), s, q, m, 'different sets of mappings (public API)', kw)
    # (3) small dense polycycles x ring queries through the public API (both settings of the automorphism filter)
    fam = polycycles()
    rq = [(t, smarts(t)) for t in RING_QUERIES]
    for n, r, t in rng.sample(fam, 40 if ck.tier == 'quick' else len(fam)):
        m = smiles(t)
        for qt, q in rq:
            kw = rng.choice([{}, {'automorphism_filter': False}])
            fast, slow = both_paths(q, m, **kw)
            n_eval += 1
            n_hit += bool(slow)
            ck.case(('api-poly', qt, t, tuple(kw)), nontrivial=bool(slow))
            ck.count('api search (polycycles): ' + ('some mappings' if slow else 'no mapping'))
            if isinstance(fast, str) or as_set(fast) != as_set(slow):
                report_pair(ck, qt, t, q, m, 'different sets of mappings (public API, dense polycycle)', kw)
    okg, fg, logg = coqcases.run_cases('c09_guard', 'PyBase', guard_cases, extra=EXTRA, shard=30)
    ck.oblige('correspondence: the guard of QueryIsomorphism.get_mapping (mask path entered iff no hydrogen count is None and no ring size above 65 in molecule / query) == uses_mask_path2',
              okg and not fg, 'correspondence', logg or str([guard_meta[i] for i in fg[:5]]))
    if not okg or fg:
        ck.unchecked('correspondence uses_mask_path vs the guard of get_mapping', logg[-1000:], [guard_meta[i] for i in fg[:10]])
    ck.extra['api_pairs'] = n_eval
    ck.extra['api_pairs_with_mappings'] = n_hit


# ---------------------------------------------------------------------------------------------------------

def run(ck):
    ck.trusted += ['transpiler harness/iso_pyx.py (line oriented, fail closed; C memory model: packed structs as struct views, '
                   '32/64-bit wrapping stores, PyMem_Malloc arrays as bounded poison cells)',
                   'translator tools/gen_elements.py (mdl_isotope, is_forming_single_bonds, group of every element)',
                   'correspondence runner harness/checks/C09.py + harness/coqcases.py', 'CachedMethods shim harness/boot.py',
                   'CPython 3.12.1']
    ck.assumptions += ['the claim is about chython/algorithms/_isomorphism.pyx as SOURCE, executed through the transpiler; the compiled '
                       'extension cannot be built in this environment',
                       'coq/model/IsoBits.v is a hand-written restatement of isomorphism.py (the two encoders, _get_mapping), of '
                       'the .pyx loop and of the __eq__ methods; tie = byte-exact / sequence-exact correspondence',
                       'the wrapper Isomorphism._get_mapping (components x connected components, scopes, automorphism filter) and the '
                       'stereo post-filter are shared by both paths and not modelled here (C07); they are exercised by the API search']
    ck.extra['rule'] = ('correspondence (a): synthetic atoms sweeping every field of the layout (elements 1-118, every tabulated isotope, '
                        'charge, radical, H None/0-6, neighbours/heteroatoms 0-16, hybridisation, ring sizes 3-1000, tuples) and synthetic '
                        'query atoms (every class, every primitive value, subsets); pairs = same varied field + random; non-trivial = one of the '
                        'two paths matches. (b): seed molecules x the whole SMARTS library and corpus molecules x sampled SMARTS + fragment '
                        'queries, every component / scope call; non-trivial = at least one mapping. search: public API on corpus molecules.')
    import time
    t0 = time.time()
    proved = common.standard_proof_steps(ck, translators=['elements', 'isoclosure', 'isoguard', 'isocand', 'isorefcand', 'isodescend', 'isoyield', 'isoinit'])
    ck.extra['phase_s'] = {'proof': round(time.time() - t0, 1)}
    rng = random.Random(ck.seed * 7919 + 9)
    try:
        mod = iso_pyx.inject()
        lay = iso_pyx.layout()
    except iso_pyx.Unsupported as e:
        ck.oblige('transpilation of _isomorphism.pyx', False, 'translator', str(e))
        ck.unchecked('transpiler iso_pyx', f'tie-broken: {e}')
        # the reference path still runs: nothing to compare it with
        return
    ck.oblige('transpilation of _isomorphism.pyx (every line recognised)', True, 'translator')
    from chython.algorithms import isomorphism as iso
    lay_ok = (lay['atom_t'][1] == iso.m_atom_struct.size and lay['q_atom_t'][1] == iso.q_atom_struct.size and
              lay['bond_t'][1] == iso.bond_struct.size and lay['atom_t'][0][1:] == iso.m_atom_struct.format and
              lay['q_atom_t'][0][1:] == iso.q_atom_struct.format and lay['bond_t'][0][1:] == iso.bond_struct.format and
              iso.header_struct.format == 'I')
    ck.oblige('packed structs of the .pyx and the struct formats of isomorphism.py describe the same records', lay_ok, 'layout',
              f'{lay} vs {iso.m_atom_struct.format} {iso.q_atom_struct.format} {iso.bond_struct.format}')
    if not lay_ok:
        ck.unchecked('record layouts of isomorphism.py and _isomorphism.pyx differ', repr(lay))
    t0 = time.time()
    tied1 = corr_atoms(ck, rng, mod, lay)
    ck.extra['phase_s']['correspondence_atoms'] = round(time.time() - t0, 1)
    t0 = time.time()
    tied2 = corr_pairs(ck, rng, mod, lay)
    ck.extra['phase_s']['correspondence_search'] = round(time.time() - t0, 1)
    t0 = time.time()
    tied3 = corr_public(ck, rng)
    ck.extra['phase_s']['correspondence_public'] = round(time.time() - t0, 1)
    t0 = time.time()
    search(ck, rng, mod)
    ck.extra['phase_s']['api_search'] = round(time.time() - t0, 1)
    ck.extra['proved'] = proved
    ck.extra['tied'] = bool(tied1 and tied2 and tied3)
