"""C02 SMILES write -> read is lossless; canonical strings never collide.
Model: coq/model/Writer.v (the writer: traversal, closure numbers, atom / bond tokens, cis-trans marks; the tokenizer and
the bracket-atom matcher of the reader).  Theorems: coq/proofs/Writer*Proofs.v, restated in coq/props/C02.v.
Correspondence: the real `_smiles` (list of strings + order), `format(mol, spec)` / `str(mol)` and `smiles_atoms_order`
against the model with the real weights as `w` and the observed order as tie-break `tb`; `_tokenize` / `_atom_parse`
against their models.  Search: write -> read -> compare along the written order (no canoniser), RDKit, injectivity."""
import concurrent.futures as cf
import itertools
import random
import re

import boot  # noqa
import common
import coqcases
import corpus
from coqfmt import zraw, b, lst, opt, tup, s as cs
from coqmol import mol_term

replay = common.generic_replay

SPECS_QUICK = ['', 'a', 'A', 'm', 'h', '!s', 'r', 'aAmh', 'A!s', 'ar', 'mh!sr', '!b', '!z', '!x', 'Ar']
FLAGS = ['a', 'A', 'm', 'h', '!s', 'r', '!b', '!z', '!x']


def all_specs():
    out = []
    for k in range(len(FLAGS) + 1):
        for c in itertools.combinations(FLAGS, k):
            out.append(''.join(c))
    return out


# ---------------------------------------------------------------------------------------------------------
# printing the inputs of the model

def kwargs_of(spec):
    """what Smiles.__format__ passes to _smiles for this spec (replicated here only to obtain the LIST of strings; the
    text itself always comes from the real format())"""
    kw = {}
    if 'a' in spec:
        kw['asymmetric_closures'] = True
    if '!s' in spec:
        kw['stereo'] = False
    if 'A' in spec:
        kw['aromatic'] = False
    if 'm' in spec:
        kw['mapping'] = True
    if 'h' in spec:
        kw['hydrogens'] = True
    if '!b' in spec:
        kw['bonds'] = False
    if '!z' in spec:
        kw['charges'] = False
    if 'r' in spec:
        kw['random'] = True
    return kw


def env_term(e):
    return f'({zraw(e[0])}, {zraw(e[1])}, {opt(e[2], zraw)}, {opt(e[3], zraw)})'


def pair_term(p):
    return f'({zraw(p[0])}, {zraw(p[1])})'


def has_stereo(m):
    return any(a.stereo is not None for _, a in m.atoms()) or any(bd.stereo is not None for *_, bd in m.bonds())


def tabs_term(m):
    if not has_stereo(m):
        return 'no_stabs'
    return ('(mkStabs ' +
            lst([tup(zraw(n), lst(list(v), zraw)) for n, v in m.stereogenic_tetrahedrons.items()]) + ' ' +
            lst([tup(zraw(n), env_term(v)) for n, v in m.stereogenic_allenes.items()]) + ' ' +
            lst([tup(zraw(n), pair_term(v)) for n, v in m._stereo_allenes_terminals.items()]) + ' ' +
            lst([tup(pair_term(k), env_term(v)) for k, v in m.stereogenic_cis_trans.items()]) + ' ' +
            lst([tup(zraw(n), pair_term(v)) for n, v in m._stereo_cis_trans_centers.items()]) + ' ' +
            lst([tup(zraw(n), pair_term(v)) for n, v in m._stereo_cis_trans_terminals.items()]) + ' ' +
            lst([tup(zraw(n), zraw(v)) for n, v in m._stereo_cis_trans_counterpart.items()]) + ')')


def zmap_term(d):
    return lst([tup(zraw(k), zraw(v)) for k, v in d.items()])


def observe(m, spec, seed):
    """run the real writer: returns dict(strings, order, text, w) ; the three calls see the same random numbers"""
    kw = kwargs_of(spec)
    if 'r' in spec:
        w = {n: 0 for n in m._atoms}
        random.seed(seed)
        strings, order = m._smiles(lambda _: random.random(), _return_order=True, **kw)
        random.seed(seed)
        text = format(m, spec)
        random.seed(seed)
        joined, order2 = m.__format__(spec, _return_order=True)
    else:
        wf = m._smiles_order('!s' not in spec)
        w = {n: wf(n) for n in m._atoms}
        strings, order = m._smiles(wf, _return_order=True, **kw)
        text = format(m, spec)
        if spec:
            joined, order2 = m.__format__(spec, _return_order=True)
        else:
            joined, order2 = ''.join(strings), list(m.smiles_atoms_order)
    return {'strings': list(strings), 'order': list(order), 'text': text, 'w': w, 'joined': joined, 'order2': list(order2)}


def case_term(mname, tname, spec, ob):
    tbm = {n: i for i, n in enumerate(ob['order'])}
    return (f'smiles_case {mname} {zmap_term(ob["w"])} {zmap_term(tbm)} (opts_of_spec {cs(spec)}) {tname} '
            f'{lst(ob["strings"], cs)} {lst(ob["order"], zraw)} {cs(ob["text"])}')


def run_shards(name, shards, timeout=900):
    """shards: list of (definitions_text, [case_expr]) ; returns (ok, failing (shard, index) list, log)"""
    def one(k):
        defs, cases = shards[k]
        body = ';\n'.join(f'({i}%nat, {c})' for i, c in enumerate(cases))
        text = coqcases.HEADER.format(imports='Graph Writer', extra='Import ListNotations.\nOpen Scope Z_scope.\n' + defs, body=body)
        ok, out = common.coq_eval(f'{name}_{k}', text, timeout)
        if not ok:
            return k, None, out
        flat = out.replace('\n', ' ')
        mm = re.search(r'=\s*(\[[^\]]*\]|nil)\s*:\s*list nat', flat)
        if not mm:
            return k, None, out
        bd = mm.group(1).strip('[]')
        idx = [int(x.replace('%nat', '').strip()) for x in bd.split(';') if x.strip()] if bd != 'nil' else []
        return k, idx, out
    failing, logs, ok_all = [], [], True
    with cf.ThreadPoolExecutor(max_workers=8) as ex:
        for k, idx, out in ex.map(one, range(len(shards))):
            if idx is None:
                ok_all = False
                logs.append(out[-2000:])
            else:
                failing.extend((k, i) for i in idx)
    return ok_all, failing, '\n'.join(logs)
