"""C02 SMILES write -> read is lossless; canonical strings never collide.
Model: coq/model/Writer.v (the writer: traversal, closure numbers, atom / bond tokens, cis-trans marks; the tokenizer and
the bracket-atom matcher of the reader).  Theorems: coq/proofs/WriterProofs*.v, restated in coq/props/C02.v.
Correspondence: the real `_smiles` (list of strings + order), `format(mol, spec)` / `str(mol)` and `smiles_atoms_order`
against the model with the real weights as `w` and the observed order as tie-break `tb`; `_tokenize` / `_atom_parse`
against their models.  Search: write -> read -> compare along the written order (no canoniser), RDKit, injectivity."""
import concurrent.futures as cf
import itertools
import random
import re

import boot  # noqa
import common
import coqcases
import corpus
from coqfmt import zraw, b, lst, opt, tup, s as cs
from coqmol import mol_term

replay = common.generic_replay

SPECS_QUICK = ['', 'a', 'A', 'm', 'h', '!s', 'r', 'aAmh', 'A!s', 'ar', 'mh!sr', '!b', '!z', '!x', 'Ar']
FLAGS = ['a', 'A', 'm', 'h', '!s', 'r', '!b', '!z', '!x']
WRITTEN_TEXTS = []
UNREADABLE_SPECIAL = []
ORIGIN = {}          # written text (without the CXSMILES block) -> (name, molecule, spec, text, written order)


def all_specs():
    out = []
    for k in range(len(FLAGS) + 1):
        for c in itertools.combinations(FLAGS, k):
            out.append(''.join(c))
    return out


# ---------------------------------------------------------------------------------------------------------
# printing the inputs of the model

def kwargs_of(spec):
    """what Smiles.__format__ passes to _smiles for this spec (replicated here only to obtain the LIST of strings; the
    text itself always comes from the real format())"""
    kw = {}
    if 'a' in spec:
        kw['asymmetric_closures'] = True
    if '!s' in spec:
        kw['stereo'] = False
    if 'A' in spec:
        kw['aromatic'] = False
    if 'm' in spec:
        kw['mapping'] = True
    if 'h' in spec:
        kw['hydrogens'] = True
    if '!b' in spec:
        kw['bonds'] = False
    if '!z' in spec:
        kw['charges'] = False
    if 'r' in spec:
        kw['random'] = True
    return kw


def env_term(e):
    return f'({zraw(e[0])}, {zraw(e[1])}, {opt(e[2], zraw)}, {opt(e[3], zraw)})'


def pair_term(p):
    return f'({zraw(p[0])}, {zraw(p[1])})'


def has_stereo(m):
    return any(a.stereo is not None for _, a in m.atoms()) or any(bd.stereo is not None for *_, bd in m.bonds())


def tabs_term(m):
    if not has_stereo(m):
        return 'no_stabs'
    return ('(mkStabs ' +
            lst([tup(zraw(n), lst(list(v), zraw)) for n, v in m.stereogenic_tetrahedrons.items()]) + ' ' +
            lst([tup(zraw(n), env_term(v)) for n, v in m.stereogenic_allenes.items()]) + ' ' +
            lst([tup(zraw(n), pair_term(v)) for n, v in m._stereo_allenes_terminals.items()]) + ' ' +
            lst([tup(pair_term(k), env_term(v)) for k, v in m.stereogenic_cis_trans.items()]) + ' ' +
            lst([tup(zraw(n), pair_term(v)) for n, v in m._stereo_cis_trans_centers.items()]) + ' ' +
            lst([tup(zraw(n), pair_term(v)) for n, v in m._stereo_cis_trans_terminals.items()]) + ' ' +
            lst([tup(zraw(n), zraw(v)) for n, v in m._stereo_cis_trans_counterpart.items()]) + ')')


def zmap_term(d):
    return lst([tup(zraw(k), zraw(v)) for k, v in d.items()])


MID_LOCALS = ('smiles', 'edges', 'tokens', 'casted_cycles', 'visited', 'seen')


def traced_smiles(m, wf, kw):
    """m._smiles(wf, _return_order=True, **kw) with the local variables of _smiles at its return (sys.settrace on that one code
    object; no line events)"""
    import sys
    code = type(m)._smiles.__code__
    cap = {}

    def local(frame, event, arg):
        if event == 'return':
            loc = frame.f_locals
            for k in MID_LOCALS:
                if k in loc:
                    cap[k] = loc[k]
        return local

    def tracer(frame, event, arg):
        if frame.f_code is code:
            frame.f_trace_lines = False
            return local
        return None
    old = sys.gettrace()
    sys.settrace(tracer)
    try:
        strings, order = m._smiles(wf, _return_order=True, **kw)
    finally:
        sys.settrace(old)
    return strings, order, cap


def mid_term(mname, wname, spec, ob):
    """wmid case of a connected molecule, or None"""
    cap = ob.get('mid')
    if not cap or any(k not in cap for k in MID_LOCALS) or '.' in ob['strings']:
        return None

    def tk(x):
        if isinstance(x, int):
            return f'A{x}'
        if isinstance(x, tuple):
            return f'B{x[0]}.{x[1]}'
        return x
    smi = ','.join(tk(x) for x in cap['smiles'])
    edges = ','.join(f'{p}:{".".join(map(str, c))}' for p, c in cap['edges'].items())
    # the cycle identifiers (the counter `cycle`) depend on the order in which equal-key neighbours are met (set / dict iteration
    # order; the model has the written order as tie-break, which fixes the tree and the numbers but not the identifiers): compared
    # with the identifier replaced by its number, atoms sorted
    cc = cap['casted_cycles']
    tokens = ','.join(f'{a}:{".".join(f"{x}/{cc[c]}" for x, c in cap["tokens"][a])}' for a in sorted(cap['tokens']))
    casted = '.'.join(map(str, sorted(cc.values())))
    visited = ','.join(f'{a}:{".".join(map(str, v))}' for a, v in cap['visited'].items() if a != 'cache')   # 'cache': the ct_map
    seen = ','.join(f'{a}:{d}' for a, d in sorted(cap['seen'].items()))
    return (f'wmid {mname} {wname} {cs(spec)} {lst(ob["order"], zraw)} {cs(smi)} {cs(edges)} {cs(tokens)} {cs(casted)} '
            f'{cs(visited)} {cs(seen)}')


def ct_term(mname, wname, tname, spec, ob):
    """wct case of a connected molecule: the dictionary __ct_map returned (adjacency['cache'] at the return of _smiles), its
    pair-keyed entries (the marks) and its atom-keyed entries (the bookkeeping), each in insertion order; None when the writer
    never asked for it"""
    cap = ob.get('mid')
    if not cap or 'visited' not in cap or '.' in ob['strings'] or 'cache' not in cap['visited']:
        return None
    cache = cap['visited']['cache']
    pm = ','.join(f'{k[0]}.{k[1]}:{int(v)}' for k, v in cache.items() if isinstance(k, tuple))
    im = ','.join(f'{k}:{v}' for k, v in cache.items() if not isinstance(k, tuple))
    return f'wct {mname} {wname} {cs(spec)} {tname} {lst(ob["order"], zraw)} {cs(pm)} {cs(im)}'


def observe(m, spec, seed):
    """run the real writer: returns dict(strings, order, text, w) ; the three calls see the same random numbers"""
    kw = kwargs_of(spec)
    if 'r' in spec:
        w = {n: 0 for n in m._atoms}
        random.seed(seed)
        strings, order, mid = traced_smiles(m, lambda _: random.random(), kw)
        random.seed(seed)
        text = format(m, spec)
        random.seed(seed)
        joined, order2 = m.__format__(spec, _return_order=True)
        # random weights are distinct: the order in which they sort the atoms is the observed one (the bond-order component of the
        # children key never decides in this mode), so the model gets the written position as weight
        w = {n: i for i, n in enumerate(order)}
    else:
        wf = m._smiles_order('!s' not in spec)
        w = {n: wf(n) for n in m._atoms}
        strings, order, mid = traced_smiles(m, wf, kw)
        text = format(m, spec)
        if spec:
            joined, order2 = m.__format__(spec, _return_order=True)
        else:
            joined, order2 = ''.join(strings), list(m.smiles_atoms_order)
            # the other first accesses on fresh copies: the written order asked for first / __format__('', _return_order=True) first;
            # whatever is cached then must be the text and order of this run
            c1, c2 = m.copy(), m.copy()
            o1 = list(c1.smiles_atoms_order)
            j2, o2 = c2.__format__('', _return_order=True)
            if (str(c1), o1, str(c2), list(o2), list(c2.smiles_atoms_order), j2) != (text, order2, text, order2, order2, joined):
                order2 = ['entry points disagree after another first access', str(c1), o1, str(c2), list(o2), j2]
    return {'strings': list(strings), 'order': list(order), 'text': text, 'w': w, 'joined': joined, 'order2': list(order2), 'mid': mid}




COQ_EXTRA = r'''From Coq Require Import FMapPositive.
From Gen Require Import Elements SmilesTables.
From Proofs Require Import WriterProofsTokens WriterProofsStream WriterProofsClosures WriterWfAtoms WriterWfStream.
Import ListNotations.
Open Scope Z_scope.
(* the input functions w and tb are finite tables; they are looked up through a binary trie built once per case (the model calls
   them O(n^3) times per molecule) *)
Definition zkey (n : Z) : positive := Z.to_pos (n + 1).
Definition mk_map (l : list (Z * Z)) : PositiveMap.t Z :=
  fold_left (fun t kv => PositiveMap.add (zkey (fst kv)) (snd kv) t) (rev l) (PositiveMap.empty Z).
Definition wfun (w : list (Z * Z)) : Z -> Z :=
  let t := mk_map w in fun n => match PositiveMap.find (zkey n) t with Some x => x | None => 0 end.
Definition tbfun (order : list Z) : Z -> Z := wfun (combine order (zrange 0 (Z.of_nat (List.length order)))).
(* one run of the writer model: the Python list `string`, `order`, and the text of format()/str() *)
Definition wcase (g : mol) (w : list (Z * Z)) (spec : string) (tabs : stabs)
                 (strings : string) (order : list Z) (suffix : string) : bool :=
  let o := opts_of_spec spec in
  match smiles_tokens g (wfun w) (tbfun order) o tabs with
  | Ok (Some (out, ord)) =>
      String.eqb (String.concat "," (map spell_otok out)) strings && zlist_eqb ord order &&
      String.eqb (match (if o_cx o then format_cxsmiles g ord else None) with
                  | Some cx => scat [" "%string; cx]
                  | None => EmptyString
                  end) suffix &&
      (* the verified checker of C02_writer_text_tokenizes accepts the model's output *)
      stream_ok out
  | _ => false
  end.
(* additionally: the closure lists of the first component satisfy the hypothesis of C02_closure_numbers_consistent *)
Definition wcase_ev (g : mol) (w : list (Z * Z)) (spec : string) (tabs : stabs)
                 (strings : string) (order : list Z) (suffix : string) (writable : bool) : bool :=
  wcase g w spec tabs strings order suffix && events_ok g (wfun w) (tbfun order) (opts_of_spec spec) &&
  (* the hypothesis of C02_writer_stream_ok, as the harness sees it on the live molecule *)
  Bool.eqb (atoms_writable_b g (opts_of_spec spec)) writable.
(* the same through Writer.smiles_text / smiles_strings (the definitions the theorems speak about) *)
Definition wcase_full (g : mol) (w : list (Z * Z)) (spec : string) (tabs : stabs)
                 (strings : string) (order : list Z) (suffix : string) : bool :=
  let o := opts_of_spec spec in
  match smiles_strings g (wfun w) (tbfun order) o tabs, smiles_text g (wfun w) (tbfun order) o tabs with
  | Ok (ss, ord), Ok (txt, ord') =>
      String.eqb (String.concat "," ss) strings && zlist_eqb ord order && zlist_eqb ord' order &&
      String.eqb txt (scat [scat ss; suffix])
  | _, _ => false
  end.
(* intermediate states of Smiles._smiles for a connected molecule (extension round 3): the local variables at its return -
   `smiles` (the flattened list), `edges`, `tokens` (sorted by number; cycle identifier replaced by its number), the numbers of `casted_cycles`, `visited` (with the neighbour order for the
   stereo signs), `seen` (BFS labels) - against traverse / flatten / number_atoms / order_neighbours of the model: the values the
   theorems C02_flatten_*, C02_traverse_*, C02_closure_numbers_*, C02_written_*_parsed quantify over *)
Definition show_zl (l : list Z) : string := String.concat "." (map str_Z l).
Definition show_tok (t : tok) : string :=
  match t with
  | TAtom n => scat ["A"%string; str_Z n]
  | TOpen => "("%string
  | TClose => ")"%string
  | TBond p c => scat ["B"%string; str_Z p; "."%string; str_Z c]
  end.
Definition show_adj (l : list (Z * list Z)) : string :=
  String.concat "," (map (fun kv => scat [str_Z (fst kv); ":"%string; show_zl (snd kv)]) l).
Definition show_pairs (l : list (Z * Z)) : string :=
  String.concat "," (map (fun kv => scat [str_Z (fst kv); ":"%string; str_Z (snd kv)]) l).
Definition show_tokens (l : list (Z * list (Z * Z))) : string :=
  String.concat "," (map (fun kv => scat [str_Z (fst kv); ":"%string;
     String.concat "." (map (fun mc : Z * Z => scat [str_Z (fst mc); "/"%string; str_Z (snd mc)]) (snd kv))]) l).
Definition wmid (g : mol) (w : list (Z * Z)) (spec : string) (order : list Z)
                (smi edges tokens casted visited seen : string) : bool :=
  let o := opts_of_spec spec in
  match traverse g (wfun w) (tbfun order) o (ids g) (init_state g) with
  | Ok t =>
      match flatten g t with
      | Ok s =>
          let d := tr_dfs t in
          let ro := ring_positions (ds_tokens d) s 0 in
          match number_atoms (ds_tokens d) ro ro [] (zrange heap_lo heap_hi) with
          | Ok (cst, _) =>
              let '(tk, vis) := order_neighbours s cst (ds_edges d) (ds_tokens d) (ds_visited d) in
              String.eqb (String.concat "," (map show_tok s)) smi && String.eqb (show_adj (ds_edges d)) edges &&
              String.eqb (show_tokens (sort_by (fun kv : Z * list (Z * Z) => [fst kv])
                                        (map (fun kv : Z * list (Z * Z) => (fst kv, map (fun mc : Z * Z => (fst mc, casted_of cst (snd mc))) (snd kv))) tk)))
                         tokens &&
              String.eqb (show_zl (sort_by (fun k : Z => [k]) (map snd cst))) casted && String.eqb (show_adj vis) visited &&
              String.eqb (show_pairs (sort_by (fun kv : Z * Z => [fst kv]) (tr_seen t))) seen
          | Err _ => false
          end
      | Err _ => false
      end
  | Err _ => false
  end.
(* the dictionary returned by __ct_map for the component (round 4): marks and bookkeeping entries in insertion order *)
Definition show_pm (l : list ((Z * Z) * bool)) : string :=
  String.concat "," (map (fun e : (Z * Z) * bool => scat [str_Z (fst (fst e)); "."%string; str_Z (snd (fst e)); ":"%string;
                                                          if snd e then "1"%string else "0"%string]) l).
Definition wct (g : mol) (w : list (Z * Z)) (spec : string) (tabs : stabs) (order : list Z) (pm im : string) : bool :=
  let o := opts_of_spec spec in
  match traverse g (wfun w) (tbfun order) o (ids g) (init_state g) with
  | Ok t =>
      match flatten g t with
      | Ok s =>
          let d := tr_dfs t in
          let ro := ring_positions (ds_tokens d) s 0 in
          match number_atoms (ds_tokens d) ro ro [] (zrange heap_lo heap_hi) with
          | Ok (cst, _) =>
              let '(tk, vis) := order_neighbours s cst (ds_edges d) (ds_tokens d) (ds_visited d) in
              match ct_map g tabs vis, fold_left (ct_outer g tabs) vis (Ok (mkCt [] [] [] [])) with
              | Ok cm, Ok st => String.eqb (show_pm cm) pm && String.eqb (show_pairs (ct_im st)) im
              | _, _ => false
              end
          | Err _ => false
          end
      | Err _ => false
      end
  | Err _ => false
  end.
Definition wcase_err (g : mol) (spec : string) (e : pyexn) : bool :=
  match smiles_text g (fun _ => 0) (fun _ => 0) (opts_of_spec spec) no_stabs with Err e' => pyexn_eqb e e' | Ok _ => false end.
Definition tkcase (s : string) (r : pyres (list rtok)) : bool := pyres_eqb (list_eqb rtok_eqb) (tokenize s) r.
Definition apcase (s : string) (r : pyres parsed) : bool := pyres_eqb parsed_eqb (atom_parse s) r.
Definition P := mkParsed.
'''


def observe_custom(m, w, spec):
    """the real _smiles with caller-supplied weights (the traversal is the same code for every weight function; the random
    writer and sticky_smiles use it this way), text assembled as __format__ does"""
    kw = kwargs_of(spec)
    kw.pop('random', None)
    strings, order, mid = traced_smiles(m, w.__getitem__, kw)
    cx = None if '!x' in spec else m._format_cxsmiles(order)
    joined = ''.join(strings)
    return {'strings': list(strings), 'order': list(order), 'text': joined + (' ' + cx if cx else ''), 'w': dict(w), 'joined': joined, 'mid': mid,
            'order2': list(order)}


def weight_recipes(m, rng):
    """weight functions other than the canonical ones: the atom numbers themselves (follows the numbering: for a ladder numbered
    along its rails all rungs are open at once), a random injective assignment, a random assignment with many ties, all equal"""
    nums = list(m._atoms)
    perm = nums[:]
    rng.shuffle(perm)
    return [('numbers', {n: n for n in nums}), ('injective', dict(zip(nums, perm))),
            ('ties', {n: rng.randrange(3) for n in nums}), ('constant', {n: 0 for n in nums})]


def writable(m, spec):
    """the hypothesis atoms_writable of C02_writer_stream_ok, computed on the live molecule"""
    for n, a in m.atoms():
        if a.isotope is not None and not 0 <= a.isotope <= 999:
            return False
        if a.implicit_hydrogens is not None and not 0 <= a.implicit_hydrogens <= 4:
            return False
        if 'A' not in spec and a.hybridization == 4 and a.atomic_symbol not in AROMATIC_READABLE:
            return False
        if 'm' in spec and not 0 <= n <= 9999:
            return False
    return True


def case_term(mname, wname, tname, spec, ob, full=False, ev=False, m=None):
    ev = ev and m is not None and not full
    return (f'{"wcase_full" if full else ("wcase_ev" if ev else "wcase")} {mname} {wname} {cs(spec)} {tname} '
            f'{cs(",".join(ob["strings"]))} {lst(ob["order"], zraw)} {cs(ob["text"][len(ob["joined"]):])}' +
            (f' {b(writable(m, spec))}' if ev else ''))


def run_shards(name, shards, timeout=900):
    """shards: list of (definitions_text, [case_expr]) ; returns (ok, failing (shard, index) list, log)"""
    def one(k):
        defs, cases = shards[k]
        body = ';\n'.join(f'({i}%nat, {c})' for i, c in enumerate(cases))
        text = coqcases.HEADER.format(imports='Graph PeriodicTable Stereo Writer', extra=COQ_EXTRA + defs, body=body)
        ok, out = common.coq_eval(f'{name}_{k}', text, timeout)
        if not ok:
            return k, None, out
        flat = out.replace('\n', ' ')
        mm = re.search(r'=\s*(\[[^\]]*\]|nil)\s*:\s*list nat', flat)
        if not mm:
            return k, None, out
        bd = mm.group(1).strip('[]')
        idx = [int(x.replace('%nat', '').strip()) for x in bd.split(';') if x.strip()] if bd != 'nil' else []
        return k, idx, out
    failing, logs, ok_all = [], [], True
    with cf.ThreadPoolExecutor(max_workers=4) as ex:
        for k, idx, out in ex.map(one, range(len(shards))):
            if idx is None:
                ok_all = False
                logs.append(out[-2000:])
            else:
                failing.extend((k, i) for i in idx)
    return ok_all, failing, '\n'.join(logs)


# ---------------------------------------------------------------------------------------------------------
# molecules

SPECIAL = [
    # plain / branches / rings / many closures
    'C', 'CC', 'CCO', 'CC(C)C', 'CC(C)(C)C', 'C1CC1', 'C1CC1C', 'C12C3C4C1C5C2C3C45', 'C1CC2CCC1CC2', 'C1CCC2(CC1)CCCC2',
    'C1CC2C3CCC(C3)C2C1', 'c1ccc2c(c1)ccc1ccccc12', 'C1=CC2=CC=CC2=C1',
    # more than nine ring closures open at the same time (%nn numbers), spiro chains (numbers released and reused)
    'C1C2C3C4C5C6C7C8C9C%10C%11C%12OC%12C%11C%10C9C8C7C6C5C4C3C2C1', 'C1CC11CC11CC11CC1', 'C1CC12CCC21CC1',
    'C1CC1C1CC1C1CC1', 'C12(CC1)CC2',
    # fully equivalent atoms with alternating bonds: ties of the children key are broken by the order of the bond to the parent
    'C1=CC=C1', 'C1=CC=CC=CC=C1', 'C1=CC=CC=CC=CC=CC=C1', 'N1=CN=CN=C1', 'C1#CC#CC#C1', 'C=C(C)C=C(C)C',
    # brackets: isotopes, charges, radicals, H counts, elemental / special atoms
    '[13CH4]', '[2H]O[2H]', '[H][H]', '[H+]', '[NH4+]', '[O-]C(=O)c1ccccc1', 'C[N+](C)(C)C', '[Fe+2]', '[Fe+3].[Cl-].[Cl-].[Cl-]',
    '[O-2].[Mg+2]', '[C-]#[O+]', '[CH3]', '[CH2]C', 'C[CH]C', '[O]O', '[OH]', 'C[N]C', '[C]', '[P]', '[S]', '[B]', '[PH3]', 'P',
    '[PH]=C', 'CP(C)C', 'CP(=O)(O)O', 'OP(O)O', '[PH2]C', 'C[PH]C', '[SiH4]', '[Na]', '[Cl]', 'Cl', 'Br', 'BrCCCl', 'B(O)O',
    '[BH4-]', 'CB(C)C', '[235U]', '[U+4]', '[18F]CC', '[15NH3]', '[14C]#[14C]', 'C[Se]C', '[SeH]C', '[AsH3]', 'C[As](C)C',
    # two and more radical atoms far apart: the CXSMILES radical block lists written positions >= 10 (several digits, several entries)
    '[CH2]CCCCCCCCCCC[CH2]', '[O]CCCCCCCCCCCC[O]', 'C[CH]CCCCCCCCCC[CH]C', '[CH2]c1ccc(cc1)CCCCCCC[CH2]', 'CCCCCCCCCC[CH]CC[CH]C',
    '[CH2]CCCCC[CH]CCCCCC[CH2]', 'C[N]CCCCCCCCCCCC[O]', '[CH2]CCCCCCCCCCCCCCCCCCCCCC[CH2]', 'CC(C)(C)c1cc([O])c(cc1[O])C(C)(C)CCCCCC[CH2]',
    '[CH2]CCCCCCCCCC.[CH2]CCCCCCCCCCCC[O]',
    # radicals whose radical state the reader cannot re-derive from the valence: only the CXSMILES block carries it
    'O=[N]=O |^1:1|', 'O=[Cl]=O |^1:1|', '[H] |^1:0|', 'c1cc[n]c1 |^1:3|', 'C[Si](C)C |^1:1|', 'C[S](=O)=O |^1:1|', '[Na] |^1:0|',
    'Cl[Cu]Cl |^1:1|', 'C[Hg] |^1:1|', 'C[Sn](C)C |^1:1|',
    # special (coordinate) bonds
    '[C]~[Fe]', 'C~[Fe]', 'N~[Pt](~N)(Cl)Cl', '[Fe]~1~C~C~1',
    # aromatic: pyrrole-type N, B, P, heteroatoms, charged, fused
    'c1cc[nH]c1', 'c1ccncc1', 'c1ccoc1', 'c1ccsc1', 'c1cc[se]c1', 'c1cc[pH]c1', 'c1ccpcc1', 'c1cc[bH]c1', 'c1cc[n+](C)cc1',
    'c1cc[o+]cc1', 'c1ccc2[nH]ccc2c1', 'Cn1cccc1', 'c1ccc(cc1)-c1ccccc1', 'c1cnc2[nH]cnc2c1', 'O=c1cc[nH]cc1', 'c1ccc2ncccc2c1',
    '[cH-]1cccc1', 'c1cc[te]c1', 'c1ccc[as]c1', 'b1ccccc1', 'c1ccc2bcccc2c1', 'b1cc[nH]c1', 'c1ccpcc1',
    # multi-component
    'C1CC1.[Na+].[Cl-]', 'CC.CC.O', 'c1ccccc1.C1CC1.O', '[Na+].[Na+].[O-]S([O-])(=O)=O', 'C.C.C.C', '[CH3].[CH3]',
    # tetrahedral stereo
    'C[C@H](N)C(=O)O', 'C[C@@H](N)C(=O)O', '[C@H](F)(Cl)Br', '[C@](F)(Cl)(Br)I', '[C@]([H])(F)(Cl)Br', 'F[C@](Cl)(Br)[H]',
    'N[C@@H](C)C(=O)O', 'C[C@@H]1CC[C@H](C)CC1', 'C[C@H]1CCCO1', 'C[C@]12CC[C@H](C1)C2(C)C', 'C1C[C@H]1C', 'N1[C@H](C)CC1',
    '[C@@]1(F)(Cl)CCO1', 'OC[C@H]1O[C@@H](O)[C@H](O)[C@@H](O)[C@@H]1O', 'O[C@]12CCC[C@@]1(N)CC2', 'C1CC[C@]12CCCO2',
    'CO[C@@H]1CC[C@@]2(CC1)Cc3ccc(cc3C24N=C(C)C(=N4)N)c5cncc(Br)c5',
    'Oc1ccc2C[C@H]3N(CC4CC4)CC[C@@]56[C@@H](Oc1c25)c7[nH]c8ccccc8c7C[C@@]36O', 'C[C@@]12CC[C@H]1[C@@H]1CCC3=CC(=O)CC[C@]3(C)[C@H]1CC2',
    # pseudo-asymmetric centre whose two arms differ only in configuration, next to an even group of constitutionally equivalent
    # labelled centres in UNEQUAL proportion (3:1): the dependent centre is labelled in the reader's second pass and needs the
    # stereo-aware refinement (_chiral_morgan / __differentiation) to separate the arms; both epimers, Cl / F / OH arms, and 2:2
    'C[C@H](Cl)C([C@H](C)Cl)C[C@@H]([C@@H](C)Cl)[C@H](C)Cl', 'C[C@H](Cl)C([C@H](C)Cl)C[C@H]([C@@H](C)Cl)[C@H](C)Cl',
    'C[C@H](F)C([C@H](C)F)C[C@@H]([C@@H](C)F)[C@H](C)F', 'C[C@H](F)C([C@H](C)F)C[C@H]([C@@H](C)F)[C@H](C)F',
    'C[C@H](O)C([C@@H](C)O)C[C@@H]([C@@H](C)O)[C@H](C)O', 'C[C@H](Cl)[C@@H]([C@@H](C)Cl)C[C@H]([C@@H](C)Cl)[C@H](C)Cl',
    'C[C@H](Cl)[C@H]([C@@H](C)Cl)CC[C@@H]([C@@H](C)Cl)[C@H](C)Cl', 'C[C@H](Br)C([C@H](C)Br)CC[C@@H]([C@@H](C)Br)[C@H](C)Br',
    'C[S@](=O)CC', 'C[S@@](=O)c1ccccc1', 'C[P@](=O)(O)Cl', 'C[N@+](CC)(CCC)CCCC', 'C[Si@](F)(Cl)Br', '[C@H](C)(N)O',
    '[C@@H]1(C)CCCO1', 'C[C@H](O)[C@@H](N)C', 'C[C@H](O)[C@H](O)C', 'C[C@H]([CH2])O',
    # allenes / cumulenes
    'CC=[C@]=CC', 'CC=[C@@]=CC', 'FC(Cl)=[C@]=C(Br)I', 'FC=[C@@]=CCl', 'FC([H])=[C@]=C([H])Cl',
    # explicit hydrogen / deuterium on an allene terminal: the first written substituent is the reference, hydrogen included
    'CC(F)=[C@]=C([H])Cl', 'CC(F)=[C@]=C(Cl)[H]', 'CC(F)=[C@@]=C([2H])Cl', '[H]C(C)=[C@]=C([H])C', 'ClC([2H])=[C@]=C=C=C([2H])Cl', 'CC([H])=[C@@]=C1CCC(C)CC1', 'C/C=C=C=C/C', 'C/C=C=C=C\\C',
    'F/C=C=C=C/Cl', 'CC=[C@]=C1CCC(C)CC1',
    # cis / trans: chains, conjugated, rings, closures carrying the mark, explicit H
    'F/C=C/Cl', 'F/C=C\\Cl', 'C(/F)(\\Cl)=C(/Br)I', 'F/C(Cl)=C(Br)/I', 'F/C=C/C=C/Cl', 'F/C=C/C=C\\Cl', 'F/C=C\\C=C/C=C\\Cl',
    'F/C([H])=C([H])/Cl', 'C(\\F)([H])=C/Cl', 'C/C=C/C', 'C/C=C\\C', 'C/C=C/CC/C=C\\C', 'C/C=C(/C)CC', 'C\\C(CC)=C(/C)CCC',
    'C1CCCCCC/C=C/1', 'C1CCCCCC/C=C\\1', 'C/1=C/CCCCCCCCCC1', 'C1CCCCCCCCC/C=C/1', 'F/C=C/1CCC(C)CC1', 'C/C=C1/CC[C@H](C)CC1',
    'O=C(/C=C/c1ccccc1)O', 'C/N=C/C', 'C/N=N/C', 'C/C=N/O', 'C/C(N)=N\\O', 'CC/C=C(\\C)C(=O)O', 'c1ccccc1/C=C/c1ccccc1',
    'C/C=C/[C@H](N)O', 'C/C=C\\[C@@H](C)/C=C/C', 'C(=C/C)/C=C/C', 'C/C=C/C(/C=C/C)=C/C',
    # radicals with stereo, charges on stereo atoms
    'C[C@H]([O])N', 'C[C@H]([NH3+])C([O-])=O', '[O-][N+](=O)/C=C/C',
    # valence errors are kept (implicit_hydrogens None)
    'C[N](C)(C)C', 'CC(C)(C)(C)C', 'FCl(F)F',
]


def special_molecules():
    from chython import smiles
    out = []
    for smi in SPECIAL:
        try:
            m = smiles(smi)
        except Exception as e:
            UNREADABLE_SPECIAL.append((smi, f'{type(e).__name__}: {e}'))
            continue
        out.append((smi, m))
    return out


def api_molecules():
    """molecules that cannot be spelled as SMILES are built through the editing API"""
    from chython import MoleculeContainer
    out = []
    m = MoleculeContainer()
    for num, sym in ((7, 'C'), (3, 'O'), (12, 'N'), (40, 'C')):
        m.add_atom(sym, num)
    m.add_bond(7, 3, 2)
    m.add_bond(7, 12, 1)
    m.add_bond(12, 40, 1)
    out.append(('api:sparse-numbers', m))
    m = MoleculeContainer()
    for k in range(1, 8):
        m.add_atom('C', 10 * k)
    for k in range(1, 7):
        m.add_bond(10 * k, 10 * k + 10, 1)
    m.add_bond(10, 70, 1)
    m.add_bond(20, 50, 1)
    out.append(('api:bicycle-reverse-insertion', m))
    # aromatic boron without hydrogen: the only way to get the bare lower-case 'b' written (built here so that the molecule
    # exists even when the reader no longer accepts that token)
    m = MoleculeContainer()
    for k, sym in enumerate('BCCCCC', 1):
        m.add_atom(sym, k)
    for k in range(1, 7):
        m.add_bond(k, k % 6 + 1, 4)
    out.append(('api:borabenzene', m))
    out.extend(many_ring_molecules())
    return out


MANY_RINGS = set()


def many_ring_molecules():
    """molecules whose traversal keeps ten and more rings open at once (two-digit %NN closure numbers directly after plain, unbracketed
    atoms), built through the editing API so that they exist whatever the reader does with such strings: ladders numbered along their
    rails (with the atom numbers as weights every rung is open at the same time), one with boron / nitrogen rails (every one-letter
    atom class of the tokenizer in front of %NN), square-grid sheets"""
    from chython import MoleculeContainer
    out = []

    def ladder(n, syms):
        m = MoleculeContainer()
        for k in range(1, 2 * n + 1):
            m.add_atom(syms[(k - 1) % len(syms)], k)
        for k in range(1, n):
            m.add_bond(k, k + 1, 1)
            m.add_bond(n + k, n + k + 1, 1)
        for k in range(1, n + 1):
            m.add_bond(k, 2 * n + 1 - k, 1)          # rungs nested like parentheses: all open at the far end of the first rail
        return m
    for n, syms, tag in ((11, 'C', 'C'), (13, 'C', 'C'), (16, 'C', 'C'), (12, 'CB', 'CB'), (12, 'CNB', 'CNB')):
        try:
            out.append((f'api:ladder:{n}:{tag}', ladder(n, syms)))
        except Exception:
            continue
    for rows, cols in ((4, 10), (3, 12)):
        m = MoleculeContainer()
        num = lambda r, c: r * cols + c + 1      # noqa: E731
        for r in range(rows):
            for c in range(cols):
                m.add_atom('C', num(r, c))
        for r in range(rows):
            for c in range(cols):
                if c + 1 < cols:
                    m.add_bond(num(r, c), num(r, c + 1), 1)
                if r + 1 < rows:
                    m.add_bond(num(r, c), num(r + 1, c), 1)
        out.append((f'api:sheet:{rows}x{cols}', m))
    for name, _ in out:
        MANY_RINGS.add(name)
    return out


def forced_variants(name, m):
    """molecules that carry a tetrahedral label the SMILES reader did not put there: every unlabelled carbon that can be a
    tetrahedral centre gets a label (both values) through the attribute, the way search_stereoisomers flips labels; kept only
    when RDKit, reading the text chython writes for the variant, counts that atom as a stereocentre (so that a centre which is
    not stereogenic is never asked to survive).  Reaches molecules the reader itself would refuse to label."""
    from rdkit import Chem
    out = []
    try:
        cand = [n for n, a in m.atoms() if a.stereo is None and a.atomic_number == 6 and n in m.stereogenic_tetrahedrons]
    except Exception:
        return out
    for n in cand[:6]:
        for val in (True, False):
            c = m.copy()
            c._atoms[n]._stereo = val
            c.flush_cache()
            try:
                text = str(c)
                pos = list(c.smiles_atoms_order).index(n)
            except Exception:
                continue
            rd = Chem.MolFromSmiles(text.split(' ')[0])
            if rd is None or pos not in dict(Chem.FindMolChiralCenters(rd, useLegacyImplementation=False)):
                continue
            out.append((f'api:forced-label:{name}:{n}:{int(val)}', c))
    return out


def pool(ck):
    """(name, molecule) pairs of the correspondence and of the search: special cases, corpus sample, stereo corpus sample,
    random renumberings of part of them (other atom numbers, other dict insertion order)"""
    from chython import smiles
    rng = random.Random(f'{ck.seed}:c02pool')
    quick = ck.tier == 'quick'
    del UNREADABLE_SPECIAL[:]
    mols = special_molecules() + api_molecules() + history_molecules() + macro_pool(ck)
    ck.count('pool:special-smiles-the-reader-refuses', len(UNREADABLE_SPECIAL))
    ck.extra['unreadable_special_smiles'] = UNREADABLE_SPECIAL[:10]
    from rdkit import RDLogger
    RDLogger.DisableLog('rdApp.*')
    forced = []
    for name, m in list(mols):
        if '@' in name and name.count('@') >= 4:
            forced.extend(forced_variants(name, m))
    mols += forced[:24]
    for salt, src, k in (('lipo', corpus.lipo(), 70 if quick else 500), ('stereo', corpus.stereo_smiles(), 45 if quick else 300)):
        for smi in corpus.sample(src, k, ck.seed, 'c02' + salt):
            try:
                m = smiles(smi)
            except Exception:
                continue
            if m is None or not len(m):
                continue
            mols.append((smi, m))
    ren = []
    for name, m in mols:
        if rng.random() < (0.3 if quick else 0.5) and len(m) > 1:
            try:
                ren.append((name + '#renumbered', corpus.renumber(m, rng)))
            except Exception:
                pass
    return mols + ren


def mol_features(m):
    f = []
    if any(a.stereo is not None for _, a in m.atoms()):
        f.append('atom-stereo')
    if any(bd.stereo is not None for *_, bd in m.bonds()):
        f.append('ct-stereo')
    if m.connected_components_count > 1:
        f.append('multi')
    if m.is_radical:
        f.append('radical')
    if any(a.charge for _, a in m.atoms()):
        f.append('charged')
    if any(a.isotope for _, a in m.atoms()):
        f.append('isotope')
    if any(int(bd) == 4 for *_, bd in m.bonds()):
        f.append('aromatic')
    if any(int(bd) == 8 for *_, bd in m.bonds()):
        f.append('special-bond')
    if m.rings_count:
        f.append('ring')
    return f


# ---------------------------------------------------------------------------------------------------------
# correspondence 1: the writer

def corr_writer(ck, mols):
    """real _smiles / format / str / smiles_atoms_order against Writer.smiles_tokens with the real weights and the observed
    order as tie-break. returns (ok, failing [(name, molecule, spec)])"""
    from chython import MoleculeContainer
    rng = random.Random(f'{ck.seed}:c02corr')
    quick = ck.tier == 'quick'
    specs_all = SPECS_QUICK if quick else SPECS_QUICK + random.Random(f'{ck.seed}:c02specs').sample(all_specs(), 45)
    shards, metas = [], []
    defs, cases, meta, size = [], [], [], 0
    api_ok = True
    n_cases = 0
    n_mid = 0
    n_ct = 0

    def close():
        nonlocal defs, cases, meta, size
        if cases:
            shards.append(('\n'.join(defs), cases))
            metas.append(meta)
        defs, cases, meta, size = [], [], [], 0

    for i, (name, m) in enumerate(mols):
        try:
            mt = mol_term(m)
            tt = tabs_term(m)
        except Exception as e:
            ck.unchecked('correspondence Writer: molecule cannot be printed', f'{name}: {type(e).__name__}: {e}')
            continue
        md = [f'Definition m{i} : mol := {mt}.', f'Definition t{i} : stabs := {tt}.']
        wdone = {}
        # every molecule: canonical + 3 rotating specs; every 6th molecule and the special ones: all specs
        if i % 7 == 0:
            specs = list(specs_all)
        else:
            specs = [''] + rng.sample(specs_all[1:], 3 if name in SPECIAL_SET else 2)
        local = []
        for j, spec in enumerate(specs):
            try:
                ob = observe(m, spec, f'{ck.seed}:{i}:{j}')
            except Exception as e:
                ck.unchecked('correspondence Writer: the real writer raised', f'{name} spec={spec!r}: {type(e).__name__}: {e}', [name])
                continue
            if ''.join(ob['strings']) != ob['joined'] or ob['order'] != ob['order2'] or not ob['text'].startswith(ob['joined']):
                api_ok = False
                ck.unchecked('entry points of the writer disagree (_smiles / __format__ / format / smiles_atoms_order)',
                             f'{name} spec={spec!r}: {ob}', [name])
            wkey = f'r{j}' if 'r' in spec else ('n' if '!s' in spec else 's')    # random mode: one weight table per case
            if wkey not in wdone:
                wdone[wkey] = f'w{i}{wkey}'
                md.append(f'Definition w{i}{wkey} : list (Z * Z) := {zmap_term(ob["w"])}.')
            local.append(case_term(f'm{i}', wdone[wkey], f't{i}', spec, ob, full=(n_cases % 16 == 0), ev=(n_cases % 4 == 1), m=m))
            meta.append((name, m, spec, ob['text']))
            WRITTEN_TEXTS.append(ob['text'])
            ORIGIN.setdefault(ob['text'].split(' ')[0], (name, m, spec, ob['text'], list(ob['order'])))
            if n_cases % 5 == 2 or name in CLOSURE_HEAVY:
                mt2 = mid_term(f'm{i}', wdone[wkey], spec, ob)
                if mt2 is not None:
                    local.append(mt2)
                    meta.append((name, m, f'intermediate states, spec={spec}', ob['text']))
                    ck.count('writer:intermediate-states')
                    n_mid += 1
            if 'ct-stereo' in mol_features(m) and '!s' not in spec:
                mt3 = ct_term(f'm{i}', wdone[wkey], f't{i}', spec, ob)
                if mt3 is not None:
                    local.append(mt3)
                    meta.append((name, m, f'dictionary returned by __ct_map, spec={spec}', ob['text']))
                    ck.count('writer:ct_map-dictionaries')
                    n_ct += 1
            n_cases += 1
            feats = mol_features(m)
            ck.case(('writer', name, spec, ob['text']), nontrivial=len(m) > 2)
            ck.count('writer:spec=' + (spec or 'canonical'))
            for f in feats:
                ck.count('writer:mol-' + f)
            if len(set(ob['w'].values())) < len(ob['w']) and 'r' not in spec:
                ck.count('writer:weight-ties')
        # caller-supplied weights (non-random mode): special molecules and every 9th other one
        if name in SPECIAL_SET or name in MANY_RINGS or i % 9 == 0:
            recipes = weight_recipes(m, rng)
            for rname, w in (recipes[:2] if name in MANY_RINGS else recipes if name in CLOSURE_HEAVY else rng.sample(recipes, 1)):
                spec = rng.choice(['', 'a', 'h', 'A', 'm', '!s', 'ah'])
                try:
                    ob = observe_custom(m, w, spec)
                except Exception as e:
                    ck.unchecked('correspondence Writer: the real writer raised', f'{name} weights={rname} spec={spec!r}: {type(e).__name__}: {e}', [name])
                    continue
                wn = f'w{i}c{rname}'
                md.append(f'Definition {wn} : list (Z * Z) := {zmap_term(w)}.')
                local.append(case_term(f'm{i}', wn, f't{i}', spec, ob, ev=name in CLOSURE_HEAVY, m=m))
                meta.append((name, m, f'weights={rname} {spec}', ob['text']))
                WRITTEN_TEXTS.append(ob['text'])
                ORIGIN.setdefault(ob['text'].split(' ')[0], (name, m, spec, ob['text'], list(ob['order'])))
                mt2 = mid_term(f'm{i}', wn, spec, ob)
                if mt2 is not None:
                    local.append(mt2)
                    meta.append((name, m, f'intermediate states, weights={rname} {spec}', ob['text']))
                    ck.count('writer:intermediate-states')
                    n_mid += 1
                n_cases += 1
                ck.case(('writer-custom', name, rname, spec, ob['text']), nontrivial=len(m) > 2)
                ck.count('writer:custom-weights=' + rname)
                if '%' in ob['joined']:
                    ck.count('writer:two-digit-closures')
        defs.extend(md)
        cases.extend(local)
        size += sum(len(x) for x in md) + sum(len(x) for x in local)
        if size > 90_000:
            close()
    close()
    # the empty molecule: format() unpacks the bare [] returned by _smiles
    em = MoleculeContainer()
    for spec in ('', 'a', 'r'):
        try:
            format(em, spec) if spec else str(em)
            got = None
        except Exception as e:
            got = type(e).__name__
        exn = {'ValueError': 'ValueError', 'IndexError': 'IndexError', 'KeyError': 'KeyError', 'TypeError': 'TypeError'}.get(got)
        if exn is None:
            ck.unchecked('correspondence Writer: empty molecule', f'str/format of the empty molecule: {got}')
        else:
            shards.append(('', [f'wcase_err (mkMol [] []) {cs(spec)} {exn}']))
            metas.append([('empty molecule', em, spec, got)])
            ck.case(('writer-empty', spec), nontrivial=False)
    ok, failing, log = run_shards('c02w', shards)
    bad = [metas[k][i] for k, i in failing]
    ck.extra['writer_correspondence_cases'] = sum(len(c) for _, c in shards)
    ck.extra['writer_intermediate_state_cases'] = n_mid
    ck.extra['writer_ct_map_dictionary_cases'] = n_ct
    ck.oblige('correspondence: Smiles._smiles / format(mol, spec) / str(mol) / smiles_atoms_order == Writer.smiles_tokens '
              '(real weights, observed order as tie-break); every output accepted by the token-stream checker (stream_ok), '
              'closure lists of every 4th case satisfy wf_events; for every 5th case of a connected molecule also the local variables '
              'of _smiles at its return (smiles, edges, tokens, casted_cycles, visited, seen) == traverse / flatten / number_atoms / '
              'order_neighbours of the model; for every case of a connected molecule with cis/trans labels the dictionary __ct_map returned '
              '(marks and bookkeeping entries, insertion order) == ct_map / fold of ct_outer of the model', ok and not bad and api_ok, 'correspondence',
              log or '; '.join(f'{n} spec={s!r} text={t!r}' for n, _, s, t in bad[:8]))
    if shards:
        ck.sample({'writer_case': shards[0][1][0][:600]})
    if not ok:
        ck.unchecked('correspondence Writer model vs chython/algorithms/smiles.py: cases did not evaluate', log[-1500:])
    elif bad:
        ck.unchecked('correspondence Writer model vs chython/algorithms/smiles.py', f'{len(bad)} disagreeing cases',
                     [f'{n} spec={s!r} text={t!r}' for n, _, s, t in bad[:20]])
    return ok and not bad and api_ok, bad


# ---------------------------------------------------------------------------------------------------------
# correspondence 2: tokenizer and bracket-atom matcher (the reader side Writer.v carries)

TK_EXN = {'IncorrectSmiles': 'IncorrectSmiles', 'IncorrectSmarts': 'IncorrectSmarts', 'KeyError': 'KeyError', 'IndexError': 'IndexError',
          'ValueError': 'ValueError', 'TypeError': 'TypeError'}


def rtok_term(t):
    ty, v = t
    if ty == 0:
        return f'RAtom {cs(v)}'
    if ty == 1:
        return f'RBond {zraw(v)}'
    if ty == 2:
        return 'ROpen'
    if ty == 3:
        return 'RClose'
    if ty == 4:
        return 'RDot'
    if ty == 5:
        return f'RBracket {cs(v)}'
    if ty == 6:
        return f'RClosure {zraw(v)}'
    if ty == 8:
        return f'RArom {cs(v)}'
    if ty == 9:
        return f'RUpDown {b(v)}'
    raise ValueError(t)


def tk_expected(text):
    from chython.files.daylight.tokenize import _tokenize
    try:
        toks = _tokenize(text)
    except Exception as e:
        return 'Err ' + TK_EXN.get(type(e).__name__, 'OtherError')
    return 'Ok ' + lst([rtok_term(t) for t in toks])


def ap_expected(text):
    from chython.files.daylight.tokenize import _atom_parse
    try:
        ty, d = _atom_parse(text)
    except Exception as e:
        return 'Err ' + TK_EXN.get(type(e).__name__, 'OtherError')
    return (f'Ok (P {zraw(ty)} {cs(d["element"])} {opt(d["isotope"], zraw)} {opt(d["parsed_mapping"], zraw)} {zraw(d["charge"])} '
            f'{zraw(d["implicit_hydrogens"])} {opt(d["stereo"], b)})')


TK_ALPHABET = 'CBlrNOFIScnos[]()%0129.=#:-~/\\@H+'


def corr_reader(ck, texts):
    """_tokenize and _atom_parse against Writer.tokenize / Writer.atom_parse: every text the writer produced in the writer
    correspondence, all strings over the SMILES alphabet up to length 3 (quick) / 4, corruptions, bracket bodies"""
    rng = random.Random(f'{ck.seed}:c02tk')
    quick = ck.tier == 'quick'
    tk_inputs = []
    seen = set()

    def add(s):
        if s not in seen and all(32 <= ord(c) < 127 for c in s) and not any(c in s for c in ';,!'):
            seen.add(s)
            tk_inputs.append(s)
    for t in (texts if not quick else corpus.sample(sorted(set(texts)), 500, ck.seed, 'c02tkw')):
        add(t.split(' ')[0])
    n_written = len(tk_inputs)
    for L in range(0, 3 if quick else 4):
        for tup_ in itertools.product(TK_ALPHABET, repeat=L):
            add(''.join(tup_))
    base = [t.split(' ')[0] for t in texts[:400]] or ['CCO']
    for _ in range(400 if quick else 6000):
        s = rng.choice(base)
        if not s:
            continue
        k = rng.randrange(len(s))
        op = rng.random()
        if op < 0.35:
            s = s[:k] + s[k + 1:]
        elif op < 0.7:
            s = s[:k] + rng.choice(TK_ALPHABET + 'lr345678') + s[k:]
        else:
            s = s[:k] + rng.choice(TK_ALPHABET) + s[k + 1:]
        add(s)
    for s in ('C%10CC%10', 'C%1', 'C%', 'C%0', 'C%012', 'C1%102C1%10', 'C%99C%99', 'Cl1Br1', 'BrB', 'Bl', 'Cr', 'CCl', 'CBr', 'C[', 'C]', '[[C]]',
              '[]', '[C', 'C((C))', 'C()', 'C(1)', 'C(%10)', 'C0', '(C)', 'C.(C)', 'c1ccccc1', '[nH]1cccc1', 'C/C=C\\C', 'C~C', 'C:C', 'C%', '%1C',
              'C%1%', 'C%1(', 'C%1[C]', 'C%[C]', 'Cb', 'Bc', 'Clr', 'Brl', 'CB', 'BC', 'Cll', 'C l'):
        add(s)
    cases = [f'tkcase {cs(s)} ({tk_expected(s)})' for s in tk_inputs]
    for s in tk_inputs:
        ck.case(('tk', s), nontrivial=len(s) > 0)
    ck.count('tokenize:written-texts', n_written)
    ck.count('tokenize:other-strings', len(tk_inputs) - n_written)
    # bracket bodies
    ap_inputs = []
    seen2 = set()

    def add2(s):
        if s not in seen2 and all(32 <= ord(c) < 127 for c in s):
            seen2.add(s)
            ap_inputs.append(s)
    for t in texts:
        for body in re.findall(r'\[([^\]]*)\]', t):
            add2(body)
    n_body = len(ap_inputs)
    from chython.periodictable import Element
    syms = sorted({c.__name__ for c in Element.__subclasses__() if c.__name__[0].isupper() and len(c.__name__) <= 2})
    for sym in syms:
        add2(sym)
        add2(sym.lower())
        add2(f'{rng.randint(1, 999)}{sym}@@H{rng.randint(1, 4)}{rng.choice(["+", "-", "+2", "-3", "+4", "--", "+++"])}:{rng.randint(0, 9999)}')
    for iso in ('', '1', '13', '999', '1000', '0', '01', '100'):
        for sym in ('C', 'c', 'Cl', 'se', 'Se', 'si', 'te', 'as', 'b', 'X', 'J', 'Q', 'Uuo', 'Zz', 'n'):
            for st in ('', '@', '@@', '@@@'):
                for h in ('', 'H', 'H0', 'H1', 'H4', 'H5', 'H12', 'HH'):
                    for chg in ('', '+', '-', '+2', '-4', '+5', '++', '+-', '--', '+++', '-1', '+1+'):
                        if rng.random() < (0.003 if quick else 0.03):
                            for mp in ('', ':1', ':0', ':9999', ':10000', ':123456789012', ':', ':a', ':12x'):
                                add2(iso + sym + st + h + chg + mp)
    for _ in range(250 if quick else 4000):
        add2(''.join(rng.choice('019CclNnSsei@H+-:234 ') for _ in range(rng.randint(0, 6))))
    ap_cases = [f'apcase {cs(s)} ({ap_expected(s)})' for s in ap_inputs]
    for s in ap_inputs:
        ck.case(('ap', s), nontrivial=ap_expected(s).startswith('Ok'))
    ck.count('atom_parse:bodies-written', n_body)
    ck.count('atom_parse:other-bodies', len(ap_inputs) - n_body)
    allc = cases + ap_cases
    SH = 500
    ok, failing, log = run_shards('c02r', [('', allc[i:i + SH]) for i in range(0, len(allc), SH)])
    inputs = tk_inputs + ap_inputs
    bad = [(('tokenize' if k * SH + i < len(cases) else 'atom_parse'), inputs[k * SH + i]) for k, i in failing]
    ck.extra['reader_correspondence_cases'] = len(allc)
    ck.oblige('correspondence: _tokenize (SMILES alphabet) and _atom_parse == Writer.tokenize / Writer.atom_parse', ok and not bad,
              'correspondence', log or repr(bad[:10]))
    ck.sample({'reader_case': allc[n_written // 2] if allc else ''})
    if not ok:
        ck.unchecked('correspondence Writer.tokenize / atom_parse: cases did not evaluate', log[-1500:])
    elif bad:
        ck.unchecked('correspondence Writer.tokenize / atom_parse vs chython/files/daylight/tokenize.py', f'{len(bad)} disagreeing inputs',
                     [repr(x) for x in bad[:20]])
    return ok and not bad, bad


SPECIAL_SET = set(SPECIAL)
CLOSURE_HEAVY = {'C1=CC=C1', 'C1=CC=CC=CC=C1', 'N1=CN=CN=C1', 'C1C2C3C4C5C6C7C8C9C%10C%11C%12OC%12C%11C%10C9C8C7C6C5C4C3C2C1', 'C12C3C4C1C5C2C3C45', 'C1CC11CC11CC11CC1', 'C1CC12CCC21CC1'}

# ---------------------------------------------------------------------------------------------------------
# search: property-level oracles on the real code (no model involved)

AROMATIC_READABLE = {'B', 'C', 'N', 'O', 'P', 'S', 'As', 'Se', 'Te'}


def atom_sig(a):
    return (a.atomic_number, a.isotope, a.charge, a.is_radical, a.implicit_hydrogens)


def stereo_signs(m, f):
    """the stereo configuration of m, expressed on neighbour lists renamed by f (a dict or None = identity); hashable set.
    Uses only the stored labels and the sign-translation functions, never the canonical order."""
    g = (lambda x: x) if f is None else f.__getitem__
    out = set()
    for n, a in m._atoms.items():
        if a.stereo is None:
            continue
        if n in m.stereogenic_allenes:
            env = m.stereogenic_allenes[n]
            nn, nm = env[0], env[1]
            out.add(('al', g(n), g(nn), g(nm), m._translate_allene_sign(n, nn, nm)))
        elif n in m.stereogenic_tetrahedrons:
            env = list(m.stereogenic_tetrahedrons[n])
            out.add(('th', g(n), tuple(g(x) for x in env), m._translate_tetrahedron_sign(n, env)))
        else:
            out.add(('label-without-registry', g(n)))
    for (n, k), env in m.stereogenic_cis_trans.items():
        i, j = m._stereo_cis_trans_centers[n]
        if m._bonds[i][j].stereo is None:
            continue
        nn, nm = env[0], env[1]
        out.add(('ct', frozenset((g(n), g(k))), frozenset(((g(n), g(nn)), (g(k), g(nm)))), m._translate_cis_trans_sign(n, k, nn, nm)))
    return out


def stereo_in(m2, f, m):
    """the configuration of m re-expressed through f inside m2: evaluates m2's labels on the images of m's reference neighbours"""
    out = set()
    for n, a in m._atoms.items():
        if a.stereo is None:
            continue
        n2 = f[n]
        try:
            if n in m.stereogenic_allenes:
                env = m.stereogenic_allenes[n]
                out.add(('al', n2, f[env[0]], f[env[1]], m2._translate_allene_sign(n2, f[env[0]], f[env[1]])))
            elif n in m.stereogenic_tetrahedrons:
                env = [f[x] for x in m.stereogenic_tetrahedrons[n]]
                out.add(('th', n2, tuple(env), m2._translate_tetrahedron_sign(n2, env)))
            else:
                out.add(('label-without-registry', n2))
        except (KeyError, ValueError, IndexError):
            out.add(('missing', n2))
    for (n, k), env in m.stereogenic_cis_trans.items():
        i, j = m._stereo_cis_trans_centers[n]
        if m._bonds[i][j].stereo is None:
            continue
        nn, nm = env[0], env[1]
        try:
            s = m2._translate_cis_trans_sign(f[n], f[k], f[nn], f[nm])
        except (KeyError, ValueError, IndexError):
            s = 'missing'
        out.add(('ct', frozenset((f[n], f[k])), frozenset(((f[n], f[nn]), (f[k], f[nm]))), s))
    return out


def n_labels(m):
    return (sum(1 for _, a in m.atoms() if a.stereo is not None), sum(1 for *_, bd in m.bonds() if bd.stereo is not None))


def compare_along(m, m2, f, stereo=True):
    """differences between m and m2 under the atom correspondence f (dict: atom of m -> atom of m2); [] when none"""
    diffs = []
    if len(m2._atoms) != len(m._atoms) or len(set(f.values())) != len(f):
        return [f'atom count {len(m._atoms)} -> {len(m2._atoms)}']
    for n, a in m._atoms.items():
        a2 = m2._atoms[f[n]]
        # implicit_hydrogens None = "not determined" (aromatic heteroatom before kekule(), valence error): nothing to lose there
        if atom_sig(a)[:4] != atom_sig(a2)[:4] or (a.implicit_hydrogens is not None and a.implicit_hydrogens != a2.implicit_hydrogens):
            diffs.append(f'atom {n}: (Z, isotope, charge, radical, H) {atom_sig(a)} -> {atom_sig(a2)}')
    nb = 0
    for n, k, bd in m.bonds():
        nb += 1
        bd2 = m2._bonds[f[n]].get(f[k])
        if bd2 is None:
            diffs.append(f'bond {n}-{k} order {int(bd)} missing after re-reading')
        elif int(bd2) != int(bd):
            diffs.append(f'bond {n}-{k}: order {int(bd)} -> {int(bd2)}')
    nb2 = sum(1 for _ in m2.bonds())
    if nb2 != nb:
        diffs.append(f'bond count {nb} -> {nb2}')
    if stereo and not diffs:
        if n_labels(m) != n_labels(m2):
            diffs.append(f'stereo labels (atoms, bonds) {n_labels(m)} -> {n_labels(m2)}')
        else:
            s1, s2 = stereo_signs(m, f), stereo_in(m2, f, m)
            if s1 != s2:
                diffs.append(f'stereo configuration differs: {sorted(map(repr, s1 ^ s2))[:4]}')
    return diffs


def written(m, spec, seed, weights=None):
    """(text of format(m, spec) / str(m), written atom order); with `weights`: _smiles called with these weights"""
    if weights is not None:
        ob = observe_custom(m, weights, spec)
        return ob['text'], ob['order']
    if 'r' in spec:
        random.seed(seed)
        text = format(m, spec)
        random.seed(seed)
        joined, order = m.__format__(spec, _return_order=True)
    elif spec:
        text = format(m, spec)
        joined, order = m.__format__(spec, _return_order=True)
    else:
        text = str(m)
        joined, order = text.split(' ')[0], list(m.smiles_atoms_order)
    if not text.startswith(joined):
        raise AssertionError(f'format() and __format__(_return_order=True) disagree: {text!r} / {joined!r}')
    return text, list(order)


def closure_pairs(text):
    """(i, j, symbol) for every ring-closure bond of a SMILES text: positions of the two atoms in the string, and whether one of the
    two closure digits carries '=' (plain scan of chython's own token list)"""
    from chython.files.daylight.tokenize import _tokenize
    out, opened, idx, prev = [], {}, -1, None
    for ty, v in _tokenize(text.split(' ')[0]):
        if ty in (0, 5, 8):
            idx += 1
            prev = None
        elif ty in (1, 9):
            prev = (ty, v)
        elif ty == 6:
            if v in opened:
                i, pb = opened.pop(v)
                out.append((i, idx, 2 if (pb == (1, 2) or prev == (1, 2)) else 1))
            else:
                opened[v] = (idx, prev)
            prev = None
        else:
            prev = None
    return out


def stereo_defect_class(m, m2, f, text, order):
    """stable keys of the recorded stereo defects a differing configuration falls into ([] = none of them)"""
    keys = []
    try:
        delta = stereo_signs(m, f) ^ stereo_in(m2, f, m)
    except Exception:
        return keys
    inv = {v: k for k, v in f.items()}
    pos = {n: i for i, n in enumerate(order)}
    # first written atom of every component but the first
    comp_first = set()
    for comp in m.connected_components:
        first = min(comp, key=pos.__getitem__)
        if pos[first] != 0:
            comp_first.add(first)
    for e in delta:
        if e[0] == 'th' and inv.get(e[1]) in comp_first and m._atoms[inv[e[1]]].implicit_hydrogens:
            keys.append('chirality-first-atom-of-later-component')
    try:
        closures = {frozenset((order[i], order[j])) for i, j, o in closure_pairs(text) if o == 2}
    except Exception:
        closures = set()
    for e in delta:
        if e[0] == 'ct' and frozenset(inv.get(x) for x in e[1]) in closures:
            keys.append('cis-trans-on-ring-closure-double-bond')
    # the same mechanism with another surface: the MIDDLE double bond of a conjugated stereo triene (labelled stereo double bonds on
    # both of its sides) one of whose two linking single bonds is written as ring-closure bond: its two neighbours were entered
    # independently, the marks of the middle bond come from both and are never reconciled
    try:
        single_closures = {frozenset((order[i], order[j])) for i, j, o in closure_pairs(text) if o == 1}
        ctc = m._stereo_cis_trans_centers
        for e in delta:
            if e[0] != 'ct':
                continue
            ends = [inv.get(x) for x in e[1]]
            if None in ends or len(ends) != 2:
                continue
            links = []
            for x, other in ((ends[0], ends[1]), (ends[1], ends[0])):
                ys = [y for y, bd in m._bonds[x].items() if y != other and int(bd) == 1 and y in ctc and
                      m._bonds[ctc[y][0]][ctc[y][1]].stereo is not None]
                links.append([frozenset((x, y)) for y in ys])
            if links[0] and links[1] and any(l in single_closures for ls in links for l in ls):
                keys.append('cis-trans-middle-double-bond-reached-from-both-sides')
    except Exception:
        pass
    return keys


def known_class(m, spec):
    """stable keys of the recorded defect classes a molecule / style falls into"""
    keys = []
    if any(a.hybridization == 4 and a.atomic_symbol not in AROMATIC_READABLE for _, a in m.atoms()) and 'A' not in spec:
        keys.append('aromatic-atom-of-element-without-lowercase-symbol')
    if 'm' in spec and max(m._atoms) > 9999:
        keys.append('atom-map-above-9999')
    return keys


def roundtrip(ck, name, m, spec, seed, rd_ref=None, weights=None, given=None):
    """write in one style, read back, compare along the written order. returns True when a violation was reported.
    given = (text, order): a text the writer already produced for m (the correspondence keeps them) instead of writing again"""
    from chython import smiles
    try:
        text, order = given if given is not None else written(m, spec, seed, weights)
    except Exception as e:
        ck.counterexample(f'write-raises:{name}:{spec}', f'format(mol, {spec!r}) raises {type(e).__name__}: {e}', {'molecule': name, 'spec': spec},
                          type(e).__name__, 'a SMILES string', 'write -> read round trip',
                          replay_py=f"from chython import smiles; m = smiles({name.split('#')[0]!r}); print(format(m, {spec!r}))")
        return True
    ck.case(('rt', name, spec, text), nontrivial=len(m) > 2)
    if weights is not None:
        ck.count('roundtrip:caller-supplied-weights')
        if '%' in text:
            ck.count('roundtrip:two-digit-closures')
    ck.count('roundtrip:spec=' + (''.join(sorted(set(spec) & set('aAmhr'))) + ('!s' if '!s' in spec else '') or 'canonical'))
    replay = (f"from chython import smiles\nt = {text!r}\nprint('written text', t)\nm2 = smiles(t)\n"
              f"print([(a.atomic_symbol, a.isotope, a.charge, a.is_radical, a.implicit_hydrogens, a.stereo) for _, a in m2.atoms()])\nprint(str(m2))")
    try:
        m2 = smiles(text)
    except Exception as e:
        kc = known_class(m, spec)
        key = kc[0] if kc else f'reread-raises:{name}:{spec}'
        ck.counterexample(key, f'the text written for a molecule cannot be read back ({type(e).__name__}: {e})',
                          {'molecule': name, 'spec': spec, 'text': text}, f'{type(e).__name__}: {e}', 'the molecule', 'write -> read round trip',
                          replay_py=replay)
        return True
    nums2 = list(m2._atoms)
    if len(nums2) != len(order):
        ck.counterexample(f'atom-count:{name}:{spec}', 'the re-read molecule has another number of atoms', {'molecule': name, 'spec': spec, 'text': text},
                          len(nums2), len(order), 'write -> read round trip', replay_py=replay)
        return True
    f = dict(zip(order, nums2))
    bad = False
    if 'm' in spec and nums2 != order:
        ck.counterexample(f'atom-maps:{name}:{spec}', 'atom numbers written as atom maps are not the numbers of the re-read molecule',
                          {'molecule': name, 'spec': spec, 'text': text}, nums2, order, 'write -> read round trip', replay_py=replay)
        bad = True
    diffs = compare_along(m, m2, f, stereo='!s' not in spec)
    if diffs and 'A' in spec:
        # DESIGN: aromatic-bond spelling is compared after kekule() on both sides when the direct comparison differs
        try:
            ma, mb = m.copy(), m2.copy()
            ma.kekule()
            mb.kekule()
            ma.thiele()
            mb.thiele()
            if not compare_along(ma, mb, f, stereo='!s' not in spec):
                ck.count('roundtrip:equal-after-kekule-thiele')
                diffs = []
        except Exception:
            pass
    if diffs:
        sk = stereo_defect_class(m, m2, f, text, order) if any(d.startswith('stereo configuration') for d in diffs) else []
        ck.counterexample(sk[0] if sk else f'roundtrip:{name}:{spec}', 'write -> read changes the molecule: ' + '; '.join(diffs[:4]),
                          {'molecule': name, 'spec': spec, 'text': text, 'written_order': order}, diffs[:6], 'identical along the written order',
                          'direct attribute comparison along smiles_atoms_order; stereo through _translate_*_sign on mapped neighbours',
                          replay_py=replay)
        bad = True
    # RDKit: every spelling of one molecule denotes the same molecule for another toolkit
    if rd_ref is not None and rd_ref[0] is not None and '!s' not in spec and not bad:
        from rdkit import Chem
        rd = Chem.MolFromSmiles(text.split(' ')[0])
        if rd is not None:
            flat = Chem.MolToSmiles(rd, isomericSmiles=False)
            if flat == rd_ref[1]:
                ck.count('roundtrip:rdkit-compared')
                iso = Chem.MolToSmiles(rd)
                if iso != rd_ref[0] and not lost_labels(rd_ref[2], rd):
                    ck.counterexample(f'rdkit:{name}:{spec}', 'two spellings of one molecule denote different stereoisomers for RDKit',
                                      {'molecule': name, 'spec': spec, 'text': text, 'canonical': rd_ref[3]}, iso, rd_ref[0],
                                      'RDKit canonical isomeric SMILES of both spellings', replay_py=replay)
                    bad = True
    return bad


def lost_labels(rd0, rd1):
    from rdkit import Chem
    c0 = len(Chem.FindMolChiralCenters(rd0, useLegacyImplementation=False))
    c1 = len(Chem.FindMolChiralCenters(rd1, useLegacyImplementation=False))
    d0 = sum(1 for bd in rd0.GetBonds() if bd.GetStereo() != Chem.BondStereo.STEREONONE)
    d1 = sum(1 for bd in rd1.GetBonds() if bd.GetStereo() != Chem.BondStereo.STEREONONE)
    return c1 != c0 or d1 != d0


def rd_reference(m):
    from rdkit import Chem
    text = str(m).split(' ')[0]
    rd = Chem.MolFromSmiles(text)
    if rd is None:
        return (None, None, None, text)
    return (Chem.MolToSmiles(rd), Chem.MolToSmiles(rd, isomericSmiles=False), rd, text)


ROUND_FLAGS = ['a', 'A', 'm', 'h', 'r']


def round_specs(rng, full):
    combos = [''.join(c) for k in range(len(ROUND_FLAGS) + 1) for c in itertools.combinations(ROUND_FLAGS, k)]
    if full:
        return combos + ['!s', 'r!s', 'aAmh!s']
    return ['', 'a', 'A', 'm', 'h', 'r', 'aAmhr'] + rng.sample(combos, 3) + ['!s'] * (rng.random() < 0.3)


def search_roundtrip(ck, mols, n_random, full=False):
    from rdkit import RDLogger
    RDLogger.DisableLog('rdApp.*')
    rng = random.Random(f'{ck.seed}:c02rt')
    found = 0
    for i, (name, m) in enumerate(mols):
        ref = rd_reference(m)
        specs = round_specs(rng, full or name in SPECIAL_SET)
        for spec in specs:
            found += roundtrip(ck, name, m, spec, f'{ck.seed}:{i}:{spec}', ref)
        for k in range(n_random):
            spec = 'r' + rng.choice(['', 'a', 'h', 'A', 'm', 'ah'])
            found += roundtrip(ck, name, m, spec, f'{ck.seed}:{i}:{k}', ref)
        if name in SPECIAL_SET or name in MANY_RINGS or i % 4 == 0:
            for rname, w in weight_recipes(m, rng):
                found += roundtrip(ck, name, m, rng.choice(['', 'a', 'h', 'A', 'm', 'ah']), 0, ref, weights=w)
        for f_ in mol_features(m):
            ck.count('roundtrip:mol-' + f_)
    return found


# ---- injectivity: equal canonical strings only for molecules that are the same under some atom correspondence ----

def iso_exists(a, b, limit=20000):
    """is there a bijection of atoms preserving element, isotope, charge, radical, H count, bonds with orders and the stereo
    configuration?  plain backtracking, no canonical numbering.  None = gave up"""
    if len(a._atoms) != len(b._atoms) or n_labels(a) != n_labels(b):
        return False
    key = lambda mol, n: (atom_sig(mol._atoms[n]), len(mol._bonds[n]), mol._atoms[n].stereo is None,
                          tuple(sorted(int(x) for x in mol._bonds[n].values())))
    if sorted(repr(key(a, n)) for n in a._atoms) != sorted(repr(key(b, n)) for n in b._atoms):
        return False
    # atoms of a in BFS order (every atom after the first of its component has a mapped neighbour)
    todo, seen = [], set()
    for s in a._atoms:
        if s in seen:
            continue
        seen.add(s)
        q = [s]
        while q:
            n = q.pop(0)
            todo.append(n)
            for k in a._bonds[n]:
                if k not in seen:
                    seen.add(k)
                    q.append(k)
    bkeys = {}
    for n in b._atoms:
        bkeys.setdefault(key(b, n), []).append(n)
    tested = [0]
    f, used = {}, set()

    def rec(i):
        if i == len(todo):
            tested[0] += 1
            if tested[0] > limit:
                raise TimeoutError
            return stereo_signs(a, f) == stereo_in(b, f, a)
        n = todo[i]
        for c in bkeys[key(a, n)]:
            if c in used:
                continue
            ok = True
            for k, bd in a._bonds[n].items():
                if k in f:
                    bd2 = b._bonds[c].get(f[k])
                    if bd2 is None or int(bd2) != int(bd):
                        ok = False
                        break
            if not ok:
                continue
            f[n] = c
            used.add(c)
            if rec(i + 1):
                return True
            del f[n]
            used.discard(c)
        return False
    try:
        return rec(0)
    except TimeoutError:
        return None


def search_stereoisomers(ck, mols, max_labels):
    """all stereoisomers (every subset of labels flipped) of sampled molecules: two of them with the same canonical string must be
    the same molecule under some atom correspondence"""
    found = 0
    for name, m in mols:
        atoms = [n for n, a in m._atoms.items() if a.stereo is not None]
        bonds = [(n, k) for n, k, bd in m.bonds() if bd.stereo is not None]
        k = len(atoms) + len(bonds)
        if not 1 <= k <= max_labels:
            continue
        by_string = {}
        for mask in range(2 ** k):
            c = m.copy()
            for j, n in enumerate(atoms):
                if mask >> j & 1:
                    c._atoms[n]._stereo = not c._atoms[n]._stereo
            for j, (n, kk) in enumerate(bonds):
                if mask >> (len(atoms) + j) & 1:
                    c._bonds[n][kk]._stereo = not c._bonds[n][kk]._stereo
            c.flush_cache()
            by_string.setdefault(str(c), []).append((mask, c))
        ck.count(f'injectivity:isomer-sets labels={k}')
        for s, group in by_string.items():
            first = group[0][1]
            for mask, c in group[1:]:
                ck.case(('inj-stereo', name, group[0][0], mask), nontrivial=True)
                ck.count('injectivity:equal-string-pairs')
                r = iso_exists(first, c)
                if r is False:
                    try:
                        ring_db = any(o == 2 for *_, o in closure_pairs(s)) and ('/' in s or '\\' in s)
                    except Exception:
                        ring_db = False
                    ck.counterexample('cis-trans-on-ring-closure-double-bond' if ring_db else f'collision-stereo:{name}',
                                      'two different stereoisomers receive the same canonical string',
                                      {'molecule': name, 'labels_flipped_a': group[0][0], 'labels_flipped_b': mask, 'atoms': atoms, 'bonds': bonds},
                                      s, 'different strings', 'backtracking isomorphism with stereo compared through _translate_*_sign',
                                      replay_py=f"from chython import smiles\nm = smiles({name.split('#')[0]!r})\nprint(str(m))")
                    found += 1
                    break
        for s, group in by_string.items():
            for mask, c in group[:1]:
                ck.case(('inj-isomer', name, mask), nontrivial=True)
    return found


SKELETONS = {
    2: [[(0, 1)]],
    3: [[(0, 1), (1, 2)], [(0, 1), (1, 2), (0, 2)]],
    4: [[(0, 1), (1, 2), (2, 3)], [(0, 1), (0, 2), (0, 3)], [(0, 1), (1, 2), (2, 3), (0, 3)], [(0, 1), (1, 2), (0, 2), (2, 3)],
        [(0, 1), (1, 2), (2, 3), (0, 3), (0, 2)]],
    5: [[(0, 1), (1, 2), (2, 3), (3, 4)], [(0, 1), (0, 2), (0, 3), (0, 4)], [(0, 1), (1, 2), (2, 3), (3, 4), (0, 4)],
        [(0, 1), (1, 2), (2, 3), (1, 4)]],
}
DECOR = [('C', 0, None), ('N', 0, None), ('O', 0, None), ('N', 1, None), ('O', -1, None), ('C', 0, 13)]


def search_small_graphs(ck, max_atoms, decor, full_upto):
    """exhaustive decorated graphs: molecules with the same canonical string must be identical under some atom permutation.
    up to `full_upto` atoms: every decoration of `decor` and bond orders 1 2 3; above: elements C N O, orders 1 2"""
    from chython import MoleculeContainer
    from chython.periodictable import Element
    groups = {}
    n_mols = 0
    for na in range(1, max_atoms + 1):
        skels = SKELETONS.get(na, []) if na > 1 else [[]]
        for sk in skels:
            for els in itertools.product((decor if na <= 3 else DECOR[:5]) if na <= full_upto else DECOR[:3], repeat=na):
                for ords in itertools.product((1, 2, 3) if na <= full_upto else (1, 2), repeat=len(sk)):
                    m = MoleculeContainer()
                    try:
                        for i, (sym, chg, iso) in enumerate(els):
                            cls = Element.from_symbol(sym)
                            a = cls(isotope=iso) if iso else cls()
                            if chg:
                                a.charge = chg
                            m.add_atom(a, i + 1)
                        for (x, y), o in zip(sk, ords):
                            m.add_bond(x + 1, y + 1, o)
                    except Exception:
                        continue
                    if any(a.implicit_hydrogens is None for _, a in m.atoms()):
                        continue
                    n_mols += 1
                    groups.setdefault(str(m), []).append(m)
    found = 0
    ck.count('injectivity:small-graphs', n_mols)
    ck.count('injectivity:small-graph-strings', len(groups))
    for s, ms in groups.items():
        first = ms[0]
        sig0 = None
        for m in ms[1:]:
            ck.case(('inj-small', s, tuple(atom_sig(a) for _, a in m.atoms()), tuple((n, k, int(bd)) for n, k, bd in m.bonds())), nontrivial=True)
            nums = list(first._atoms)
            same = False
            if len(m._atoms) == len(nums):
                for perm in itertools.permutations(nums):
                    f = dict(zip(nums, perm))
                    if not compare_along(first, m, f, stereo=False):
                        same = True
                        break
            if not same:
                desc = lambda x: {'atoms': [(n, a.atomic_symbol, a.charge, a.isotope) for n, a in x.atoms()], 'bonds': [(n, k, int(bd)) for n, k, bd in x.bonds()]}
                ck.counterexample(f'collision-small:{s}', 'two different small molecules receive the same canonical string', {'a': desc(first), 'b': desc(m)},
                                  s, 'different strings', 'all atom permutations')
                found += 1
                break
    return found


def search_ring_stereo(ck, n_mols, n_orders):
    """polycyclic stereo molecules in many random orders: the spellings in which a stereo atom (or a double-bond atom) carries a
    closure that ends and one that starts, closures written on both sides of a stereo centre, marks on closure bonds"""
    from chython import smiles
    rng = random.Random(f'{ck.seed}:c02ring')
    cand = [s for s in corpus.stereo_smiles() if sum(ch.isdigit() for ch in s) >= 6]
    found = 0
    n = 0
    for smi in corpus.sample(cand, 4 * n_mols, ck.seed, 'c02ring'):
        if n >= n_mols:
            break
        try:
            m = smiles(smi)
        except Exception:
            continue
        if m is None or m.rings_count < 3 or not sum(n_labels(m)):
            continue
        n += 1
        ck.count('roundtrip:polycyclic-stereo-molecules')
        for k in range(n_orders):
            if roundtrip(ck, smi, m, 'r' + rng.choice(['', 'a', 'h']), f'{ck.seed}:ring:{n}:{k}', None):
                found += 1
                break
    return found


def search_forced_labels(ck, mols, limit):
    """a label on a centre RDKit regards as stereogenic must survive write -> read, also when chython's own reader would not have
    put it there (dependent / pseudo-asymmetric centres that need the stereo-aware refinement)"""
    found = 0
    n = 0
    for name, m in mols:
        if n >= limit:
            break
        if name.startswith('api:') or '#' in name or not sum(n_labels(m)):
            continue
        n += 1
        for vname, c in forced_variants(name, m):
            ck.count('roundtrip:forced-label-variants')
            found += roundtrip(ck, vname, c, '', 0)
            found += roundtrip(ck, vname, c, 'r', f'{ck.seed}:forced:{vname}')
    return found


# stereogenic, unlabelled molecules for the labelling histories: allenes (open chain, ring-substituted, hetero-substituted,
# explicit H), a longer odd cumulene, tetrahedral centres, double bonds, an even cumulene, and mixtures
HISTORY_BASES = [
    'CC(F)=C=C(C)Cl', 'CC=C=CC', 'FC(Cl)=C=C(Br)I', 'CC(F)=C=C1CCC(C)CC1', 'OC(C)=C=C(C)N', '[H]C(C)=C=C([H])Cl', 'CC(F)=C=C=C=C(C)Cl',
    'CC(=C=C(C)Cl)C(F)=C=CC', 'CC(F)=C=CC(C)O', 'CC(F)=C=CC=CC',
    'CC(N)C(=O)O', 'FC(Cl)Br', 'CC(F)C(C)Cl', 'CC1CCC(C)CC1', 'CC=CC', 'FC=CCl', 'CC=C=C=CC', 'CC(F)C=CC', 'CC=CC=CC',
]


def touch(m):
    """every public way to ask for the canonical string: all of them cache"""
    s = str(m)
    hash(m)
    tuple(m.smiles_atoms_order)
    m == m   # noqa: B015
    return s


def unlabelled_centres(m):
    """(kind, key, args of the public labelling call) for every stereogenic centre / bond that carries no label"""
    out = []
    for n in sorted(m.chiral_tetrahedrons):
        out.append(('tetrahedron', n, (n, tuple(m.stereogenic_tetrahedrons[n]))))
    for n in sorted(m.chiral_allenes):
        out.append(('allene', n, (n, tuple(m.stereogenic_allenes[n][:2]))))
    for a, c in sorted(m.chiral_cis_trans):
        env = m.stereogenic_cis_trans[(a, c)]
        out.append(('cis-trans', (a, c), (a, c, env[0], env[1])))
    return out


def apply_label(m, kind, args, mark):
    if kind == 'cis-trans':
        m.add_cis_trans_stereo(*args, mark)
    else:
        m.add_atom_stereo(*args, mark)


def history_molecules():
    """molecules whose canonical string was requested BEFORE they were labelled through the public API (add_atom_stereo /
    add_cis_trans_stereo with the default cache handling): members of the correspondence pool and of the round-trip search"""
    from chython import smiles
    out = []
    for base in HISTORY_BASES[:12]:
        try:
            m = smiles(base)
            touch(m)
            cs_ = unlabelled_centres(m)
            if not cs_:
                continue
            for i, (kind, key, args) in enumerate(cs_):
                apply_label(m, kind, args, i % 2 == 0)
                touch(m)            # and again between two labellings
            out.append((f'api:history:str-then-label:{base}', m))
        except Exception:
            continue
    return out


def search_label_history(ck, mols, limit):
    """the canonical string (str / hash / == / smiles_atoms_order) must not depend on WHEN it was first asked for: a molecule
    labelled through the public API after its string was requested has the string, hash and order of the same molecule labelled
    without that request, differs from the unlabelled one, and reads back with the label; the same for removing the labels"""
    from chython import smiles
    found = 0
    bases = list(HISTORY_BASES)
    k = 0
    for name, m in mols:
        if k >= limit:
            break
        if name.startswith('api:') or '#' in name or not sum(n_labels(m)) or len(m) > 40:
            continue
        try:
            c = m.copy()
            c.clean_stereo()
            bases.append(str(c))
            k += 1
        except Exception:
            continue
    for base in bases:
        try:
            u = smiles(base)
            centres = unlabelled_centres(u)
        except Exception:
            continue
        if not centres:
            continue
        s0 = touch(u)
        for kind, key, args in centres[:6]:
            for mark in (True, False):
                ck.count('history:label-after-str:' + kind)
                call = (f'm.add_cis_trans_stereo({", ".join(map(repr, args))}, {mark})' if kind == 'cis-trans'
                        else f'm.add_atom_stereo({args[0]}, {args[1]!r}, {mark})')
                replay = (f"from chython import smiles\nm = smiles({base!r}); print('before', str(m), hash(m))\n{call}\n"
                          f"print('after, same object      ', str(m), hash(m))\nw = smiles({base!r})\n{call.replace('m.', 'w.', 1)}\n"
                          f"print('same labelling, no str() before', str(w), hash(w)); print(m == w)\n"
                          f"print('read back', [(n, a.stereo) for n, a in smiles(str(m)).atoms() if a.stereo is not None])")
                try:
                    v = smiles(base)
                    touch(v)
                    apply_label(v, kind, args, mark)
                    w = smiles(base)
                    apply_label(w, kind, args, mark)
                    sv, sw = str(v), str(w)
                    obs = {'str': sv, 'hash': hash(v), 'order': tuple(v.smiles_atoms_order), 'eq_reference': v == w, 'eq_unlabelled': v == u}
                    exp = {'str': sw, 'hash': hash(w), 'order': tuple(w.smiles_atoms_order), 'eq_reference': True, 'eq_unlabelled': False}
                except Exception as e:
                    ck.counterexample(f'label-history-raises:{base}:{kind}', f'labelling after str() raises {type(e).__name__}: {e}',
                                      {'molecule': base, 'history': ['str(m); hash(m); m.smiles_atoms_order', call]}, type(e).__name__,
                                      'the labelled molecule', 'history through the public API', replay_py=replay)
                    found += 1
                    continue
                ck.case(('history', base, kind, repr(key), mark), nontrivial=len(v) > 2)
                if sw == s0:
                    continue      # the label does not show in the string at all: not this family's business (injectivity search)
                if obs != exp:
                    ck.counterexample(f'label-history:{kind}:{base}',
                                      'the canonical string / hash / order of a molecule labelled through the public API depends on whether '
                                      'str(mol) was requested before the labelling: ' +
                                      '; '.join(f'{q}: {obs[q]!r} instead of {exp[q]!r}' for q in obs if obs[q] != exp[q]),
                                      {'molecule': base, 'history': ['m = smiles(%r)' % base, 'str(m); hash(m); m.smiles_atoms_order; m == m', call, 'str(m)'],
                                       'unlabelled_string': s0},
                                      obs, exp, 'the same labelling on a fresh object whose string was never requested; '
                                      'labelled and unlabelled molecules must differ', replay_py=replay)
                    found += 1
                found += roundtrip(ck, f'api:history:{base}:{call}', v, '', 0)
        # removing the labels after the string was requested
        try:
            lab = smiles(base)
            for i, (kind, key, args) in enumerate(unlabelled_centres(lab)):
                apply_label(lab, kind, args, i % 2 == 0)
            s1 = touch(lab)
            lab.clean_stereo()
            ck.count('history:clean-stereo-after-str')
            if s1 != s0 and (str(lab) != s0 or hash(lab) != hash(u) or lab != u):
                ck.counterexample(f'label-history:clean_stereo:{base}', 'str(mol) after clean_stereo() still shows the labels',
                                  {'molecule': base, 'history': ['label every centre', 'str(m)', 'm.clean_stereo()', 'str(m)']},
                                  str(lab), s0, 'the unlabelled molecule read from its SMILES',
                                  replay_py=f"from chython import smiles\nm = smiles({s1!r}); print(str(m)); m.clean_stereo(); print(str(m))")
                found += 1
        except Exception:
            pass
    return found


# ---- macrocyclic conjugated polyenes (fifth wave): rings of 8..14 atoms with 2 or 3 conjugated stereo double bonds, optionally one
# O / N somewhere in the saturated part, every E/Z isomer.  Whatever atom the writer starts from, some ring bond of the conjugated
# system or next to it becomes the ring-closure bond: the single bond BETWEEN two stereo double bonds, a stereo double bond itself,
# or a bond of the saturated part - the paths of __ct_map that open-chain polyenes and isolated ring double bonds never take.
MACRO_SET = set()


def macro_polyene_texts():
    """input spellings with the ring closure in the saturated part (X1...../C=C/C=C\\1), grouped per skeleton"""
    out = []
    for n in range(8, 15):
        for nd in (2, 3):
            rest = n - 2 * nd
            if rest < 2:
                continue
            for het in (None, 'O', 'N'):
                for hp in ([None] if het is None else range(rest)):
                    tail = ['C'] * rest
                    if het:
                        tail[hp] = het
                    group = []
                    for marks in itertools.product('/\\', repeat=nd):
                        group.append(tail[0] + '1' + ''.join(tail[1:]) + '/C=C' + ''.join(mk + 'C=C' for mk in marks[:-1]) + marks[-1] + '1')
                    out.append(group)
    return out


def macro_groups(ck):
    """the skeleton groups of a run: every carbocyclic diene, a seed-dependent sample of the rest (all under --thorough)"""
    groups = macro_polyene_texts()
    if ck.tier != 'quick':
        return groups
    fixed = [g for g in groups if g[0].count('=') == 2 and 'O' not in g[0] and 'N' not in g[0]]
    rest = [g for g in groups if g not in fixed]
    return fixed + random.Random(f'{ck.seed}:c02macro').sample(rest, 14)


def macro_pool(ck):
    """members of the correspondence pool: one isomer of every group of the run (rotating through the isomers)"""
    from chython import smiles
    out = []
    for i, g in enumerate(macro_groups(ck)):
        for text in (g[i % len(g)], g[(i + 1) % len(g)]) if i % 3 == 0 else (g[i % len(g)],):
            MACRO_SET.add(text)
            try:
                out.append((text, smiles(text)))
            except Exception:
                continue
    return out


def search_macro_polyenes(ck):
    """every isomer, written canonically, in two styles and in random orders, must denote for RDKit the isomer RDKit reads from the
    INPUT spelling (a reference that never passed through chython's writer), must read back equal along the written order, and two
    isomers RDKit tells apart never share a canonical string"""
    from chython import smiles
    from rdkit import Chem, RDLogger
    RDLogger.DisableLog('rdApp.*')
    rng = random.Random(f'{ck.seed}:c02macro-search')
    found = 0
    for g in macro_groups(ck):
        canon = {}
        for text in g:
            rd = Chem.MolFromSmiles(text)
            try:
                m = smiles(text)
            except Exception:
                continue
            nd = text.count('=')
            if rd is None or n_labels(m)[1] != nd or sum(1 for bd in rd.GetBonds() if bd.GetStereo() != Chem.BondStereo.STEREONONE) != nd:
                ck.count('macro-polyenes:skipped (reader or RDKit does not label every double bond)')
                continue
            ref = (Chem.MolToSmiles(rd), Chem.MolToSmiles(rd, isomericSmiles=False), rd, text)
            ck.count(f'macro-polyenes:isomers ring={sum(ch.isalpha() for ch in text)} double-bonds={nd}')
            bad = 0
            for spec in ('', rng.choice(['a', 'h', 'A', 'm'])):
                bad += roundtrip(ck, text, m, spec, 0, ref)
            for k in range(3):
                if bad:
                    break
                bad += roundtrip(ck, text, m, 'r' + rng.choice(['', 'a']), f'{ck.seed}:macro:{text}:{k}', ref)
            found += bad
            try:
                s = str(m)
                if '\\1' in s or '/1' in s or '\\%' in s or '/%' in s:
                    ck.count('macro-polyenes:canonical string with a direction mark on a ring-closure bond')
                canon.setdefault(s, []).append((text, ref[0], bad))
            except Exception:
                pass
        for s, members in canon.items():
            if len({r for _, r, _ in members}) > 1 and not any(bd for *_, bd in members):
                ck.counterexample(f'collision-stereo:{members[0][0]}', 'two stereoisomers RDKit tells apart receive the same canonical string',
                                  {'isomers': [t for t, *_ in members]}, s, 'different strings', 'RDKit canonical isomeric SMILES of the input spellings',
                                  replay_py='from chython import smiles\n' + '\n'.join(f'print(str(smiles({t!r})))' for t, *_ in members))
                found += 1
    return found


# ---- access histories (fifth wave): the canonical string, its hash and the written order are cached by whichever entry point is used
# first (str, hash, ==, smiles_atoms_order, __format__('', _return_order=True), get_fast_mapping); every first access must leave the
# same values behind
ACCESS = [
    ('smiles_atoms_order', 'm.smiles_atoms_order', lambda c: tuple(c.smiles_atoms_order)),
    ('format-return-order', "m.__format__('', _return_order=True)", lambda c: c.__format__('', _return_order=True)),
    ('get_fast_mapping', 'm.get_fast_mapping(m.copy())', lambda c: c.get_fast_mapping(c.copy())),
    ('hash', 'hash(m)', hash),
    ('eq', 'm == m.copy()', lambda c: c == c.copy()),
    ('str', 'str(m)', str),
]


def cx_block_expected(m, order):
    """the CXSMILES radical block by its definition: zero-based written positions of the radical atoms; None without radicals"""
    idx = [i for i, n in enumerate(order) if m._atoms[n].is_radical]
    return idx or None


def access_history_case(ck, name, m, kind, call, access):
    """one fresh copy, one first access, then everything a user can ask for. returns True when a violation was reported"""
    c = m.copy()
    d = m.copy()
    try:
        access(c)
        got = {'str': str(c), 'format': format(c, ''), 'order': tuple(c.smiles_atoms_order), 'hash_is_hash_of_str': hash(c) == hash(str(c))}
        strings, order = d._smiles(d._smiles_order(), _return_order=True)      # no cache involved
    except Exception as e:
        ck.unchecked(f'access history {kind}: raised', f'{name}: {type(e).__name__}: {e}', [name])
        return False
    ck.case(('access-history', name, kind), nontrivial=len(m) > 2)
    ck.count('access-history:first=' + kind)
    idx = cx_block_expected(d, order)
    exp_text = ''.join(strings) + ('' if idx is None else ' |^1:' + ','.join(map(str, idx)) + '|')
    exp = {'str': exp_text, 'format': exp_text, 'order': tuple(order), 'hash_is_hash_of_str': True}
    if idx is not None:
        ck.count('access-history:radical')
    if got == exp:
        return False
    src = name.split('#')[0]
    ck.counterexample(f'access-history:{kind}:{name}',
                      f'after {call} as the first access, the cached canonical string / order differ from an uncached run of the writer: ' +
                      '; '.join(f'{q}: {got[q]!r} instead of {exp[q]!r}' for q in got if got[q] != exp[q]),
                      {'molecule': name, 'history': ['m = fresh copy', call, 'str(m); format(m, ""); m.smiles_atoms_order; hash(m)']},
                      got, exp, "the list of strings of an uncached _smiles run joined, plus the radical block '|^1:<written positions of the radical "
                      "atoms>|' written out from its definition",
                      replay_py=f"from chython import smiles\nm = smiles({src!r})\n{call}\nprint(repr(str(m)), m.smiles_atoms_order)\n"
                                f"w = smiles({src!r})\nprint(repr(str(w)), w.smiles_atoms_order)")
    return True


def search_access_history(ck, mols, limit):
    rng = random.Random(f'{ck.seed}:c02access')
    found = 0
    rad = [x for x in mols if x[1].is_radical and '#' not in x[0]]
    other = [x for x in mols if not x[1].is_radical and not x[0].startswith('api:history')]
    for name, m in rad:
        bad = False
        for kind, call, access in ACCESS:
            bad = access_history_case(ck, name, m, kind, call, access) or bad
        found += bad
        # and the molecule as the history leaves it goes through the round trip: the radical flags must come back
        if not bad:
            c = m.copy()
            c.smiles_atoms_order   # noqa: B018
            found += roundtrip(ck, name, c, '', 0)
    for name, m in rng.sample(other, min(limit, len(other))):
        for kind, call, access in rng.sample(ACCESS[:5], 2):
            found += access_history_case(ck, name, m, kind, call, access)
    return found


def search(ck, mols):
    quick = ck.tier == 'quick'
    rng = random.Random(f'{ck.seed}:c02search')
    # the macrocyclic polyenes have their own search (RDKit reference from the input spelling, not from the canonical string)
    mols = [x for x in mols if x[0].split('#')[0] not in MACRO_SET]
    rest = [x for x in mols if x[0] not in SPECIAL_SET]
    sub = mols if not quick else ([x for x in mols if x[0] in SPECIAL_SET or x[0].startswith('api:')] + rng.sample(rest, min(110, len(rest))))
    found = search_roundtrip(ck, sub, n_random=3 if quick else 5, full=not quick)
    found += search_ring_stereo(ck, 45 if quick else 600, 10 if quick else 25)
    found += search_forced_labels(ck, mols, 250 if quick else 2000)
    found += search_label_history(ck, mols, 25 if quick else 300)
    found += search_access_history(ck, mols, 40 if quick else 400)
    found += search_macro_polyenes(ck)
    stereo_mols = [x for x in mols if sum(n_labels(x[1])) > 0 and '#' not in x[0]]
    found += search_stereoisomers(ck, stereo_mols if not quick else stereo_mols[:90], max_labels=5 if quick else 8)
    found += search_small_graphs(ck, 4 if quick else 5, DECOR[:5] if quick else DECOR, 3 if quick else 4)
    # the two recorded defect classes are exercised on every run (they must be reported as long as they exist)
    known_probes(ck)
    return found


def known_probes(ck):
    from chython import smiles, MoleculeContainer
    try:
        m = smiles('[Si]:1:C:C:C:C:C:1')
        roundtrip(ck, '[Si]:1:C:C:C:C:C:1', m, '', 0)
    except Exception:
        pass
    # a stereo centre with an implicit hydrogen written first in a later component; a stereo double bond written as ring-closure bond
    for smi in ('O.[C@H](F)(Cl)Br', 'O.N[C@H](C)O'):
        m = smiles(smi)
        for k in range(12):
            roundtrip(ck, smi, m, 'r', f'probe:{k}')
    for smi in ('C/C1=C/C=C/CCCCCC1', 'C/C1=C\\C=C/CCCCCC1'):
        m = smiles(smi)
        roundtrip(ck, smi, m, '', 0)
    search_stereoisomers(ck, [('C/C1=C/C=C/CCCCCC1', smiles('C/C1=C/C=C/CCCCCC1'))], 4)
    m = MoleculeContainer()
    m.add_atom('C', 10000)
    m.add_atom('O', 12)
    m.add_bond(10000, 12, 1)
    roundtrip(ck, 'api:atom-number-10000', m, 'm', 0)
    roundtrip(ck, 'api:atom-number-10000', m, '', 0)


def directed_search(ck, bad_writer, bad_reader, mols):
    """a theorem or a correspondence broke: property-level oracle on and around the disagreeing inputs (when there are none:
    a table theorem broke: the special molecules, which exercise every table entry, in every style and more random orders)"""
    from chython import smiles
    rng = random.Random(f'{ck.seed}:c02directed')
    found = 0
    seen = set()
    around = []
    for name, m, spec, text in bad_writer[:25]:
        if name in seen or not len(m):
            continue
        seen.add(name)
        around.append((name, m))
        for _ in range(3):
            try:
                around.append((name + '#renumbered', corpus.renumber(m, rng)))
            except Exception:
                pass
    # texts on which the tokenizer models disagree: a text the WRITER produced in the correspondence goes back through the real reader
    # and is compared with the molecule it was written for
    n_given = 0
    for kind, s in bad_reader:
        if kind == 'tokenize' and s in ORIGIN and n_given < 40:
            name, m, spec, text, order = ORIGIN[s]
            n_given += 1
            ck.count('directed:written-text-reread')
            found += roundtrip(ck, name, m, spec, 0, None, given=(text, order))
    for kind, s in bad_reader[:200]:
        try:
            m = smiles(s if kind == 'tokenize' else f'[{s}]')
        except Exception:
            continue
        if m is not None and len(m):
            around.append((s if kind == 'tokenize' else f'[{s}]', m))
    if not around:
        around = [x for x in mols if x[0] in SPECIAL_SET]
    found += search_roundtrip(ck, around, n_random=12, full=True)
    found += search_stereoisomers(ck, [x for x in around if sum(n_labels(x[1])) > 0], max_labels=7)
    return found


def run(ck):
    ck.trusted += ['translators tools/gen_ctmap.py (body of MoleculeSmiles.__ct_map, statement by statement), tools/gen_smiles_entry.py (bodies of Smiles.__str__, smiles_atoms_order, __format__), tools/gen_format_atom.py (_format_atom after the stereo block), tools/gen_smiles_tables.py, tools/gen_smiles_more.py (Python ast: charge_str, organic_set, B C N P S, heap bounds, _format_closure body, '
                   'replace_dict, charge_dict, character classes of _tokenize, aromatic symbols and atom_re text), tools/gen_elements.py, tools/gen_stereo.py',
                   'correspondence runner harness/checks/C02.py + harness/coqcases.py + harness/coqmol.py',
                   'CachedMethods shim harness/boot.py', 'CPython 3.12.1', 'RDKit 2026.3 (search only)']
    ck.assumptions += [
        'coq/model/Writer.v is a hand-written restatement of Smiles._smiles / _format_atom / _format_bond / __ct_map / _format_cxsmiles and of '
        '_tokenize / _atom_parse; the tie is the correspondence of this check (list of written strings, atom order, final text); since round 4 '
        '__ct_map, _format_atom after its stereo block and the entry points __str__ / smiles_atoms_order / __format__ are ALSO translated from '
        'the source on every run and proved equal to the hand-written definitions (C02_*_generated)',
        'inputs of the model rather than modelled: the weights (_chiral_morgan / atoms_order values are taken from the implementation), CPython set '
        'iteration order (replaced by the observed written order as tie-break), the stereo registries (stereogenic_* / _stereo_* dictionaries)',
        'the parser / create_molecule / postprocess_molecule side of the round trip is not modelled here (C03 models the reader): the round trip as a whole '
        'rests on the search of this check, the theorems cover the token level (bracket atoms, token stream, closure numbers)',
        'C02_writer_text_tokenizes and C02_closure_numbers_consistent have decidable hypotheses (wtoks_of/wtoks_ok, wf_events_b); they are evaluated on the '
        'outputs of the model in the correspondence, not proved for every traversal',
        'implicit_hydrogens None (undetermined: aromatic heteroatom before kekule(), valence error) is not counted as information the round trip can lose']
    ck.extra['rule'] = ('correspondence: special molecules (brackets, radicals, stereo, allenes, cis/trans in chains and rings, multi-component, special bonds), '
                        'corpus samples and random renumberings x format specs (canonical + 2-3 rotating of 15; all 15 for every 7th molecule), plus '
                        'caller-supplied weight functions (atom numbers, random injective, random with ties, constant) on special and every 9th molecule; '
                        'every model output is also run through the token-stream checker, every 4th through the closure-list checker; '
                        'tokenizer: every written text, all strings <= 2 (quick) / 3 characters over 33 SMILES characters, 600 corruptions of written texts; '
                        'atom_parse: every written bracket body, all element symbols, field grids incl. out-of-range values, random bodies. '
                        'search: write in each style and random orders -> chython reader -> attribute comparison along the written order, stereo via '
                        '_translate_*_sign and via RDKit, also with caller-supplied weights; polycyclic stereo molecules in 10 (25) random orders; '
                        'injectivity on all stereoisomers of sampled molecules and on exhaustive decorated graphs <= 4 (5) atoms; labelling histories (str / hash / order requested before add_atom_stereo / add_cis_trans_stereo / clean_stereo on allenes, tetrahedrons, double bonds) against the same labelling on a fresh object. '
                        'non-trivial = molecule with more than 2 atoms / tokenizer input non-empty / bracket body accepted')
    import time
    tm = {}
    t0 = time.time()
    proved = common.standard_proof_steps(ck, translators=['smiles_tables', 'smiles_more', 'smiles_entry', 'ctmap', 'format_atom', 'elements', 'stereo'])
    tm['proof_steps'] = round(time.time() - t0, 1)
    t0 = time.time()
    mols = pool(ck)
    tm['pool'] = round(time.time() - t0, 1)
    t0 = time.time()
    tied_w, bad_w = corr_writer(ck, mols)
    tm['corr_writer'] = round(time.time() - t0, 1)
    t0 = time.time()
    texts = sorted({t for name, m in mols[:400] for t in (str(m),)})
    tied_r, bad_r = corr_reader(ck, texts + WRITTEN_TEXTS)
    tm['corr_reader'] = round(time.time() - t0, 1)
    t0 = time.time()
    found = search(ck, mols)
    tm['search'] = round(time.time() - t0, 1)
    ck.extra['timing_s'] = tm
    if not (proved and tied_w and tied_r):
        t0 = time.time()
        found += directed_search(ck, bad_w, bad_r, mols)
        tm['directed_search'] = round(time.time() - t0, 1)
    ck.extra['proved'] = proved
    ck.extra['tied'] = bool(tied_w and tied_r)
    ck.extra['search_counterexamples'] = found

