"""C15 reactions: role-preserving I/O, order-free identity, exact condensed graph.

proof steps (props/C15.v) + correspondence of MoleculeContainer.compose / ReactionContainer.compose / center_atoms /
ReactionContainer.__format__ / the reaction branch of smiles() / the CGR SMILES tokens with the Coq models on reactions
built by ground-truth edits of corpus molecules + search with oracles on the real code that do not use the model."""
import itertools
import random
import re
from functools import reduce
from operator import or_

import boot  # noqa
import common
import coqcases
import coqmol
import corpus
from coqfmt import zraw, b, lst, opt, tup, s as cstr

replay = common.generic_replay

EXN = {'KeyError', 'ValueError', 'IndexError', 'TypeError', 'StopIteration', 'AttributeError', 'IncorrectSmiles'}


def exn_term(e):
    n = type(e).__name__
    return 'Err ' + (n if n in EXN else 'OtherError')


# ---------------------------------------------------------------------------------------------------------------
# reactions with known ground truth

SMALL = ['O', 'CO', 'CC(=O)O', '[Na+].[Cl-]', '[K+].[OH-]', 'N', 'Cl', 'c1ccccc1', 'CC#N', '[O-][N+](=O)c1ccccc1',
         'C[N+](C)(C)C.[Br-]', '[Li]CCCC', 'OO', 'C=C', 'CS(C)=O', '[Mg+2].[Cl-].[Cl-]', 'CCN(CC)CC', 'C1CCOC1']
RADICALS = ['[CH3] |^1:0|', 'C[CH2] |^1:1|', '[O][O] |^1:0,1|', '[Na]', '[Na] |^1:0|', '[OH] |^1:0|', 'C[O] |^1:1|',
            '[Cl] |^1:0|', '[Cu]', '[Cu] |^1:0|']


_TWINS = []


def asym_twin_pool():
    """pairs (a, d) of molecules of one species M1-X-M2 with the SAME SMILES text, the radical on M1 in a and on M2 in d,
    and d's atoms stored in the opposite order (parsed from the reverse spelling): their radical flags differ along the
    written SMILES order but coincide in atom-storage order.  Found by trying metal / linker combinations."""
    if _TWINS:
        return _TWINS
    from chython import smiles
    metals = ['Mg', 'Ag', 'Li', 'Na', 'K', 'Cu', 'Zn', 'Ca']
    for m1 in metals:
        for m2 in metals:
            if m1 == m2:
                continue
            for x in ('O', 'S', 'C', 'N'):
                try:
                    a = smiles(f'[{m1}]{x}[{m2}] |^1:0|')
                    d = smiles(f'[{m2}]{x}[{m1}] |^1:0|')
                    fa, fd = fmol_of(a, ''), fmol_of(d, '')
                except Exception:
                    continue
                if fa[0] == fd[0] and fa[2] != fd[2] and [at.is_radical for _, at in a.atoms()] == [at.is_radical for _, at in d.atoms()]:
                    _TWINS.append((f'[{m1}]{x}[{m2}] |^1:0|', f'[{m2}]{x}[{m1}] |^1:0|'))
    return _TWINS


class Rxn:
    """one generated reaction: the chython object, the two mapped sides and the changes made, kept in plain dicts"""

    def __init__(self):
        self.rxn = None
        self.desc = None          # reproducible description
        self.truth = None         # (changed bonds: {(n,m)}, changed atoms: {n}) or None when numbers collide
        self.balanced = False


def pick_molecules(rng, pool, k):
    from chython import smiles
    out = []
    while len(out) < k:
        smi = rng.choice(pool) if rng.random() < 0.75 else rng.choice(SMALL)
        try:
            m = smiles(smi)
        except Exception:
            continue
        if m is None or not len(m) or len(m) > 32:
            continue
        out.append((smi, m))
    return out


def disjoint_union(mols):
    """the molecules renumbered into disjoint ranges, as one molecule (plain dict surgery through the public API)"""
    off = 0
    parts = []
    for m in mols:
        c = m.copy()
        nums = list(c._atoms)
        # two-step remap to avoid overlaps of old and new numbers
        c.remap({n: 100000 + i for i, n in enumerate(nums)})
        c.remap({100000 + i: off + i + 1 for i in range(len(nums))})
        off += len(nums)
        parts.append(c)
    return parts


def orders_of(m):
    return {(min(n, k), max(n, k)): int(bd) for n, k, bd in m.bonds()}


def apply_edits(p, rng, k, allow_atoms):
    """k random edits of p (in place) through the public API; returns the log"""
    log = []
    for _ in range(k):
        atoms = list(p._atoms)
        kind = rng.choice(['del', 'add', 'chg', 'charge', 'rad', 'rad', 'charge'] + (['delatom', 'addatom'] if allow_atoms else []))
        if kind == 'del':
            bs = [(n, m) for n, m, _ in p.bonds()]
            if bs:
                n, m = rng.choice(bs)
                p.delete_bond(n, m)
                log.append(('del', n, m))
        elif kind == 'add' and len(atoms) > 1:
            n, m = rng.sample(atoms, 2)
            if not p.has_bond(n, m):
                o = rng.choice([1, 1, 1, 2, 3, 8])
                p.add_bond(n, m, o)
                log.append(('add', n, m, o))
        elif kind == 'chg':
            bs = [(n, m, int(x)) for n, m, x in p.bonds()]
            if bs:
                n, m, o = rng.choice(bs)
                no = rng.choice([x for x in (1, 2, 3, 4, 8) if x != o])
                p.delete_bond(n, m)
                p.add_bond(n, m, no)
                log.append(('chg', n, m, o, no))
        elif kind == 'charge':
            n = rng.choice(atoms)
            c = rng.choice([-2, -1, 0, 1, 2, 3])
            p.atom(n).charge = c
            log.append(('charge', n, c))
        elif kind == 'rad':
            n = rng.choice(atoms)
            p.atom(n).is_radical = not p.atom(n).is_radical
            log.append(('rad', n))
        elif kind == 'delatom' and len(atoms) > 2:
            n = rng.choice(atoms)
            p.delete_atom(n)
            log.append(('delatom', n))
        elif kind == 'addatom':
            n = p.add_atom(rng.choice(['C', 'O', 'N', 'Cl', 'Na']))
            if rng.random() < 0.7:
                m = rng.choice(atoms)
                p.add_bond(n, m, 1)
            log.append(('addatom', n))
    p.flush_cache()
    return log


def group_components(rng, big, salt_p):
    """split a molecule into its components; with probability salt_p neighbouring components stay one molecule"""
    comps = big.split()
    out = []
    for c in comps:
        if out and rng.random() < salt_p:
            out[-1] = out[-1].union(c)
        else:
            out.append(c)
    return out


def gen_reaction(rng, pool, idx):
    """a reaction assembled from corpus molecules by random bond / charge / radical edits with known changes"""
    from chython import ReactionContainer, smiles
    shape = rng.random()
    nr = rng.choice([1, 1, 2, 2, 3])
    picked = pick_molecules(rng, pool, nr)
    R = reduce(lambda a, c: a.union(c), disjoint_union([m for _, m in picked]))
    P = R.copy()
    allow_atoms = rng.random() < 0.3
    k = rng.choice([0, 1, 1, 2, 2, 3, 4, 6])
    log = apply_edits(P, rng, k, allow_atoms)
    reactants = group_components(rng, R, 0.25)
    products = group_components(rng, P, 0.25) if len(P) else []
    # role shapes incl. empty roles
    if shape < 0.07:
        products = []
    elif shape < 0.12:
        reactants = []
    reagents = []
    ng = rng.choice([0, 0, 0, 1, 1, 2, 3])
    top = max(list(R._atoms) + list(P._atoms)) + 1
    collide = rng.random() < 0.2
    for _ in range(ng):
        src = rng.choice(SMALL + RADICALS)
        g = smiles(src)
        nums = list(g._atoms)
        g.remap({n: 100000 + i for i, n in enumerate(nums)})
        g.remap({100000 + i: top + i for i in range(len(nums))})
        if not collide:      # colliding reagents all start at the same number: union() renumbers the later ones
            top += len(nums)
        reagents.append(g)
    if collide:
        top += 60
        if rng.random() < 0.3 and products:     # a product whose numbers collide with another product: the mapping is lost
            products = products + [products[0].copy()]
    if shape > 0.97 and reagents:
        reactants, products = [], []
    if rng.random() < 0.15:
        # extra radicals / twins that differ in radical state only, inside one role
        if rng.random() < 0.5 and asym_twin_pool():
            # same SMILES text, radical on different atoms, atoms stored in opposite orders
            sa, sd = rng.choice(asym_twin_pool())
            a, bb = smiles(sa), smiles(sd)
            a.remap({1: top, 2: top + 1, 3: top + 2})
            bb.remap({1: top + 3, 2: top + 4, 3: top + 5})
            top += 6
        else:
            a, bb = smiles('[Na]'), smiles('[Na] |^1:0|')
            a.remap({1: top})
            bb.remap({1: top + 1})
            top += 2
        tw = [a, bb] if rng.random() < 0.5 else [bb, a]
        if rng.random() < 0.5:
            reactants = reactants + tw
            products = products + [x.copy() for x in tw]
        else:
            reagents = reagents + tw
    rng.shuffle(reactants)
    rng.shuffle(products)
    if not reactants and not products and not reagents:
        reactants = [R]
    x = Rxn()
    x.rxn = ReactionContainer(reactants, products, reagents)
    x.desc = {'idx': idx, 'from': [sm for sm, _ in picked], 'edits': log, 'n_reagents': len(reagents), 'collide': collide,
              'roles': [[format(m, 'm') for m in role] for role in (reactants, reagents, products)]}
    x.truth = truth_of(x.rxn)
    return x


def side_data(mols):
    """atoms and bond orders of one side as plain dicts; None when two molecules share an atom number (union() then
    renumbers and the numbering of the condensed graph is not that of the molecules)"""
    atoms, orders = {}, {}
    for m in mols:
        for n, a in m.atoms():
            if n in atoms:
                return None
            atoms[n] = (a.atomic_number, a.isotope, a.charge, a.is_radical)
        orders.update(orders_of(m))
    return atoms, orders


def truth_of(rxn):
    """which atoms and bonds differ between the sides, from plain data (never through compose / union)"""
    left = side_data(list(rxn.reagents) + list(rxn.reactants))
    right = side_data(list(rxn.products))
    if left is None or right is None:
        return None
    (ra, ro), (pa, po) = left, right
    both = set(ra) & set(pa)
    t_bonds = {k for k in set(ro) | set(po) if ro.get(k) != po.get(k) and (k[0] in both or k[1] in both)}
    t_atoms = {n for n in both if ra[n][2:] != pa[n][2:]}
    clash = {n for n in both if ra[n][:2] != pa[n][:2]}
    return {'bonds': t_bonds, 'atoms': t_atoms, 'clash': clash, 'balanced': set(ra) == set(pa), 'left': left, 'right': right}


def gen_reactions(ck, n):
    rng = random.Random(f'{ck.seed}:c15:rxn')
    pool = corpus.sample(corpus.lipo(), 400, ck.seed, 'c15')
    out = []
    i = 0
    while len(out) < n and i < 5 * n:
        i += 1
        try:
            out.append(gen_reaction(rng, pool, i))
        except Exception as e:  # an edit the library refuses (valence machinery): not this property's business
            ck.count('generator:skipped:' + type(e).__name__)
    return out


# ---------------------------------------------------------------------------------------------------------------
# printing CGRs and writer inputs as Coq terms

def datom_term(a):
    if a.isotope is None and not a.is_radical and not a.p_is_radical:
        return f'(DA {zraw(a.atomic_number)} {zraw(a.charge)} {zraw(a.p_charge)})'
    return (f'(mkDAtom {zraw(a.atomic_number)} {opt(a.isotope, zraw)} {zraw(a.charge)} {b(a.is_radical)} '
            f'{zraw(a.p_charge)} {b(a.p_is_radical)})')


def dbond_term(bd):
    if bd.order is not None and bd.order == bd.p_order:
        return f'(E {bd.order})'
    return f'(mkDBond {opt(bd.order, zraw)} {opt(bd.p_order, zraw)})'


def cgr_term(h):
    atoms = lst([tup(zraw(n), datom_term(a)) for n, a in h._atoms.items()])
    adj = lst([tup(zraw(n), lst([tup(zraw(k), dbond_term(bd)) for k, bd in nb.items()])) for n, nb in h._bonds.items()])
    return f'(mkCgr {atoms} {adj})'


def atom_term(a):
    """compact spelling of coqmol.atom_term (helpers A / B are defined in EXTRA)"""
    if a.isotope is None and not a.is_radical and a.stereo is None:
        return f'(A {zraw(a.atomic_number)} {zraw(a.charge)} {opt(a.implicit_hydrogens, zraw)})'
    return coqmol.atom_term(a)


def bond_term(bd):
    return f'(B {int(bd)})' if bd.stereo is None else coqmol.bond_term(bd)


def mol_term(m):
    atoms = lst([tup(zraw(n), atom_term(a)) for n, a in m._atoms.items()])
    adj = lst([tup(zraw(n), lst([tup(zraw(k), bond_term(bd)) for k, bd in nb.items()])) for n, nb in m._bonds.items()])
    return f'(mkMol {atoms} {adj})'


def skeleton_term(m):
    """atom order and neighbour orders of a molecule (its dict-of-dicts key structure)"""
    return tup(zl(m._atoms), coqmol.graph_term(m._bonds))


def set_orders(r, p):
    """the iteration orders of the three Python sets compose() walks (same construction, same insertion history)"""
    common_ = r._atoms.keys() & p._atoms.keys()
    return list(r._atoms.keys() - common_), list(p._atoms.keys() - common_), list(common_)


def zl(xs):
    return lst(list(xs), zraw)


def ncomp_plain(m):
    """number of connected components by a plain traversal of the adjacency dicts (no cached property of the library)"""
    seen, k = set(), 0
    for s in m._atoms:
        if s in seen:
            continue
        k += 1
        stack = [s]
        seen.add(s)
        while stack:
            n = stack.pop()
            for x in m._bonds[n]:
                if x not in seen:
                    seen.add(x)
                    stack.append(x)
    return k


def fmol_of(m, spec):
    """what a molecule contributes to the writer model; the component count is recomputed from the plain dicts, so that a stale
    connected_components cache of the library shows up as a disagreement between the model and format(reaction)"""
    smi, order = m.__format__(spec, _return_order=True)
    return smi, ncomp_plain(m), [m.atom(n).is_radical for n in order]


# ---------------------------------------------------------------------------------------------------------------
# molecule objects with a HISTORY: used in a reaction (caches filled), then edited in place through the structural API
# (which has to keep the molecule's caches right by itself), then put into a new reaction

HISTORY_RINGS = ['C1CC1', 'C1CCC1', 'C1CCCC1', 'C1CCCCC1', 'c1ccccc1', 'C1CCOCC1', 'N1CCCCC1', 'c1ccncc1', 'C1CCCCCC1', 'c1ccoc1', 'C1CCNC1', 'c1ccsc1']


class EditHistory:
    pass


def history_edit(p, rng, hint):
    """one in-place edit through delete_bond / add_bond / delete_atom / add_atom (outside a transaction) or a charge change inside a
    transaction; returns a replayable log entry or None"""
    atoms = list(p)
    if hint is not None and p.has_bond(*hint) and rng.random() < 0.6:
        p.delete_bond(*hint)
        return f'p.delete_bond({hint[0]}, {hint[1]})'
    kind = rng.choice(['del', 'del', 'add', 'delatom', 'addatom', 'charge'])
    if kind == 'del':
        bs = [(n, m) for n, m, _ in p.bonds()]
        if bs:
            n, m = rng.choice(bs)
            p.delete_bond(n, m)
            return f'p.delete_bond({n}, {m})'
    elif kind == 'add' and len(atoms) > 1:
        n, m = rng.sample(atoms, 2)
        if not p.has_bond(n, m):
            p.add_bond(n, m, 1)
            return f'p.add_bond({n}, {m}, 1)'
    elif kind == 'delatom' and len(atoms) > 2:
        n = rng.choice(atoms)
        p.delete_atom(n)
        return f'p.delete_atom({n})'
    elif kind == 'addatom':
        m = rng.choice(atoms)
        n = p.add_atom('C')
        p.add_bond(n, m, 1)
        return f'p.add_bond(p.add_atom("C"), {m}, 1)'
    elif kind == 'charge':
        n = rng.choice(atoms)
        with p:
            p.atom(n).charge = 1
        return f'with p:\n    p.atom({n}).charge = 1'
    return None


def gen_edit_histories(ck, n):
    """reactant r (a corpus molecule, or two rings joined by one acyclic bond: every pair of a small ring catalogue, random attachment
    atoms), product p = r.copy(); the identity reaction r >> p is evaluated (str, hash, condensed graph, components, rings: fills the
    molecule-level caches); then p is edited IN PLACE 1-2 times; h.rxn = ReactionContainer([r], [p]) over the used objects,
    h.ref = the same reaction over fresh copies (nothing cached)"""
    from chython import smiles, ReactionContainer
    rng = random.Random(f'{ck.seed}:c15:edit-history')
    pool = corpus.sample(corpus.lipo(), 300, ck.seed, 'c15')
    out = []
    pairs = [(a, c) for a in HISTORY_RINGS for c in HISTORY_RINGS]
    rng.shuffle(pairs)
    for i in range(n):
        hint = None
        try:
            if i % 5 < 2:
                a, c = [smiles(x) for x in pairs[(i // 5 * 2 + i % 5) % len(pairs)]]
                r = a | c
                x, y = rng.choice(list(a)), rng.choice([k for k in r if k not in a._atoms])
                r.add_bond(x, y, 1)
                r = r.copy()
                hint = (x, y)
                family = 'two rings joined by an acyclic bond'
            else:
                r = smiles(rng.choice(pool))
                family = 'corpus molecule'
            p = r.copy()
            start = format(r, 'm')
            ident = ReactionContainer([r], [p])
            str(ident), hash(ident), str(~ident), p.connected_components_count, p.sssr
            log = [history_edit(p, rng, hint)]
            if rng.random() < 0.3:
                log.append(history_edit(p, rng, None))
            log = [x for x in log if x]
            if not log:
                continue
            h = EditHistory()
            h.rxn, h.ref, h.p, h.log, h.start, h.family, h.idx = ReactionContainer([r], [p]), ReactionContainer([r.copy()], [p.copy()]), p, log, start, family, i
            out.append(h)
        except Exception as e:     # an edit the library refuses: not this property's business
            ck.count('edit-history:skipped:' + type(e).__name__)
    return out


def search_edit_histories(ck, hist):
    """the reaction over the used-and-edited objects must answer like the reaction over fresh copies: same string (roles, f: groups,
    radicals), same condensed graph string, the product's component count = a plain traversal, and reading the string back restores
    the role sizes"""
    from chython import smiles
    for h in hist:
        try:
            s, sref = str(h.rxn), str(h.ref)
            c, cref = str(~h.rxn), str(~h.ref)
            k, kref = h.p.connected_components_count, ncomp_plain(h.p)
        except Exception as e:
            ck.count('edit-history:raises ' + type(e).__name__)
            continue
        ck.case(('edit-history', h.idx, s), nontrivial=True)
        ck.count(f'edit-history:{h.family}:' + ('product splits' if kref > 1 else 'product stays connected'))
        rp = (REPLAY_HEAD + f"r = smiles({h.start!r})\np = r.copy()\nident = ReactionContainer([r], [p])\n"
              "str(ident); hash(ident); str(~ident); p.connected_components_count; p.sssr\n" + '\n'.join(h.log) +
              "\nprint(str(ReactionContainer([r], [p])))\nprint(str(ReactionContainer([r.copy()], [p.copy()])))\nprint(p.connected_components_count)")
        if s != sref or k != kref:
            ck.counterexample(f'edit-history-string:{h.idx}', 'a molecule that was used in a reaction and then edited in place (structural API) gives a reaction whose '
                              'canonical string / CXSMILES fragment groups differ from the same reaction built from fresh copies (stale molecule-level cache)',
                              {'reactant': h.start, 'edits of the product copy': h.log}, {'string': s, 'components of the product': k},
                              {'string': sref, 'components of the product': kref}, 'the same reaction over fresh copies; plain traversal of the adjacency', replay_py=rp)
            continue
        if c != cref:
            ck.counterexample(f'edit-history-cgr:{h.idx}', 'the condensed graph of a reaction over used-and-edited molecule objects differs from that over fresh copies',
                              {'reactant': h.start, 'edits of the product copy': h.log}, c, cref, 'the same reaction over fresh copies', replay_py=rp)
            continue
        try:
            back = smiles(s)
            sizes = (len(back.reactants), len(back.reagents), len(back.products))
        except Exception:
            continue
        if sizes != (1, 0, 1):
            ck.counterexample(f'edit-history-roundtrip:{h.idx}', 'reading back the reaction SMILES does not restore the roles (one reactant, one product molecule)',
                              {'reactant': h.start, 'edits of the product copy': h.log, 'string': s}, sizes, (1, 0, 1), 'role sizes of the written reaction', replay_py=rp)


# symmetric polycyclic cages and bridged ring systems: atoms of one Morgan class reachable at different distances from the start atom
CAGES = ['C1C2CC3CC1CC(C2)C3', 'C1N2CN3CN1CN(C2)C3', 'C12C3C4C1C5C2C3C45', 'C1CC2CCC1C2', 'C1CC2CCC1CC2', 'C1CN2CCC1CC2', 'C1CN2CCN1CC2',
         'C1CC2CC1C1CCC21', 'C1C2CC3C1C3C2', 'C12C3C1C23', 'C1C2C3CC4C1C2C34', 'C1CCC2(CC1)CCCC2', 'C1CC2CCCC(C1)C2', 'NC12CC3CC(CC(C3)C1)C2', 'C1CC2CC1CC2',
         'C1C2CC3CC2CC1C3', 'C1CC2C3CCC(C3)C2C1', 'C1C2CC3C4CC5CC(C14)C(C2)C3C5', 'C1CC2CC3CCC1C23', 'C1CC2CCC3CCC1C23']


def bridged_ring(rng):
    """a carbon ring of 5-9 atoms with 1-3 extra bridges (a bond or a chain of 1-2 new atoms between two ring atoms), degrees <= 4"""
    from chython import MoleculeContainer
    n = rng.randint(5, 9)
    m = MoleculeContainer()
    for i in range(1, n + 1):
        m.add_atom('C', i)
    deg = {i: 2 for i in range(1, n + 1)}
    for i in range(1, n + 1):
        m.add_bond(i, i % n + 1, 1)
    nxt = n + 1
    for _ in range(rng.randint(1, 3)):
        cand = [i for i in deg if deg[i] < 4]
        if len(cand) < 2:
            break
        a, c = rng.sample(cand, 2)
        length = rng.randint(0, 2)
        if length == 0:
            if m.has_bond(a, c):
                continue
            m.add_bond(a, c, 1)
            deg[a] += 1
            deg[c] += 1
        else:
            prev = a
            for _ in range(length):
                m.add_atom('C', nxt)
                deg[nxt] = 0
                m.add_bond(prev, nxt, 1)
                deg[prev] += 1
                deg[nxt] += 1
                prev = nxt
                nxt += 1
            m.add_bond(prev, c, 1)
            deg[prev] += 1
            deg[c] += 1
    return m


def cage_reactions(ck):
    """(token, reactant, product): every cage with identical sides and with one atom (three choices) turned into N / N+ (a protonation:
    exactly one dynamic atom, no dynamic bond); random bridged rings with a random one of these edits"""
    from chython import smiles, MoleculeContainer
    rng = random.Random(f'{ck.seed}:c15:cages')

    def protonation(r, a):
        out = []
        for ch in (0, 1):
            mm = MoleculeContainer()
            for n, at in r.atoms():
                mm.add_atom('N' if n == a else at.atomic_symbol, n)
            for n, m_, bd in r.bonds():
                mm.add_bond(n, m_, int(bd))
            if ch:
                with mm:
                    mm.atom(a).charge = 1
            out.append(mm)
        return out
    out = []
    skeletons = [(('cage', s), smiles(s)) for s in CAGES]
    skeletons += [(('bridged ring', i), bridged_ring(rng)) for i in range(40 if ck.tier == 'quick' else 400)]
    for tok, r in skeletons:
        atoms = list(r)
        picks = rng.sample(atoms, min(3, len(atoms))) if tok[0] == 'cage' else [rng.choice(atoms)]
        if tok[0] == 'cage' or rng.random() < 0.4:
            out.append((tok + ('identical sides',), r, r.copy()))
        for a in picks:
            if len(r._bonds[a]) <= 3:
                try:
                    x, y = protonation(r, a)
                    out.append((tok + ('protonation', a), x, y))
                except Exception as e:
                    ck.count('cages:skipped:' + type(e).__name__)
    return out


def search_cages(ck):
    """str(r ^ p) of a cage / bridged ring system is one string over consistent renumberings of both sides, and the centre is the edited atom"""
    rng = random.Random(f'{ck.seed}:c15:cages:renumber')
    for tok, r, p in cage_reactions(ck):
        atoms = list(r)
        seen = {}
        try:
            h = r ^ p
            seen[str(h)] = {n: n for n in atoms}
            centre = set(h.center_atoms)
            for _ in range(8 if ck.tier == 'quick' else 30):
                perm = atoms[:]
                rng.shuffle(perm)
                mp = dict(zip(atoms, perm))
                rr, pp = r.copy(), p.copy()
                rr.remap(mp)
                pp.remap(mp)
                seen.setdefault(str(rr ^ pp), mp)
        except Exception as e:
            ck.count('cages:raises ' + type(e).__name__)
            continue
        ck.case(('cage',) + tok, nontrivial=True)
        ck.count(f'search:{tok[0]}:{tok[2]}')
        want = {tok[3]} if tok[2] == 'protonation' else set()
        rs, ps = format(r, 'm'), format(p, 'm')
        if centre != want:
            ck.counterexample(f'cage-centre:{tok}', 'the reaction centre of a cage reaction is not the edited atom', {'reactant': rs, 'product': ps}, sorted(centre), sorted(want),
                              'ground truth of the edit', replay_py=f"from chython import smiles\nprint((smiles({rs!r}) ^ smiles({ps!r})).center_atoms)")
        if len(seen) > 1:
            (s1, m1), (s2, m2) = list(seen.items())[:2]
            ck.counterexample(f'cgr-renumber-string:cage:{tok}', 'the canonical string of the condensed graph of a polycyclic cage / bridged ring system depends on the '
                              '(consistent) numbering of the sides', {'reactant': rs, 'product': ps, 'renumbering': m2}, s2, s1, 'the same reaction, both sides renumbered by one map',
                              replay_py=("from chython import smiles\n" f"r, p = smiles({rs!r}), smiles({ps!r})\nprint(str(r ^ p))\nm = {m2!r}\nr.remap(m); p.remap(m)\nprint(str(r ^ p))"))


def fmol_term(f):
    return f'(mkF {cstr(f[0])} {zraw(f[1])} {lst(f[2], b)})'


# ---------------------------------------------------------------------------------------------------------------
# search: oracles on the real code that never use the model

def rx_repr(rxn):
    """a replayable spelling of a reaction: mapped SMILES of every molecule, role by role"""
    return [[format(m, 'm') for m in role] for role in (rxn.reactants, rxn.reagents, rxn.products)]


REPLAY_HEAD = ("from chython import smiles, ReactionContainer\n"
               "def build(roles):\n"
               "    r, g, p = [[smiles(x) for x in role] for role in roles]\n"
               "    return ReactionContainer(r, p, g)\n")


def cgr_string(ck, h, what):
    """str(cgr); None (and a counterexample) when the library cannot produce it"""
    try:
        return str(h)
    except Exception as e:
        nolen = isinstance(e, TypeError) and 'has no len()' in str(e)
        ck.counterexample('cgr-str:no-len' if nolen else 'cgr-str:' + type(e).__name__,
                          f'str() of a condensed graph raises {type(e).__name__}: {e}', what,
                          type(e).__name__, 'a string', 'str(cgr) must exist for the property to be stated',
                          replay_py="from chython import smiles\nprint(str(smiles('CCO') ^ smiles('CC[O-]')))")
        return None


def numbering_stable(m, rng):
    """the molecule's own canonical string does not depend on its numbering (else a mismatch is C01/C12 business)"""
    from chython import smiles
    s0 = str(m)
    try:
        for _ in range(4):
            c = corpus.renumber(m, rng)
            c.flush_cache()
            if str(c) != s0 or str(smiles(str(c))) != s0:
                return False
            c2 = smiles(s0)
            c2 = corpus.renumber(c2, rng)
            if str(c2) != s0:
                return False
    except Exception:
        return False
    return True


def mol_roundtrips(m):
    """molecule-level precondition of the reaction round trip (C01-C03 business when it fails)"""
    from chython import smiles
    try:
        s = str(m)
        m2 = smiles(s)
        return m2 is not None and str(m2) == s and len(m2) == len(m)
    except Exception:
        return False


def search_order_free(ck, x, rng):
    """canonical reaction string independent of the order of molecules within a role"""
    from chython import ReactionContainer
    rxn = x.rxn
    roles = [list(rxn.reactants), list(rxn.reagents), list(rxn.products)]
    try:
        base = str(rxn)
    except Exception as e:
        ck.counterexample(f'rxn-str-raises:{type(e).__name__}:{x.desc["idx"]}', f'str(reaction) raises {type(e).__name__}: {e}', x.desc,
                          type(e).__name__, 'a string', 'by construction',
                          replay_py=REPLAY_HEAD + f"print(str(build({rx_repr(rxn)!r})))")
        return
    perms = []
    for role in roles:
        if len(role) <= 4:
            perms.append(list(itertools.permutations(range(len(role)))))
        else:
            ps = [tuple(range(len(role)))]
            for _ in range(23):
                q = list(range(len(role)))
                rng.shuffle(q)
                ps.append(tuple(q))
            perms.append(ps)
    combos = list(itertools.product(*perms))
    if len(combos) > 60:
        combos = [combos[0]] + rng.sample(combos[1:], 59)
    for pr, pg, pp in combos:
        r2 = ReactionContainer([roles[0][i].copy() for i in pr], [roles[2][i].copy() for i in pp], [roles[1][i].copy() for i in pg])
        s2 = str(r2)
        ck.case(('order', x.desc['idx'], pr, pg, pp), nontrivial=(pr, pg, pp) != combos[0])
        if s2 != base or (r2 == rxn) is not True or hash(r2) != hash(rxn):
            rr = [[rx_repr(rxn)[0][i] for i in pr], [rx_repr(rxn)[1][i] for i in pg], [rx_repr(rxn)[2][i] for i in pp]]
            ck.counterexample(f'role-order:{base}', 'the canonical reaction string depends on the order of molecules within a role',
                              {'roles': rx_repr(rxn), 'permuted': rr}, s2, base, 'all permutations within each role',
                              replay_py=REPLAY_HEAD + f"print(str(build({rx_repr(rxn)!r})))\nprint(str(build({rr!r})))")
            return
    ck.count(f'search:order-free:perms={len(combos) if len(combos) < 25 else "25+"}')


def search_roundtrip(ck, x):
    """smiles(str(rxn)) restores the same roles and molecules"""
    from chython import smiles
    rxn = x.rxn
    mols = list(rxn.molecules())
    if not all(mol_roundtrips(m) for m in mols):
        ck.count('search:roundtrip:skipped(molecule-level round trip fails: C01-C03)')
        return
    for spec in ('', '!c'):
        s = format(rxn, spec)
        try:
            back = smiles(s)
        except Exception as e:
            ck.counterexample(f'roundtrip-raises:{s}', f'smiles(format(reaction)) raises {type(e).__name__}: {e}',
                              {'roles': rx_repr(rxn), 'string': s}, type(e).__name__, 'the reaction', 'round trip',
                              replay_py=f"from chython import smiles\nprint(smiles({s!r}))")
            return
        exp = [[str(m) for m in role] for role in (rxn.reactants, rxn.reagents, rxn.products)]
        got = [[str(m) for m in role] for role in (back.reactants, back.reagents, back.products)]
        ok = [sorted(a) for a in got] == [sorted(a) for a in exp] and format(back, spec) == s
        if spec == '!c':
            ok = ok and got == exp
        multi = sum(1 for m in mols if m.connected_components_count > 1)
        ck.case(('roundtrip', spec, s), nontrivial=True)
        if not ok and [len(r) for r in got] == [len(r) for r in exp] and not all(numbering_stable(m, random.Random(0)) for m in mols):
            # same role sizes, but some molecule's own canonical string changes with its numbering (the reader numbers the
            # atoms of a reaction consecutively): the mismatch is C01/C12 business, not the reaction code's
            ck.count('search:roundtrip:canonical string of a molecule depends on its numbering (C01/C12)')
            return
        if not ok:
            ck.counterexample(f'roundtrip:{s}', 'reading back the reaction SMILES does not restore the same roles and molecules',
                              {'roles': rx_repr(rxn), 'string': s}, got, exp, 'molecule strings role by role',
                              replay_py=f"from chython import smiles\nr = smiles({s!r})\nprint([[str(m) for m in x] for x in (r.reactants, r.reagents, r.products)])")
            return
    ck.count('search:roundtrip:roles=' + ''.join('0' if not r else '+' for r in (rxn.reactants, rxn.reagents, rxn.products))
             + (':multi-component' if multi else ''))


def search_cgr(ck, x, rng):
    """dynamic marks == independently computed differences; identical sides; renumbering invariance of the string"""
    from chython import ReactionContainer
    rxn = x.rxn
    t = x.truth
    idx = x.desc['idx']
    rp = REPLAY_HEAD + f"r = build({rx_repr(rxn)!r})\nc = ~r\nprint(sorted(c.center_atoms), [(n, m) for n, m, b in c.bonds() if b.is_dynamic], [n for n, a in c.atoms() if a.is_dynamic])"
    try:
        h = ~rxn
    except ValueError as e:
        if t is not None and not t['clash']:
            ck.counterexample(f'compose-raises:{idx}', f'compose raises ValueError although all mapped atoms agree in element and isotope: {e}',
                              x.desc, 'ValueError', 'a condensed graph', 'plain comparison of the sides', replay_py=rp)
        return
    if t is None:
        # colliding numbers: union() renumbers, no atom-by-atom truth; but no atom or bond of a side may get lost
        ck.count('search:cgr:numbers-collide(counting oracle only)')
        la = sum(len(m) for m in list(rxn.reagents) + list(rxn.reactants))
        pa_ = sum(len(m) for m in rxn.products)
        lb = sum(m.bonds_count for m in list(rxn.reagents) + list(rxn.reactants))
        pb = sum(m.bonds_count for m in rxn.products)
        na, nb = len(h._atoms), sum(1 for _ in h.bonds())
        ck.case(('cgr-count', idx), nontrivial=True)
        if not (max(la, pa_) <= na <= la + pa_) or not (max(lb, pb) <= nb <= lb + pb):
            ck.counterexample(f'cgr-count:{idx}', 'the condensed graph of a reaction whose molecules share atom numbers lost or invented atoms / bonds', x.desc,
                              (na, nb), ((max(la, pa_), la + pa_), (max(lb, pb), lb + pb)), 'counting atoms and bonds of the molecules', replay_py=rp)
            return
    else:
        if t['clash']:
            ck.counterexample(f'compose-accepts-clash:{idx}', 'compose accepts atoms of different element/isotope under one number', x.desc,
                              'a condensed graph', 'ValueError', 'plain comparison of the sides', replay_py=rp)
            return
        dyn_b = {(min(n, m), max(n, m)) for n, m, bd in h.bonds() if bd.is_dynamic}
        dyn_a = {n for n, a in h.atoms() if a.is_dynamic}
        (ra, ro), (pa, po) = t['left'], t['right']
        ck.case(('cgr-truth', idx), nontrivial=bool(t['bonds'] or t['atoms']))
        ck.count(f'search:cgr:dynamic-bonds={min(len(t["bonds"]), 5)}')
        ck.count(f'search:cgr:dynamic-atoms={min(len(t["atoms"]), 3)}')
        ck.count('search:cgr:' + ('balanced' if t['balanced'] else 'unbalanced'))
        bad = None
        if dyn_b != t['bonds']:
            bad = ('dynamic bonds', sorted(dyn_b), sorted(t['bonds']))
        elif dyn_a != t['atoms']:
            bad = ('dynamic atoms', sorted(dyn_a), sorted(t['atoms']))
        elif set(h.center_atoms) != t['atoms'] | {n for k in t['bonds'] for n in k} or len(set(h.center_atoms)) != len(h.center_atoms):
            bad = ('center_atoms', sorted(h.center_atoms), sorted(t['atoms'] | {n for k in t['bonds'] for n in k}))
        elif set(h._atoms) != set(ra) | set(pa):
            bad = ('atoms of the condensed graph', sorted(h._atoms), sorted(set(ra) | set(pa)))
        else:
            # every atom and bond carries both states exactly
            for n, a in h.atoms():
                l, r_ = ra.get(n, pa.get(n)), pa.get(n, ra.get(n))
                if (a.atomic_number, a.isotope, a.charge, a.is_radical, a.p_charge, a.p_is_radical) != (l[0], l[1], l[2], l[3], r_[2], r_[3]):
                    bad = (f'atom {n}', (a.charge, a.is_radical, a.p_charge, a.p_is_radical), (l, r_))
            seen = set()
            for n, m, bd in h.bonds():
                k = (min(n, m), max(n, m))
                seen.add(k)
                both_ends = (n in ra and n in pa) or (m in ra and m in pa)
                if both_ends:
                    e = (ro.get(k), po.get(k))
                else:
                    o = ro.get(k, po.get(k))
                    e = (o, o)
                if (bd.order, bd.p_order) != e or h._bonds[m][n] is not bd:
                    bad = (f'bond {k}', (bd.order, bd.p_order), e)
            if bad is None and seen != set(ro) | set(po):
                bad = ('bonds of the condensed graph', sorted(seen), sorted(set(ro) | set(po)))
        if bad:
            ck.counterexample(f'cgr-marks:{idx}:{bad[0]}', f'condensed graph: {bad[0]} differ from the independently computed differences of the sides',
                              x.desc, bad[1], bad[2], 'plain dict comparison of reactant and product sides', replay_py=rp)
            return
    if t is None:
        return      # union() renumbers colliding molecules by max()+1: no invariance is claimed for those
    # consistent renumbering of both sides: same marks (renumbered), same string
    nums = sorted({n for m in rxn.molecules() for n in m._atoms})
    perm = nums[:]
    rng.shuffle(perm)
    mp = dict(zip(nums, perm))

    def ren(m):
        c = m.copy()
        c.remap({n: 10 ** 6 + n for n in c._atoms})
        c.remap({10 ** 6 + n: mp[n] for n in m._atoms})
        return c
    r2 = ReactionContainer([ren(m) for m in rxn.reactants], [ren(m) for m in rxn.products], [ren(m) for m in rxn.reagents])
    h2 = ~r2
    if t is not None:
        d1 = {(min(mp[n], mp[m]), max(mp[n], mp[m])) for n, m, bd in h.bonds() if bd.is_dynamic}
        d2 = {(min(n, m), max(n, m)) for n, m, bd in h2.bonds() if bd.is_dynamic}
        c1 = {mp[n] for n in h.center_atoms}
        if d1 != d2 or c1 != set(h2.center_atoms):
            ck.counterexample(f'cgr-renumber-marks:{idx}', 'dynamic marks change under consistent renumbering of both sides', x.desc,
                              (sorted(d2), sorted(h2.center_atoms)), (sorted(d1), sorted(c1)), 'renumbering equivariance', replay_py=rp)
            return
    s1 = cgr_string(ck, h, x.desc)
    s2 = cgr_string(ck, h2, x.desc)
    if s1 is None or s2 is None:
        return
    ck.case(('cgr-renumber', idx), nontrivial=True)
    if s1 != s2:
        rr = rx_repr(r2)
        ats = [a for _, a in h.atoms()]
        collide = any(hash(a) == hash(c) and a != c and {a.charge, c.charge} | {a.p_charge, c.p_charge} >= {-1, -2}
                      for i, a in enumerate(ats) for c in ats[i + 1:])
        # CPython: hash(-1) == hash(-2); atoms that differ only in a charge of -1 / -2 get the same Morgan label (known finding)
        ck.counterexample('cgr-renumber-string:hash(-1)==hash(-2)' if collide else f'cgr-renumber-string:{s1}', 'the canonical string of the condensed graph depends on the (consistent) numbering of the sides',
                          {'roles': rx_repr(rxn), 'renumbered': rr}, s2, s1, 'consistent renumbering of both sides',
                          replay_py=REPLAY_HEAD + f"print(str(~build({rx_repr(rxn)!r})))\nprint(str(~build({rr!r})))")
        return
    if t is not None and ('>' in s1) != bool(t['bonds'] or t['atoms']):
        ck.counterexample(f'cgr-string-gt:{s1}', "the CGR string shows '>' iff something is dynamic", x.desc, s1, sorted(t['bonds']), 'by construction', replay_py=rp)


def search_identity(ck, pool, n):
    """identical sides -> no centre atoms and no dynamic bond (molecule and reaction level)"""
    from chython import smiles, ReactionContainer
    for smi in pool[:n] + SMALL + RADICALS:
        try:
            m = smiles(smi)
        except Exception:
            continue
        if m is None:
            continue
        for kind in ('mol', 'rxn', 'rxn+reagent'):
            if kind == 'mol':
                h = m ^ m.copy()
            elif kind == 'rxn':
                h = ~ReactionContainer([m], [m.copy()])
            else:
                g = smiles('O')
                g.remap({1: max(m._atoms) + 1})
                h = ~ReactionContainer([m], [m.copy()], [g])
            ck.case(('identity', kind, smi), nontrivial=True)
            dyn = [(n_, k) for n_, k, bd in h.bonds() if bd.is_dynamic] + [n_ for n_, a in h.atoms() if a.is_dynamic]
            if h.center_atoms or dyn:
                ck.counterexample(f'identity-centre:{kind}:{smi}', 'identical sides give a reaction centre', {'smiles': smi, 'kind': kind},
                                  (h.center_atoms, dyn), ((), []), 'by construction',
                                  replay_py=f"from chython import smiles\nm = smiles({smi!r})\nprint((m ^ m.copy()).center_atoms)")
                break
            st = cgr_string(ck, h, {'smiles': smi})
            if st is not None and '>' in st:
                ck.counterexample(f'identity-string:{smi}', "the CGR string of identical sides shows a change ('>')", {'smiles': smi}, st, 'no >', 'by construction')
                break
        ck.count('search:identity')


HISTORIES = [[]]


def search(ck, rxns):
    rng = random.Random(f'{ck.seed}:c15:search')
    for x in rxns:
        search_order_free(ck, x, rng)
        search_roundtrip(ck, x)
        search_cgr(ck, x, rng)
    search_identity(ck, corpus.sample(corpus.lipo(), 400, ck.seed, 'c15'), 60 if ck.tier == 'quick' else 400)
    search_directed(ck)
    search_symmetric_rings(ck)
    search_cages(ck)
    search_edit_histories(ck, HISTORIES[0])


def search_directed(ck):
    """hand-written reactions on the edges of the property (each one was wrong in some version of the code)"""
    from chython import smiles, ReactionContainer
    # empty sides and multi-component molecules needing f: groups
    for s in ('[Na+].[Cl-]>> |f:0.1|', '>[Na+].[Cl-]> |f:0.1|', '>>[Na+].[Cl-] |f:0.1|', 'CCO.[Na+].[Cl-]>> |f:1.2|',
              'CCO>[Na+].[Cl-]> |f:1.2|', '[Na+].[Cl-]>[K+].[OH-]> |f:0.1,2.3|', '[Na+].[Cl-]>[K+].[OH-]>[Br-].[Li+] |f:0.1,2.3,4.5|',
              'CCO>>', '>CCO>', '>>CCO', 'CCO.[Cl-].[Na+]>O>CC[O-].[Na+].Cl |f:1.2,4.5|', '[CH3].[Na+].[Cl-]>> |^1:0,f:1.2|',
              '[Na+].[Cl-].[CH3]>> |^1:2,f:0.1|'):
        r = smiles(s)
        exp = hand_role_counts(s)
        got = [len(r.reactants), len(r.reagents), len(r.products)]
        ck.case(('directed-read', s), nontrivial=True)
        if exp is not None and got != exp:
            ck.counterexample(f'roundtrip:{s}', 'reading a reaction SMILES does not restore the roles (molecule counts per role)', {'string': s}, got, exp,
                              'counting the pieces and f: groups of the string by hand',
                              replay_py=f"from chython import smiles\nr = smiles({s!r})\nprint(len(r.reactants), len(r.reagents), len(r.products), str(r))")
        elif mol_ok_all(r):
            x = Rxn()
            x.rxn, x.desc, x.truth = r, {'idx': 'directed:' + s}, None
            search_roundtrip(ck, x)
    # one species, the radical on different atoms, atoms stored in opposite orders: the sort must go by the flags along the
    # WRITTEN atom order (storage-order flags coincide)
    d0 = smiles('C')
    for sa, sd in asym_twin_pool()[: (6 if ck.tier == 'quick' else 60)]:
        for where in (0, 1, 2):
            tw = [smiles(sa), smiles(sd)]
            tw[1].remap({1: 4, 2: 5, 3: 6})
            d1 = d0.copy()
            d1.remap({1: 7})
            roles = [[d1], [], [d1.copy()]]
            roles[where] = roles[where] + tw if where != 1 else tw
            x = Rxn()
            x.rxn = ReactionContainer(roles[0], roles[2], roles[1])
            x.desc = {'idx': f'asym-twins:{where}:{sa}:{sd}'}
            x.truth = None
            ck.count('search:order-free:asymmetric radical twins')
            search_order_free(ck, x, random.Random(0))
            search_roundtrip(ck, x)
    # molecules that differ in radical state only, within one role
    a, c, d = smiles('[Na]'), smiles('[Na] |^1:0|'), smiles('C')
    for twins in ([a, c], [c, a], [a, c, a.copy()], [c, a, c.copy()]):
        for where in (0, 1, 2):
            roles = [[d], [], [d.copy()]]
            roles[where] = roles[where] + twins if where != 1 else twins
            x = Rxn()
            x.rxn = ReactionContainer(roles[0], roles[2], roles[1])
            x.desc = {'idx': f'twins:{where}:{[str(t) for t in twins]}'}
            x.truth = None
            search_order_free(ck, x, random.Random(0))


def mol_ok_all(r):
    return all(mol_roundtrips(m) for m in r.molecules())


# ---------------------------------------------------------------------------------------------------------------
# correspondence: the real code and the Coq models on the same inputs

EXTRA_TEMPLATE = r'''From Coq Require Import Ascii.
@@GEN_IMPORTS@@
Import ListNotations.
Open Scope Z_scope.
Definition opt_str_eqb (a b : option string) : bool := option_eqb String.eqb a b.
(* compact spellings used by the printer of the harness *)
Definition A (n c : Z) (h : option Z) : atom := mkAtom n None c false h None.
Definition B (o : Z) : bond := mkBond o None.
Definition DA (n c pc : Z) : datom := mkDAtom n None c false pc false.
Definition E (o : Z) : dbond := mkDBond (Some o) (Some o).
Definition skel_eqb (g : mol) (sk : list Z * list (Z * list Z)) : bool :=
  list_eqb Z.eqb (ids g) (fst sk) && list_eqb (pair_eqb Z.eqb (list_eqb Z.eqb)) (graph_of g) (snd sk).
Definition all_true (l : list bool) : bool := forallb (fun x => x) l.
(* MoleculeContainer.compose: observed set iteration orders; result with insertion orders; the canonical-order compose
   agrees after sorting; center_atoms; operands well-formed *)
(* the locals of compose at its return: ha, bonds (append order), adj (insertion orders) *)
Definition trace_t := (list (Z * datom) * list (Z * Z * dbond) * list (Z * list (Z * (option Z * option Z))))%type.
Definition trace_eqb (a b : trace_t) : bool :=
  match a, b with
  | (ha, bs, adj), (ha', bs', adj') =>
      list_eqb (pair_eqb Z.eqb datom_eqb) ha ha' &&
      list_eqb (fun x y => Z.eqb (fst (fst x)) (fst (fst y)) && Z.eqb (snd (fst x)) (snd (fst y)) && dbond_eqb (snd x) (snd y)) bs bs' &&
      list_eqb (pair_eqb Z.eqb (list_eqb (pair_eqb Z.eqb (pair_eqb (option_eqb Z.eqb) (option_eqb Z.eqb))))) adj adj'
  end.
Definition trace_ok (o1 o2 o3 : list Z) (r p : mol) (tr : option trace_t) : bool :=
  match tr with
  | None => true
  | Some t => match compose_trace o1 o2 o3 r p with Ok t' => trace_eqb t' t | Err _ => false end
  end.
@@G_TRACE_OK@@
Definition mc_parts (o1 o2 o3 : list Z) (r p : mol) (exp : pyres cgr) (centre : list Z) (tr : option trace_t) : list bool :=
  [ pyres_eqb cgr_eqb (compose_ord o1 o2 o3 r p) exp;
    pyres_eqb cgr_eqb (map_res cgr_norm (compose r p)) (map_res cgr_norm exp);
    match exp with Ok h => list_eqb Z.eqb (zlsort (center_atoms h)) centre && wf_cgr h | Err _ => true end;
    wf_mol r && wf_mol p;
    trace_ok o1 o2 o3 r p tr;
    g_trace_ok o1 o2 o3 r p exp centre tr ].
Definition mc_ok o1 o2 o3 r p exp centre tr : bool := all_true (mc_parts o1 o2 o3 r p exp centre tr).
Definition mc_part (k : nat) o1 o2 o3 r p exp centre tr : bool := nth k (mc_parts o1 o2 o3 r p exp centre tr) false.
(* ReactionContainer.compose: the two unions, then compose *)
@@G_RXN@@
@@G_UNION@@
Definition rx_parts (o1 o2 o3 : list Z) (rs gs ps : list mol) (ur up : list Z * list (Z * list Z)) (exp : pyres cgr) (centre : list Z)
  (truth : option (list Z * list (Z * Z))) (tr : option trace_t) : list bool :=
  [ trace_ok o1 o2 o3 (union_all (gs ++ rs)) (union_all ps) tr;
    skel_eqb (union_all (gs ++ rs)) ur;      (* atom order and neighbour orders of the two unions (renumbered on collisions); *)
    skel_eqb (union_all ps) up;              (* their atoms and bonds are compared through the condensed graph below *)
    pyres_eqb cgr_eqb (rxn_compose_ord o1 o2 o3 rs gs ps) exp;
    pyres_eqb cgr_eqb (map_res cgr_norm (rxn_compose rs gs ps)) (map_res cgr_norm exp);
    match exp with Ok h => list_eqb Z.eqb (zlsort (center_atoms h)) centre && wf_cgr h | Err _ => true end;
    (* the dynamic marks of the model's result == the differences the harness computed from plain data *)
    match truth, rxn_compose_ord o1 o2 o3 rs gs ps with
    | Some (atoms, bonds), Ok h => list_eqb Z.eqb (dynamic_atoms h) atoms && list_eqb (pair_eqb Z.eqb Z.eqb) (dynamic_bonds h) bonds
    | _, _ => true
    end;
    g_trace_ok o1 o2 o3 (union_all (gs ++ rs)) (union_all ps) exp centre tr;
    g_rxn_ok o1 o2 o3 rs gs ps exp;
    g_unions_ok (gs ++ rs) ur && g_unions_ok ps up ].
Definition rx_ok o1 o2 o3 rs gs ps ur up exp centre truth tr : bool := all_true (rx_parts o1 o2 o3 rs gs ps ur up exp centre truth tr).
Definition rx_part (k : nat) o1 o2 o3 rs gs ps ur up exp centre truth tr : bool := nth k (rx_parts o1 o2 o3 rs gs ps ur up exp centre truth tr) false.
(* ReactionContainer.__format__ for the four combinations of !c and !x; the molecule-level facts the theorems assume *)
Definition roles_eqb (a b : roles) : bool :=
  match a, b with (x, y, z), (x', y', z') => list_eqb String.eqb x x' && list_eqb String.eqb y y' && list_eqb String.eqb z z' end.
Definition fmol_okb (m : fmol) : bool :=
  let pcs := split_on "."%char (f_smi m) in
  (f_ncomp m =? Z.of_nat (List.length pcs)) && forallb (fun x => negb (String.eqb x ""%string) && negb (contains ">"%char x)) pcs.
@@G_FMT_OK@@
@@G_TOK@@
Definition fmt_parts (rs gs ps : list fmol) (e e_c e_x e_cx : string) : list bool :=
  [ String.eqb (rxn_format false false rs gs ps) e; String.eqb (rxn_format true false rs gs ps) e_c;
    String.eqb (rxn_format false true rs gs ps) e_x; String.eqb (rxn_format true true rs gs ps) e_cx;
    forallb fmol_okb (rs ++ gs ++ ps);
    (* end to end inside the model: the reader model on the whole string (CX block included) the writer model produces
       returns the written roles and the written radical indices *)
    pyres_eqb (pair_eqb (option_eqb roles_eqb) (list_eqb Z.eqb))
      (read_rxn (fun x => Z.of_nat (String.length x)) true (rxn_format false false rs gs ps))
      (match rs, gs, ps with
       | [], [], [] => Err ValueError
       | _, _, _ => Ok (Some (map f_smi (sort_by key_leb rs), map f_smi (sort_by key_leb gs), map f_smi (sort_by key_leb ps)),
                        w_radicals (rxn_write false rs gs ps))
       end);
    g_fmt_ok rs gs ps e e_c e_x e_cx ].
Definition fmt_ok rs gs ps e e_c e_x e_cx : bool := all_true (fmt_parts rs gs ps e e_c e_x e_cx).
Definition fmt_part (k : nat) rs gs ps e e_c e_x e_cx : bool := nth k (fmt_parts rs gs ps e e_c e_x e_cx) false.
Definition fmt1_ok (keep no_cx : bool) (rs gs ps : list fmol) (e : string) : bool := String.eqb (rxn_format keep no_cx rs gs ps) e.
(* the reaction branch of smiles(): roles handed to the molecule parser, radical indices (as a sorted list) *)
Definition rd_ok (ignore : bool) (data : string) (exp : pyres (option roles * list Z)) : bool :=
  pyres_eqb (pair_eqb (option_eqb roles_eqb) (list_eqb Z.eqb))
            (match read_rxn (fun x => Z.of_nat (String.length x)) ignore data with Ok (r, rad) => Ok (r, zsort rad) | Err e => Err e end) exp.
(* writer then reader inside the model == what the real reader did with the real writer's string *)
Definition tok_atom (symbol : string) (organic : bool) (iso : option string) (a : datom) (exp : option string) : bool :=
  opt_str_eqb (cgr_atom_str symbol organic iso a) exp && g_tok_atom symbol a exp.
'''

G_TRACE_OK = r'''(* the body of compose as TRANSLATED from the source on every run (Gen.ComposeGen, tools/gen_compose.py), on the same inputs:
   returned graph or exception, the locals ha / bonds / adj at return, and the translated center_atoms *)
Definition g_trace_ok (o1 o2 o3 : list Z) (r p : mol) (exp : pyres cgr) (centre : list Z) (tr : option trace_t) : bool :=
  match g_compose_state o3 o1 o2 r p, exp with
  | Ok (bs, adjd, ha, hb), Ok h =>
      cgr_eqb (mkCgr ha hb) h && match tr with None => true | Some t => trace_eqb (ha, bs, adjd) t end &&
      list_eqb Z.eqb (zlsort (g_center_atoms h)) centre
  | Err e, Err e' => pyexn_eqb e e'
  | _, _ => false
  end.'''
G_TRACE_STUB = 'Definition g_trace_ok (o1 o2 o3 : list Z) (r p : mol) (exp : pyres cgr) (centre : list Z) (tr : option trace_t) : bool := true.'
G_FMT_OK = r'''(* ReactionContainer.__format__ as TRANSLATED from the source on every run (Gen.RxnFormatGen, tools/gen_rxnformat.py) *)
Definition g_fmt_ok (rs gs ps : list fmol) (e e_c e_x e_cx : string) : bool :=
  String.eqb (g_rxn_format false false rs gs ps) e && String.eqb (g_rxn_format true false rs gs ps) e_c &&
  String.eqb (g_rxn_format false true rs gs ps) e_x && String.eqb (g_rxn_format true true rs gs ps) e_cx.'''
G_TOK = r'''(* CGRSmiles._format_atom / _format_bond as TRANSLATED from the source on every run (Gen.CgrTokensGen, tools/gen_cgrtokens.py) *)
Definition g_tok_atom (symbol : string) (a : datom) (exp : option string) : bool := opt_str_eqb (g_format_atom symbol a) exp.
Definition g_tok_bond (b : dbond) (exp : option string) : bool := opt_str_eqb (g_format_bond b) exp.'''
G_TOK_STUB = '''Definition g_tok_atom (symbol : string) (a : datom) (exp : option string) : bool := true.
Definition g_tok_bond (b : dbond) (exp : option string) : bool := true.'''
G_RXN = r'''(* ReactionContainer.compose as TRANSLATED from the source on every run (Gen.RxnComposeGen, tools/gen_rxncompose.py) *)
Definition g_rxn_ok (o1 o2 o3 : list Z) (rs gs ps : list mol) (exp : pyres cgr) : bool := pyres_eqb cgr_eqb (g_rxn_compose_ord o3 o1 o2 rs gs ps) exp.'''
G_RXN_STUB = 'Definition g_rxn_ok (o1 o2 o3 : list Z) (rs gs ps : list mol) (exp : pyres cgr) : bool := true.'
G_UNION = r'''(* Graph.union (remap=True, copy=True) as TRANSLATED from the source on every run (Gen.UnionGen, tools/gen_union.py), folded like reduce(or_, ...) *)
Definition g_unions_ok (l : list mol) (sk : list Z * list (Z * list Z)) : bool :=
  match l with
  | [] => skel_eqb (mkMol [] []) sk
  | x :: rest => match fold_left (fun acc m => match acc with Ok a => g_union a m | Err e => Err e end) rest (Ok x) with
                 | Ok u => skel_eqb u sk && mol_eqb u (union_all l)
                 | Err _ => false
                 end
  end.'''
G_UNION_STUB = 'Definition g_unions_ok (l : list mol) (sk : list Z * list (Z * list Z)) : bool := true.'
G_FMT_STUB = 'Definition g_fmt_ok (rs gs ps : list fmol) (e e_c e_x e_cx : string) : bool := true.'


def build_extra(gen_compose_ok=True, gen_format_ok=True, gen_tokens_ok=True, gen_rxn_ok=True, gen_union_ok=True):
    gen_rxn_ok = gen_rxn_ok and gen_compose_ok       # Gen.RxnComposeGen imports Gen.ComposeGen
    """the definitions every cases file starts with; the parts that evaluate a model regenerated from the source are stubs when its
    translator failed closed or its output does not compile (reported by the proof steps)"""
    imports = [m for m, ok in (('ComposeGen', gen_compose_ok), ('RxnFormatGen', gen_format_ok), ('CgrTokensGen', gen_tokens_ok), ('RxnComposeGen', gen_rxn_ok), ('UnionGen', gen_union_ok)) if ok]
    return (EXTRA_TEMPLATE.replace('@@GEN_IMPORTS@@', 'From Gen Require Import ' + ' '.join(imports) + '.' if imports else '')
            .replace('@@G_TRACE_OK@@', G_TRACE_OK if gen_compose_ok else G_TRACE_STUB)
            .replace('@@G_FMT_OK@@', G_FMT_OK if gen_format_ok else G_FMT_STUB)
            .replace('@@G_TOK@@', G_TOK if gen_tokens_ok else G_TOK_STUB)
            .replace('@@G_RXN@@', G_RXN if gen_rxn_ok else G_RXN_STUB)
            .replace('@@G_UNION@@', G_UNION if gen_union_ok else G_UNION_STUB))


EXTRA = build_extra()


def localise(name, cases, failing, nparts):
    """which part of a combined case disagrees (re-evaluates up to 8 failing cases part by part)"""
    sub, where = [], []
    for i in failing[:8]:
        head, _, rest = cases[i].partition(' ')
        if head not in nparts:
            continue
        for k in range(nparts[head]):
            sub.append(f'{head[:-3]}_part {k}%nat {rest}')
            where.append((i, k))
    if not sub:
        return ''
    ok, bad, log = coqcases.run_cases(name + '_loc', 'Graph Compose RxnSmiles', sub, extra=EXTRA, shard=8)
    if not ok:
        return 'localisation failed: ' + log[-300:]
    return 'failing parts (case, part): ' + str([where[j] for j in bad])


NPARTS = {'mc_ok': 6, 'rx_ok': 10, 'fmt_ok': 7}


def cstr_any(text):
    """a Coq string term for any ASCII text (control characters through ascii_of_nat)"""
    assert all(ord(c) < 128 for c in text), repr(text)
    parts = []
    run = ''
    for c in text:
        if 32 <= ord(c) < 127:
            run += c
        else:
            if run:
                parts.append(cstr(run))
                run = ''
            parts.append(f'(String (Ascii.ascii_of_nat {ord(c)}) EmptyString)')
    if run or not parts:
        parts.append(cstr(run))
    if len(parts) == 1:
        return parts[0]
    return '(' + ' ++ '.join(parts) + ')%string'


def traced(fn):
    """run fn() and read the locals of MoleculeContainer.compose at its return: the list `bonds` (append order), the defaultdict
    `adj` (insertion orders) and the dict of the atoms of the result; returns (result or exception, trace term or None)"""
    import sys
    from chython import MoleculeContainer
    code = MoleculeContainer.compose.__code__
    got = {}

    def prof(frame, event, arg):
        if event == 'return' and frame.f_code is code and arg is not None:
            loc = frame.f_locals
            got['bonds'] = [(n, m, dbond_term(bd)) for n, m, bd in loc['bonds']]
            got['adj'] = [(n, [(m, tuple(v)) for m, v in d.items()]) for n, d in loc['adj'].items()]
            got['ha'] = [(n, datom_term(a)) for n, a in loc['ha'].items()]
    sys.setprofile(prof)
    try:
        res = fn()
    except Exception as e:
        res = e
    finally:
        sys.setprofile(None)
    if not got:
        return res, 'None'
    ha = lst([tup(zraw(n), t) for n, t in got['ha']])
    bonds = lst([tup(zraw(n), zraw(m), t) for n, m, t in got['bonds']])
    adj = lst([tup(zraw(n), lst([tup(zraw(m), tup(opt(v[0], zraw), opt(v[1], zraw))) for m, v in d])) for n, d in got['adj']])
    return res, f'(Some ({ha}, {bonds}, {adj}))'


def real_compose(r, p):
    """(result term, centre term, cgr or None)"""
    h, trace = traced(lambda: r ^ p)
    if isinstance(h, Exception):
        return exn_term(h), '[]', None, 'None'
    return f'Ok {cgr_term(h)}', zl(sorted(h.center_atoms)), h, trace


def small_space(ck, rng, full):
    """every pair of graphs over atoms {1,2,3} with bond orders absent/1/2, with charge / radical / element / isotope
    variants of the product side"""
    from chython import MoleculeContainer
    graphs = []
    for k in range(4):
        for atoms in itertools.combinations((1, 2, 3), k):
            pairs = list(itertools.combinations(atoms, 2))
            for orders in itertools.product((None, 1, 2), repeat=len(pairs)):
                graphs.append((atoms, dict(zip(pairs, orders))))

    def build(g, variant, shuffle):
        atoms, orders = g
        m = MoleculeContainer()
        ats = list(atoms)
        if shuffle:
            rng.shuffle(ats)
        for n in ats:
            el = 'C'
            if variant == 3 and n == 2:
                el = 'N'
            m.add_atom(el, n)
            if variant == 4 and n == 1:
                m.atom(n)._isotope = 13
        prs = list(orders.items())
        if shuffle:
            rng.shuffle(prs)
        for (a, c), o in prs:
            if o is not None:
                m.add_bond(a, c, o)
        if variant == 1 and atoms:
            m.atom(min(atoms)).charge = 1
        if variant == 2 and atoms:
            m.atom(max(atoms)).is_radical = True
        return m
    out = []
    if full:
        # thorough: 1500 random pairs of graphs over atoms {1,2,3,4} with orders absent/1/2/3/4/8
        for i in range(1500):
            gs4 = []
            for _ in range(2):
                atoms = tuple(a for a in (1, 2, 3, 4) if rng.random() < 0.8)
                pairs = list(itertools.combinations(atoms, 2))
                gs4.append((atoms, {pr: rng.choice((None, None, 1, 1, 2, 3, 4, 8)) for pr in pairs}))
            variant = rng.randrange(5)
            shuffle = rng.random() < 0.5
            out.append((('small4', variant, i, 0, shuffle), build(gs4[0], 0, shuffle), build(gs4[1], variant, shuffle)))
    if full:
        # thorough: ALL pairs of graphs over atoms {1,2,3,4} with bond orders absent / 1 (113 graphs, 12769 pairs)
        g4 = []
        for k in range(5):
            for atoms in itertools.combinations((1, 2, 3, 4), k):
                pairs = list(itertools.combinations(atoms, 2))
                for orders in itertools.product((None, 1), repeat=len(pairs)):
                    g4.append((atoms, dict(zip(pairs, orders))))
        for gi, g in enumerate(g4):
            for hi, hh in enumerate(g4):
                out.append((('all4', 0, gi, hi, False), build(g, 0, False), build(hh, 0, False)))
    for variant in range(5):
        for gi, g in enumerate(graphs):
            for hi, h in enumerate(graphs):
                if variant and rng.random() > (0.5 if full else 0.12):
                    continue
                shuffle = rng.random() < 0.5
                out.append((('small', variant, gi, hi, shuffle), build(g, 0, shuffle), build(h, variant, shuffle)))
    return out


def corr_compose(ck, rxns):
    from chython import smiles, MoleculeContainer
    rng = random.Random(f'{ck.seed}:c15:compose')
    cases, meta = [], []
    # (1) molecule level: small exhaustive space
    for tok, r, p in small_space(ck, rng, ck.tier != 'quick'):
        o1, o2, o3 = set_orders(r, p)
        exp, centre, h, trace = real_compose(r, p)
        cases.append(f'mc_ok {zl(o1)} {zl(o2)} {zl(o3)} {mol_term(r)} {mol_term(p)} ({exp}) {centre} {trace}')
        meta.append(('mc', tok, r, p))
        ck.case(('mc',) + tok, nontrivial=h is not None and bool(h.center_atoms))
        ck.count('compose:' + tok[0] + ':' + ('ValueError' if h is None else 'centre' if h.center_atoms else 'no centre'))
    # (2) molecule level: malformed / boundary pairs
    mal = []
    for smi_a, smi_b in (('CCO', 'CCN'), ('[13CH4]', 'C'), ('C', '[13CH4]'), ('[2H]O', '[H]O'), ('CC', 'C[Na]'), ('C', 'C'), ('CC', 'C=C'),
                         ('[CH3] |^1:0|', 'C'), ('C[O-]', 'CO'), ('c1ccccc1', 'C1=CC=CC=C1'), ('C~C', 'CC'), ('[Fe+4]', '[Fe-4]'), ('O', 'OC')):
        mal.append((('pair', smi_a, smi_b), smiles(smi_a), smiles(smi_b), None))
    mal.append((('pair', 'empty', 'C'), MoleculeContainer(), smiles('C'), None))
    mal.append((('pair', 'C', 'empty'), smiles('C'), MoleculeContainer(), None))
    mal.append((('pair', 'empty', 'empty'), MoleculeContainer(), MoleculeContainer(), None))
    for tok, r, p, x in mal:
        o1, o2, o3 = set_orders(r, p)
        exp, centre, h, trace = real_compose(r, p)
        cases.append(f'mc_ok {zl(o1)} {zl(o2)} {zl(o3)} {mol_term(r)} {mol_term(p)} ({exp}) {centre} {trace}')
        meta.append(('mc', tok, r, p))
        ck.case(('mc',) + tok, nontrivial=h is not None and bool(h.center_atoms))
        ck.count('compose:' + tok[0] + ':' + ('ValueError' if h is None else 'centre' if h.center_atoms else 'no centre'))
    # (3) reaction level: unions (with renumbering on collisions) + compose
    for x in (rxns[:200] if ck.tier == 'quick' else rxns[:600]):
        rxn = x.rxn
        try:
            rr = list(rxn.reagents) + list(rxn.reactants)
            ur = reduce(or_, rr) if rr else MoleculeContainer()
            up = reduce(or_, rxn.products) if rxn.products else MoleculeContainer()
        except Exception as e:
            ck.count('compose:rxn:union raises ' + type(e).__name__)
            continue
        o1, o2, o3 = set_orders(ur, up)
        rxn.flush_cache(keep_molecule_cache=True)
        h, trace = traced(lambda: ~rxn)
        if isinstance(h, Exception):
            h, exp, centre, trace = None, exn_term(h), '[]', 'None'
        else:
            exp, centre = f'Ok {cgr_term(h)}', zl(sorted(h.center_atoms))
        mt = lambda ms: lst([mol_term(m) for m in ms])
        truth = 'None'
        if h is not None and x.truth is not None:
            truth = f'(Some ({zl(sorted(x.truth["atoms"]))}, {lst([tup(zraw(a), zraw(c)) for a, c in sorted(x.truth["bonds"])])}))'
        cases.append(f'rx_ok {zl(o1)} {zl(o2)} {zl(o3)} {mt(rxn.reactants)} {mt(rxn.reagents)} {mt(rxn.products)} '
                     f'{skeleton_term(ur)} {skeleton_term(up)} ({exp}) {centre} {truth} {trace}')
        meta.append(('rx', x.desc['idx'], x))
        collide = x.truth is None
        ck.case(('rx', x.desc['idx']), nontrivial=h is not None and bool(h.center_atoms))
        ck.count('compose:rxn:' + ('ValueError' if h is None else 'centre' if h.center_atoms else 'no centre') + (':renumbered union' if collide else ''))
    perm = list(range(len(cases)))
    rng.shuffle(perm)        # big (reaction) and small cases spread evenly over the shards
    cases, meta = [cases[i] for i in perm], [meta[i] for i in perm]
    ok, failing, log = coqcases.run_cases('c15_compose', 'Graph Compose RxnSmiles', cases, extra=EXTRA, shard=max(50, len(cases) // 16 + 1))
    ck.oblige('correspondence: MoleculeContainer.compose / ReactionContainer.compose / Graph.union / center_atoms == Coq model (Compose.v)',
              ok and not failing, 'correspondence', log or str([meta[i][:2] for i in failing[:5]]))
    ck.extra['correspondence_cases_compose'] = len(cases)
    ck.sample({'model_call': cases[0][:600], 'meta': repr(meta[0][:2])})
    ck.sample({'model_call': cases[-1][:600], 'meta': repr(meta[-1][:2])})
    if not ok or failing:
        found = False
        for i in failing[:40]:
            found = directed_compose(ck, meta[i]) or found
        ck.unchecked('correspondence Compose model vs MoleculeContainer.compose / ReactionContainer.compose',
                     (log or '')[-1500:] + localise('c15_compose', cases, failing, NPARTS),
                     [repr(meta[i][:2]) + ' :: ' + cases[i][:300] for i in failing[:20]])
    return ok and not failing


def directed_compose(ck, m):
    """property-level oracle (plain-dict comparison of the sides) on a disagreeing input"""
    from chython import ReactionContainer
    before = len(ck.violations)
    try:
        if m[0] == 'mc':
            x = Rxn()
            x.rxn = ReactionContainer([m[2]] if len(m[2]) else [], [m[3]] if len(m[3]) else [])
            x.desc = {'idx': 'directed:' + repr(m[1])}
            x.truth = truth_of(x.rxn)
        else:
            x = m[2]
        search_cgr(ck, x, random.Random(0))
    except Exception:
        pass
    return len(ck.violations) > before


# ---- writer

SPECS_MOL = ['m', 'h', '!s', 'A', '!z', '!b', 'mh', 'a']


def corr_writer(ck, rxns):
    from chython.files.daylight.parser import parser
    from chython.files.daylight.tokenize import smiles_tokenize
    rng = random.Random(f'{ck.seed}:c15:writer')
    cases, meta = [], []
    hyp_bad, hyp_total = [], 0
    for x in rxns:
        rxn = x.rxn
        try:
            fm = [[fmol_of(m, '') for m in role] for role in (rxn.reactants, rxn.reagents, rxn.products)]
            exp = [format(rxn, sp) for sp in ('', '!c', '!x', '!c!x')]
        except Exception as e:
            ck.count('writer:raises ' + type(e).__name__)
            continue
        for role in fm:
            for f in role:
                hyp_total += 1
                try:
                    n_parsed = len(parser(smiles_tokenize(f[0]), False)['atoms'])
                except Exception:
                    n_parsed = -1
                if n_parsed < 0:
                    ck.count('writer:molecule SMILES refused by the molecule parser (C01-C03; the reader raises there)')
                if any(ch.isspace() for ch in f[0]) or 0 <= n_parsed < len(f[2]):
                    hyp_bad.append((f[0], n_parsed, len(f[2])))
        x.fm = fm
        ft = [lst([fmol_term(f) for f in role]) for role in fm]
        cases.append(f'fmt_ok {ft[0]} {ft[1]} {ft[2]} {cstr(exp[0])} {cstr(exp[1])} {cstr(exp[2])} {cstr(exp[3])}')
        meta.append(('fmt', x.desc['idx'], x))
        nrad = sum(sum(f[2]) for role in fm for f in role)
        nmulti = sum(1 for role in fm for f in role if f[1] > 1)
        ck.case(('fmt', exp[1]), nontrivial=True)
        ck.count(f'writer:radicals={min(nrad, 3)}')
        ck.count(f'writer:multi-component molecules={min(nmulti, 3)}')
        ck.count('writer:roles=' + ''.join('0' if not r else '+' for r in fm))
        ties = any(a[0] == c[0] and a[2] != c[2] for role in fm for a, c in itertools.combinations(role, 2))
        if ties:
            ck.count('writer:same SMILES, different radicals within a role')
        if any(a[0] == c[0] and a[2] != c[2] and sum(a[2]) == sum(c[2]) for role in fm for a, c in itertools.combinations(role, 2)):
            ck.count('writer:same SMILES, radical on different atoms within a role')
        # one molecule-level format option per reaction (different molecule strings and atom orders)
        sp = rng.choice(SPECS_MOL) + rng.choice(['', '', '!c', '!x'])
        try:
            fm2 = [[fmol_of(m, sp) for m in role] for role in (rxn.reactants, rxn.reagents, rxn.products)]
            e2 = format(rxn, sp)
        except Exception as e:
            ck.count('writer:raises ' + type(e).__name__)
            continue
        ft2 = [lst([fmol_term(f) for f in role]) for role in fm2]
        cases.append(f'fmt1_ok {b("!c" in sp)} {b("!x" in sp)} {ft2[0]} {ft2[1]} {ft2[2]} {cstr(e2)}')
        meta.append(('fmt1', x.desc['idx'], x, sp))
        ck.case(('fmt1', sp, e2), nontrivial=True)
    # reactions over molecule objects with a history (used, then edited in place): the writer model fed with the molecule strings and the
    # component counts recomputed from the plain dicts must give format() of the reaction over these objects
    for h in HISTORIES[0][:60 if ck.tier == 'quick' else 600]:
        try:
            fm = [[fmol_of(m, '') for m in role] for role in (h.rxn.reactants, h.rxn.reagents, h.rxn.products)]
            exp = [format(h.rxn, sp) for sp in ('', '!c', '!x', '!c!x')]
        except Exception as e:
            ck.count('writer:history:raises ' + type(e).__name__)
            continue
        ft = [lst([fmol_term(f) for f in role]) for role in fm]
        cases.append(f'fmt_ok {ft[0]} {ft[1]} {ft[2]} {cstr(exp[0])} {cstr(exp[1])} {cstr(exp[2])} {cstr(exp[3])}')
        meta.append(('fmt-history', h.idx, None))
        ck.case(('fmt-history', h.idx, exp[0]), nontrivial=True)
        ck.count('writer:molecule objects with an edit history')
    # __eq__ / __hash__: a reaction against a role-internal rearrangement of itself, and against the next reaction
    from chython import ReactionContainer
    eq_pairs = []
    usable = [x for x in rxns if getattr(x, 'fm', None) is not None][:100 if ck.tier == 'quick' else 1000]
    for i, x in enumerate(usable):
        rr, gg, pp = [list(r) for r in (x.rxn.reactants, x.rxn.reagents, x.rxn.products)]
        perm = [rng.sample(range(len(r)), len(r)) for r in (rr, gg, pp)]
        y = ReactionContainer([rr[j].copy() for j in perm[0]], [pp[j].copy() for j in perm[2]], [gg[j].copy() for j in perm[1]])
        yfm = [[x.fm[k][j] for j in perm[k]] for k in range(3)]
        eq_pairs.append((x.rxn, x.fm, y, yfm, 'rearranged'))
        z = usable[(i + 1) % len(usable)]
        eq_pairs.append((x.rxn, x.fm, z.rxn, z.fm, 'other'))
    for a, afm, c, cfm, kind in eq_pairs:
        try:
            e = (a == c)
            hh = hash(a) == hash(c)
        except Exception as ex:
            ck.count('eq:raises ' + type(ex).__name__)
            continue
        ta = tup(*[lst([fmol_term(f) for f in role]) for role in afm])
        tc = tup(*[lst([fmol_term(f) for f in role]) for role in cfm])
        cases.append(f'Bool.eqb (rxn_eq {ta} {tc}) {b(e)}')
        meta.append(('eq', kind, None))
        ck.case(('eq', kind, str(a), str(c)), nontrivial=True)
        ck.count(f'eq:{kind}:{"equal" if e else "different"}')
        if e and not hh:
            ck.counterexample(f'eq-hash:{a}', 'equal reactions with different hashes', {'a': rx_repr(a), 'b': rx_repr(c)}, 'hash differs', 'same hash', '__eq__/__hash__ contract')
    if (a_ := next((x for x in usable), None)) is not None:
        ck.case(('eq', 'non-reaction'), nontrivial=True)
        if (a_.rxn == str(a_.rxn)) is not False or (a_.rxn == a_.rxn.reactants) is not False:
            ck.counterexample('eq-non-reaction', 'a reaction compares equal to a non-reaction', {'a': rx_repr(a_.rxn)}, True, False, 'isinstance test of __eq__')
    ok, failing, log = coqcases.run_cases('c15_writer', 'Graph Compose RxnSmiles', cases, extra=EXTRA, shard=max(20, len(cases) // 16 + 1))
    ck.oblige('correspondence: ReactionContainer.__format__ (per-role sort, ^1: and f: blocks, !c, !x) == Coq model (RxnSmiles.v)',
              ok and not failing, 'correspondence', log or str([meta[i][:2] for i in failing[:5]]))
    ck.extra['correspondence_cases_writer'] = len(cases)
    # the molecule-level hypotheses of C15_rxn_roundtrip on the real writer / parser: no white space in a molecule SMILES,
    # and the parser returns at least as many atoms as the writer listed (fmol_ok is part of fmt_ok above)
    ck.oblige(f'hypotheses fmol_nows / atoms_cover of C15_rxn_roundtrip hold for the real molecule writer and parser ({hyp_total} molecules)',
              not hyp_bad, 'correspondence', str(hyp_bad[:5]))
    if hyp_bad:
        ck.unchecked('hypotheses of C15_rxn_roundtrip (molecule-level writer / parser)', str(hyp_bad[:10]))
    if cases:
        ck.sample({'model_call': cases[0][:600], 'meta': repr(meta[0][:2])})
    if not ok or failing:
        for i in failing[:40]:
            if meta[i][2] is None:
                continue
            try:
                search_order_free(ck, meta[i][2], random.Random(0))
                search_roundtrip(ck, meta[i][2])
            except Exception:
                pass
        ck.unchecked('correspondence RxnSmiles model vs ReactionContainer.__format__',
                     (log or '')[-1500:] + localise('c15_writer', cases, failing, NPARTS),
                     [repr(meta[i][:2]) + ' :: ' + cases[i][:300] for i in failing[:20]])
    return ok and not failing


# ---- reader

STUB_ATOMS = 2   # average characters per piece of the synthetic strings (range of the random radical indices)


class Captured(Exception):
    pass


def stubbed_read(data, ignore):
    """run the real smiles() with the molecule tokenizer / parser replaced by recorders: returns the Coq term of what
    the reaction branch handed to the molecule parser (roles) and which atoms it marked radical"""
    import sys
    mod = sys.modules['chython.files.daylight.smiles']
    saved = {k: getattr(mod, k) for k in ('smiles_tokenize', 'parser', 'postprocess_parsed_reaction', 'postprocess_parsed_molecule')}

    def post_r(record, **kw):
        raise Captured(('rxn', record))

    def post_m(record, **kw):
        raise Captured(('mol', record))
    mod.smiles_tokenize = lambda x: x
    mod.parser = lambda x, strict: {'atoms': [{} for _ in range(len(x))], 'src': x, 'log': []}    # at most one atom per character
    mod.postprocess_parsed_reaction = post_r
    mod.postprocess_parsed_molecule = post_m
    try:
        mod.smiles(data, ignore=ignore)
        return 'Err OtherError', None
    except Captured as c:
        kind, record = c.args[0]
        if kind == 'mol':
            rad = [i for i, a in enumerate(record['atoms']) if a.get('is_radical')]
            return f'Ok (None, {zl(rad)})', ('mol', rad)
        roles = [[m['src'] for m in record[k]] for k in ('reactants', 'reagents', 'products')]
        atoms = [a for k in ('reactants', 'reagents', 'products') for m in record[k] for a in m['atoms']]
        rad = [i for i, a in enumerate(atoms) if a.get('is_radical')]
        if not any(roles):
            return 'Err ValueError', ('empty', rad)        # ReactionContainer.__init__ (checked un-stubbed in the search)
        rt = tup(*[lst(r, cstr_any) for r in roles])
        return f'Ok (Some {rt}, {zl(rad)})', ('rxn', roles, rad)
    except Exception as e:
        return exn_term(e), None
    finally:
        for k, v in saved.items():
            setattr(mod, k, v)


MALFORMED = ['>>', '>', '>>>', 'C>>C>C', 'C>C', 'C..C>>C', '.C>>C', 'C.>>C', 'C>>C.', 'C>.>C', '..>>', 'C>> |f:0.1|', 'C.C>> |f:0.1|',
             'C.C>>C.C |f:0.1,2.3|', 'C.C>>C.C |f:1.2|', 'C.C>C>C.C |f:0.2|', 'C.C>C.C>C.C |f:2.3|', 'C.C>C.C>C.C |f:0.1,2.3,4.5|',
             'C.C>C.C>C.C |f:0.1,1.2|', 'C.C.C>>C |f:0.2|', 'C.C.C>>C |f:2.0|', 'C.C.C>>C |f:0.1.2|', 'C.C>>C |f:0.9|', 'C.C>>C |f:7.9|',
             'C.C>>C |f:0.1,f:1.2|', 'C.C>>C |f:0.1| |f:1.2|', 'C.C>>C |f:0,1|', 'C.C>>C |f:0.|', 'C.C>>C |f:.1|', 'C.C>>C |f:0.1', 'C.C>>C f:0.1|',
             'C.C>>C |^1:0|', 'C.C>>C |^1:0,1|', 'C.C>>C |^1:0,0|', 'C.C>>C |^1:0,^2:1|', 'C.C>>C |^8:0|', 'C.C>>C |^1:99|', 'C.C>>C |^1:17|', 'C.C>>C |^1:18|',
             'C.C>>C |^1:0,f:0.1|', 'C.C>>C |f:0.1,^1:2|', 'C.C>>C |^1:1,1,f:0.1|', 'C.C>>C |^1:,f:0.1|', 'C |^1:0|', 'C |^1:5|', 'C |^1:6|', 'C |f:0.1|',
             'C.C |f:0.1|', ' C>>C', 'C>>C ', 'C>>C\t|f:0.1|', 'C.C>>C\n|f:0.1|', 'C.C>>C  |f:0.1|  x', ' ', '\t', 'C.C>>C |f:0.1|x', 'C.C>>C x|f:0.1|',
             'C.C>>C ||', 'C.C>>C |', 'C.C>>C |f:00.01|', 'C.C>>C |f:0.1,|', 'C.C>>C |f:0.1,,|', '>> |^1:0|', '>C> |^1:0|', '>C.C> |f:0.1|',
             '>C.C>C |f:0.1|', 'C>C.C> |f:1.2|', 'C.C.C.C>>|f:0.1,2.3|', 'C.C>>|f:0.1|', 'C>>C |f:0.1|', '>>C.C.C |f:1.2|', '>>C.C.C |f:0.2|',
             'C.C.C>> |f:0.2|', 'C.C.C>> |f:1.2|', '>C.C.C> |f:1.2|', 'C>C.C.C> |f:2.3|', 'C.C>C>C |f:0.1,0.1|']


def mutate_string(s, rng):
    """a nearby string: characters of the reaction grammar inserted / deleted / replaced"""
    alphabet = '.>,|:f^ 0123456789C'
    s = list(s)
    for _ in range(rng.choice([1, 1, 2, 3])):
        k = rng.random()
        if k < 0.4 and s:
            del s[rng.randrange(len(s))]
        elif k < 0.8:
            s.insert(rng.randrange(len(s) + 1), rng.choice(alphabet))
        elif s:
            s[rng.randrange(len(s))] = rng.choice(alphabet)
    return ''.join(s)


def corr_reader(ck, rxns):
    rng = random.Random(f'{ck.seed}:c15:reader')
    strings = []
    for x in rxns:
        try:
            for sp in ('', '!c', '!x'):
                strings.append((format(x.rxn, sp), 'written'))
        except Exception:
            continue
    written = [s for s, _ in strings]
    strings += [(s, 'malformed') for s in MALFORMED]
    # synthetic grammar-level strings with many '.'/'>'/f:/^ combinations
    for _ in range(300 if ck.tier == 'quick' else 2000):
        roles = ['.'.join(rng.choice(['C', 'N', 'O', '[Na+]', '']) for _ in range(rng.randint(0, 4))) for _ in range(3)]
        smi = '>'.join(roles)
        n = sum(1 for r in roles for x in r.split('.') if x)
        cx = []
        if rng.random() < 0.5:
            cx.append('^' + rng.choice('1237') + ':' + ','.join(str(rng.randint(0, max(1, n * STUB_ATOMS + 2))) for _ in range(rng.randint(1, 3))))
        if rng.random() < 0.7:
            gs = []
            for _ in range(rng.randint(1, 3)):
                gs.append('.'.join(str(rng.randint(0, n + 1)) for _ in range(rng.randint(2, 3))))
            cx.append('f:' + ','.join(gs))
        rng.shuffle(cx)
        strings.append((smi + (' |' + ','.join(cx) + '|' if cx else ''), 'synthetic'))
    for _ in range(400 if ck.tier == 'quick' else 2500):
        base = rng.choice(written) if written and rng.random() < 0.5 else rng.choice(MALFORMED)
        if len(base) > 300:
            continue
        strings.append((mutate_string(base, rng), 'mutated'))
    cases, meta = [], []
    seen = set()
    for s, kind in strings:
        if not s or any(ord(c) >= 128 for c in s):
            continue
        for ignore in (True, False):
            if (s, ignore) in seen:
                continue
            seen.add((s, ignore))
            exp, info = stubbed_read(s, ignore)
            cases.append(f'rd_ok {b(ignore)} {cstr_any(s)} ({exp})')
            meta.append(('read', s, ignore, exp[:200]))
            ck.case(('read', s, ignore), nontrivial=exp.startswith('Ok (Some'))
            ck.count(f'reader:{kind}:' + (exp.split()[0] + ' ' + exp.split()[1].strip('(') if not exp.startswith('Ok (Some') else 'reaction'
                                          + (':contracted' if 'f:' in s and info and any('.' in m for r in info[1] for m in r) else '')))
    ok, failing, log = coqcases.run_cases('c15_reader', 'Graph Compose RxnSmiles', cases, extra=EXTRA, shard=max(50, len(cases) // 16 + 1))
    ck.oblige('correspondence: reaction branch of smiles() (whitespace split, cx regexes, role split, f: contraction, radical range) == Coq model (RxnSmiles.v)',
              ok and not failing, 'correspondence', log or str([meta[i] for i in failing[:5]]))
    ck.extra['correspondence_cases_reader'] = len(cases)
    ck.sample({'model_call': cases[0][:600], 'meta': repr(meta[0])})
    if not ok or failing:
        for i in failing[:60]:
            directed_read(ck, meta[i][1])
        ck.unchecked('correspondence RxnSmiles model vs smiles() reaction branch', (log or '')[-1500:],
                     [repr(meta[i]) + ' :: ' + cases[i][:300] for i in failing[:20]])
    return ok and not failing


def hand_role_counts(s):
    """molecules per role of a well-formed reaction CXSMILES, counted directly from the text"""
    toks = s.split()
    roles = toks[0].split('>')
    if len(roles) != 3:
        return None
    mm = re.search(r'f:([0-9.,]+)', toks[1]) if len(toks) > 1 else None
    groups = [set(map(int, g.split('.'))) for g in mm.group(1).strip(',').split(',')] if mm else []
    # CXSMILES fragment numbers run over the string from left to right: reactants, reagents, products
    exp = []
    i = 0
    for role in roles:
        pieces = [p_ for p_ in role.split('.') if p_]
        n, j = 0, 0
        while j < len(pieces):
            g = next((g for g in groups if i + j in g), None)
            if g is not None and not all(i <= y < i + len(pieces) for y in g):
                return None     # group across roles: not a well-formed input
            j += len(g) if g else 1
            n += 1
        i += len(pieces)
        exp.append(n)
    return exp


def directed_read(ck, s):
    """property-level oracle around a disagreeing string: if the real reader accepts it as a reaction, its role sizes must be
    those counted by hand, and writing + reading it again must be stable"""
    from chython import smiles
    try:
        r = smiles(s)
    except Exception:
        return
    if not hasattr(r, 'reactants'):
        return
    try:
        exp = hand_role_counts(s)
    except Exception:
        exp = None
    got = [len(r.reactants), len(r.reagents), len(r.products)]
    if exp is not None and got != exp:
        ck.counterexample(f'roundtrip:{s}', 'reading a reaction SMILES does not restore the roles (molecule counts per role)', {'string': s}, got, exp,
                          'counting the pieces and f: groups of the string by hand',
                          replay_py=f"from chython import smiles\nr = smiles({s!r})\nprint(len(r.reactants), len(r.reagents), len(r.products), str(r))")
        return
    if mol_ok_all(r):
        x = Rxn()
        x.rxn, x.desc, x.truth = r, {'idx': 'directed:' + s}, None
        search_roundtrip(ck, x)


# ---- CGR SMILES tokens

def corr_tokens(ck, rxns):
    from chython.algorithms import smiles as sm
    from chython.containers import CGRContainer
    from chython.periodictable import Element, DynamicElement
    from chython.containers.bonds import DynamicBond
    cases, meta = [], []
    for o in (None, 1, 2, 3, 4, 8, 0, 5, 6, 7, 9):
        for p in (None, 1, 2, 3, 4, 8, 0, 5, 6, 7, 9):
            v = sm.dyn_order_str.get((o, p))
            cases.append(f'opt_str_eqb (dyn_order_str {opt(o, zraw)} {opt(p, zraw)}) {opt(v, cstr)}')
            meta.append(('order', o, p, v))
            ck.case(('tok-order', o, p), nontrivial=v is not None)
            if v is not None:   # the method, on a real DynamicBond
                h = CGRContainer()
                h._bonds = {1: {2: DynamicBond(o, p)}}
                cases.append(f'opt_str_eqb (cgr_bond_str (mkDBond {opt(o, zraw)} {opt(p, zraw)})) {opt(h._format_bond(1, 2, None), cstr)}')
                meta.append(('bond', o, p))
                cases.append(f'g_tok_bond (mkDBond {opt(o, zraw)} {opt(p, zraw)}) {opt(h._format_bond(1, 2, None), cstr)}')
                meta.append(('bond (translated _format_bond)', o, p))
    for i in range(-6, 7):
        for j in range(-6, 7):
            v = sm.dyn_charge_str.get((i, j))
            cases.append(f'opt_str_eqb (dyn_charge_str {zraw(i)} {zraw(j)}) {opt(v, cstr)}')
            meta.append(('charge', i, j, v))
            ck.case(('tok-charge', i, j), nontrivial=v is not None)
    for r in (True, False):
        for p in (True, False):
            v = sm.dyn_radical_str.get((r, p))
            cases.append(f'opt_str_eqb (dyn_radical_str {b(r)} {b(p)}) {opt(v, cstr)}')
            meta.append(('radical', r, p, v))
    # _format_atom on dynamic atoms: a full grid for a few elements, plus every distinct atom of the generated CGRs
    seen = set()

    def atom_case(d):
        key = (d.atomic_symbol, d.isotope, d.charge, d.is_radical, d.p_charge, d.p_is_radical)
        if key in seen:
            return
        seen.add(key)
        h = CGRContainer()
        h._atoms = {1: d}
        try:
            v = h._format_atom(1, None)
        except KeyError:
            v = None
        iso = str(d.isotope) if d.isotope else None
        cases.append(f'tok_atom {cstr(d.atomic_symbol)} {b(d.atomic_symbol in sm.organic_set)} {opt(iso, cstr)} {datom_term(d)} {opt(v, cstr)}')
        meta.append(('atom',) + key)
        ck.case(('tok-atom',) + key, nontrivial=d.is_dynamic)
    for sym in ('C', 'Na', 'Cl', 'B'):
        for iso in (None, 13 if sym == 'C' else None):
            for c1 in range(-4, 5):
                for c2 in range(-4, 5):
                    for r1 in (False, True):
                        for r2 in (False, True):
                            if sym != 'C' and (abs(c1) > 2 or abs(c2) > 2) and ck.tier == 'quick':
                                continue
                            a1 = Element.from_symbol(sym)(iso)
                            a2 = Element.from_symbol(sym)(iso)
                            a1._charge, a1._is_radical, a2._charge, a2._is_radical = c1, r1, c2, r2
                            atom_case(DynamicElement.from_atoms(a1, a2))
    for x in rxns:
        try:
            h = ~x.rxn
        except Exception:
            continue
        for n, d in h.atoms():
            atom_case(d)
    ck.count('tokens:atoms', len(seen))
    ok, failing, log = coqcases.run_cases('c15_tokens', 'Graph Compose RxnSmiles', cases, extra=EXTRA, shard=400)
    ck.oblige('correspondence: dyn_order_str / dyn_charge_str / dyn_radical_str tables (all keys, and keys outside) and CGRSmiles._format_atom/_format_bond == Coq model',
              ok and not failing, 'correspondence', log or str([meta[i] for i in failing[:5]]))
    ck.extra['correspondence_cases_tokens'] = len(cases)
    if not ok or failing:
        ck.unchecked('correspondence CGR SMILES tokens vs chython/algorithms/smiles.py tables', (log or '')[-1500:],
                     [repr(meta[i]) + ' :: ' + cases[i][:200] for i in failing[:20]])
    return ok and not failing


# ---- Morgan order of the condensed graph

EXTRA_MORGAN = r'''From Model Require Import PyHash.
Import ListNotations.
Open Scope Z_scope.
Definition DA (n c pc : Z) : datom := mkDAtom n None c false pc false.
Definition E (o : Z) : dbond := mkDBond (Some o) (Some o).
(* hash(atom) of every dynamic atom, Morgan.int_adjacency (hash(bond)), Morgan.atoms_order (dict in insertion order) *)
Definition py_cgr_atoms_order := cgr_atoms_order hash63.
Definition cgo_parts (c : cgr) (hs : labels) (adj : iadj) (ord : pyres labels) : list bool :=
  [ labels_eqb (cgr_atom_labels hash63 c) hs;
    list_eqb (pair_eqb Z.eqb labels_eqb) (cgr_int_adjacency hash63 c) adj;
    res_eqb (py_cgr_atoms_order c) ord ].
Definition cgo_ok c hs adj ord : bool := forallb (fun x => x) (cgo_parts c hs adj ord).
(* str(cgr) and the written atom order: the traversal model of C02 on the skeleton of the condensed graph, with the real
   Morgan ranks as weights and the observed written order as tie-break priority (stands for CPython's set order) *)
Definition zf (d : list (Z * Z)) (n : Z) : Z := match zget d n with Some x => x | None => 0 end.
Definition cgs_ok (c : cgr) (w tb : list (Z * Z)) (txt : string) (ord : list Z) : bool :=
  match cgr_smiles_text hash63 c (zf w) (zf tb) with
  | Ok (t, o) => String.eqb t txt && list_eqb Z.eqb o ord
  | Err _ => false
  end.
(* the whole of str(cgr): Morgan ranks by the model as well *)
Definition cgstr_ok (c : cgr) (tb : list (Z * Z)) (txt : string) (ord : list Z) : bool :=
  match cgr_str hash63 c (zf tb) with
  | Ok (t, o) => String.eqb t txt && list_eqb Z.eqb o ord
  | Err _ => false
  end.
(* the machine-integer tuple hash used for evaluation agrees with the reference definition over Z *)
Definition h_agree (l : list Z) : bool := Z.eqb (hash63 l) (hash_ztuple l).
'''


def corr_morgan(ck, rxns):
    from chython import smiles, MoleculeContainer
    cases, meta = [], []
    tuples = set()
    graphs = []
    for x in (rxns[:70] if ck.tier == 'quick' else rxns[:500]):
        try:
            graphs.append((('rxn', x.desc['idx']), ~x.rxn))
        except Exception:
            continue
    for a, c in (('CCO', 'C=C[O-]'), ('C', 'C'), ('C', '[CH3] |^1:0|'), ('[13CH4]', '[13CH3-]'), ('c1ccccc1', 'C1=CC=CC=C1'), ('CC', 'C.C'), ('O', 'OC'),
                 ('C[Fe+4]', 'C[Fe-4]'), ('C~C', 'CC')):
        graphs.append((('pair', a, c), smiles(a) ^ smiles(c)))
    for tok, r, p in cage_reactions(ck)[:45 if ck.tier == 'quick' else 400]:      # polycyclic cages, bridged rings (tied ranks, unequal distances)
        try:
            graphs.append((('cage',) + tuple(str(x) for x in tok), r ^ p))
        except Exception:
            continue
    graphs.append((('pair', 'empty', 'empty'), MoleculeContainer() ^ MoleculeContainer()))
    graphs.append((('pair', 'empty', 'C'), MoleculeContainer() ^ smiles('C')))
    for tok, h in graphs:
        try:
            order = h.atoms_order
            exp = 'Ok ' + lst([tup(zraw(n), zraw(v)) for n, v in order.items()])
        except Exception as e:
            exp = exn_term(e)
        hs = lst([tup(zraw(n), zraw(hash(a))) for n, a in h.atoms()])
        adj = lst([tup(zraw(n), lst([tup(zraw(m), zraw(v)) for m, v in mb.items()])) for n, mb in h.int_adjacency.items()])
        cases.append(f'cgo_ok {cgr_term(h)} {hs} {adj} ({exp})')
        meta.append(tok)
        if exp.startswith('Ok') and 0 < len(h._atoms) <= (40 if ck.tier == 'quick' else 70):
            try:
                txt, wo = str(h), list(h.smiles_atoms_order)
            except Exception:
                txt = None
            if txt is not None:
                tbl = lst([tup(zraw(n), zraw(i)) for i, n in enumerate(wo)])
                wl = lst([tup(zraw(n), zraw(v)) for n, v in order.items()])
                cases.append(f'cgs_ok {cgr_term(h)} {wl} {tbl} {cstr(txt)} {zl(wo)}')
                meta.append(tok + ('string',))
                ck.case(('cgr-string',) + tok, nontrivial=True)
                ck.count('writer-cgr:' + ('discrete ranks' if len(set(order.values())) == len(order) else 'tied ranks'))
                if len(h._atoms) <= 12:
                    cases.append(f'cgstr_ok {cgr_term(h)} {tbl} {cstr(txt)} {zl(wo)}')
                    meta.append(tok + ('whole string',))
        ck.case(('cgr-morgan',) + tok, nontrivial=len(h._atoms) > 1)
        ck.count('morgan:' + ('ranks all distinct' if exp.startswith('Ok') and len(set(order.values())) == len(order) else 'ties' if exp.startswith('Ok') else exp))
        for _, a in h.atoms():
            tuples.add((a.isotope or 0, a.atomic_number, a.charge, a.p_charge, int(a.is_radical), int(a.p_is_radical)))
        for _, _, bd in h.bonds():
            tuples.add((bd.order or 0, bd.p_order or 0))
    # DynamicBond.__int__ (tie-break of the SMILES traversal between neighbours of equal Morgan class) on every bond kind
    from chython.containers.bonds import DynamicBond
    for o in (None, 1, 2, 3, 4, 8):
        for p_ in (None, 1, 2, 3, 4, 8):
            if o is None and p_ is None:
                continue
            bd = DynamicBond(o, p_)
            cases.append(f'Z.eqb (dbond_int hash63 (mkDBond {opt(o, zraw)} {opt(p_, zraw)})) {zraw(int(bd))}')
            meta.append(('bond-int', o, p_))
            ck.case(('bond-int', o, p_), nontrivial=True)
    for t in sorted(tuples):
        cases.append(f'h_agree {zl(t)}')
        meta.append(('tuple', t))
    ok, failing, log = coqcases.run_cases('c15_morgan', 'Graph Morgan MorganFast Writer Compose CgrMorgan CgrWriter', cases, extra=EXTRA_MORGAN, shard=max(10, len(cases) // 16 + 1))
    ck.oblige('correspondence: DynamicElement.__hash__ / DynamicBond.__hash__ / __int__ / Morgan.int_adjacency / Morgan.atoms_order / str(cgr) and its atom order on condensed graphs == Coq model (CgrMorgan.v over Morgan.v, CgrWriter.v over Writer.v)',
              ok and not failing, 'correspondence', log or str([meta[i] for i in failing[:5]]))
    ck.extra['correspondence_cases_morgan'] = len(cases)
    if not ok or failing:
        # directed search: the property-level consequence (string / ranks under consistent renumbering) on the disagreeing graphs
        idx = {x.desc['idx']: x for x in rxns}
        for i in failing[:30]:
            if meta[i][0] == 'rxn':
                try:
                    search_cgr(ck, idx[meta[i][1]], random.Random(0))
                except Exception:
                    pass
        ck.unchecked('correspondence CgrMorgan model vs Morgan.atoms_order on condensed graphs', (log or '')[-1500:],
                     [repr(meta[i]) + ' :: ' + cases[i][:300] for i in failing[:20]])
    return ok and not failing


# ---- the reaction-level cache across in-place standardisation methods (history: evaluate, modify in place, evaluate again)

EXTRA_CACHE_GEN = r'''From Gen Require Import RxnCacheGen.
Open Scope Z_scope.
(* the methods as TRANSLATED from the source on every run (Gen.RxnCacheGen, tools/gen_rxncache.py): returned value and whether a filled
   cache cell was emptied *)
Definition gres {A : Type} (x : A * option Z) (eq : A -> A -> bool) (total : A) (flushed : bool) : bool :=
  eq (fst x) total && Bool.eqb flushed (match snd x with None => true | Some _ => false end).
Definition gc_thiele (results : list bool) total flushed : bool := gres (g_thiele results (Some 1)) Bool.eqb total flushed.
Definition gc_kekule (results : list bool) total flushed : bool := gres (g_kekule results (Some 1)) Bool.eqb total flushed.
Definition gc_clean_isotopes (results : list bool) total flushed : bool := gres (g_clean_isotopes results (Some 1)) Bool.eqb total flushed.
Definition gc_implicify_hydrogens (counts : list Z) total flushed : bool := gres (g_implicify_hydrogens counts (Some 1)) Z.eqb total flushed.
'''
GEN_CACHE_METHODS = ('thiele', 'kekule', 'clean_isotopes', 'implicify_hydrogens')
USE_GEN_CACHE = [True]
EXTRA_CACHE = r'''Import ListNotations.
Open Scope Z_scope.
(* the flag the method returns and whether the cache was flushed, from the molecules' own return values *)
Definition cache_ok_b (results : list bool) (total flushed : bool) : bool :=
  Bool.eqb (flag_any results) total && Bool.eqb flushed (flag_any results).
Definition cache_ok_c (counts : list Z) (total : Z) (flushed : bool) : bool :=
  Z.eqb (fold_left Z.add counts 0) total && Bool.eqb flushed (flag_count counts).
'''

HISTORY_METHODS = [('kekule', 'bool'), ('thiele', 'bool'), ('clean_isotopes', 'bool'), ('implicify_hydrogens', 'count'),
                   ('explicify_hydrogens', 'count'), ('implicify_hydrogens', 'count'), ('clean_stereo', 'always'), ('canonicalize', 'search-only')]
HISTORY_DIRECTED = [
    '[CH:1]1=[CH:2][CH:3]=[CH:4][CH:5]=[CH:6]1>>[CH2:1]1[CH2:2][CH2:3][CH2:4][CH2:5][CH2:6]1',          # Kekule ring first, none last
    '[CH2:1]1[CH2:2][CH2:3][CH2:4][CH2:5][CH2:6]1>>[CH:1]1=[CH:2][CH:3]=[CH:4][CH:5]=[CH:6]1',
    '[CH:1]1=[CH:2][CH:3]=[CH:4][CH:5]=[CH:6]1.[OH2:7]>[ClH:8]>[CH2:1]1[CH2:2][CH2:3][CH2:4][CH2:5][CH2:6]1.[OH2:7]',
    '[cH:1]1[cH:2][cH:3][cH:4][cH:5][cH:6]1>>[CH2:1]1[CH2:2][CH2:3][CH2:4][CH2:5][CH2:6]1',            # aromatic ring first (kekule)
    '[cH:1]1[cH:2][cH:3][cH:4][cH:5][cH:6]1.[CH4:7]>>[CH4:7].[CH2:1]1[CH2:2][CH2:3][CH2:4][CH2:5][CH2:6]1',
    '[13CH4:1].[CH4:2]>>[13CH4:1].[CH4:2]', '[CH4:2].[13CH4:1]>>[CH4:2]', '[13CH4:1]>[OH2:3]>[CH4:2]',     # isotopes first / last / none last
    '[H:5][CH2:1][OH:2].[OH2:3]>>[CH3:1][OH:2].[OH2:3]', '[CH3:1][OH:2]>>[H:5][CH2:1][OH:2]',               # explicit hydrogens
    '[CH3:1][C@H:2]([NH2:3])[OH:4].[OH2:5]>>[CH3:1][CH:2]([NH2:3])[OH:4].[OH2:5]',                           # stereo
    '[CH:1]1=[CH:2][CH:3]=[CH:4][CH:5]=[CH:6]1>[CH:7]1=[CH:8][CH:9]=[CH:10][CH:11]=[N:12]1>',                # no products: the last molecule is a reagent
    '[CH:1]1=[CH:2][CH:3]=[CH:4][CH:5]=[CH:6]1.[OH2:7]>>', '[O-:1][N+:2](=[O:3])[CH3:4].[OH2:5]>>[O:1]=[N:2](=[O:3])[CH3:4].[OH2:5]']


def cgr_sig(r):
    try:
        h = ~r
    except Exception as e:
        return 'raises ' + type(e).__name__
    return (sorted((n, a.atomic_number, a.isotope, a.charge, a.p_charge, a.is_radical, a.p_is_radical) for n, a in h.atoms()),
            sorted((min(n, m), max(n, m), bd.order, bd.p_order) for n, m, bd in h.bonds()))


def history_run(ck, rxn, tag, cases, meta):
    """evaluate (fills the reaction cache), call an in-place method, evaluate again: the reaction must answer like a fresh
    reaction built from copies of its (now modified) molecules; the flag and the flush follow the molecules' own results"""
    from chython import ReactionContainer
    r = ReactionContainer([m.copy() for m in rxn.reactants], [m.copy() for m in rxn.products], [m.copy() for m in rxn.reagents])
    for name, kind in HISTORY_METHODS:
        try:
            s0, h0, c0 = str(r), hash(r), cgr_sig(r)
            results = []
            for m in r.molecules():
                c = m.copy()
                results.append(getattr(c, name)())
            total = getattr(r, name)()
        except Exception as e:
            ck.count(f'history:{name}:not applicable ({type(e).__name__})')
            return
        flushed = not r.__dict__
        # a new reaction object over the SAME molecule objects: fresh reaction-level cache, identical molecule-level state
        fresh = ReactionContainer(r.reactants, r.products, r.reagents)
        try:
            s1, sf = str(r), str(fresh)
            same = s1 == sf and hash(r) == hash(fresh) and (r == fresh) is True and cgr_sig(r) == cgr_sig(fresh)
        except Exception as e:
            ck.count(f'history:{name}:not applicable ({type(e).__name__})')
            return
        # ... and like a reaction built from COPIES of the molecules (no molecule-level cache shared), unless a molecule itself
        # answers differently from its own copy (a molecule-level stale cache: C13's business, counted, not reported here)
        try:
            copies = ReactionContainer([m.copy() for m in r.reactants], [m.copy() for m in r.products], [m.copy() for m in r.reagents])
            if same and (str(copies) != s1 or cgr_sig(copies) != cgr_sig(r)):
                if any(str(m) != str(m.copy()) for m in r.molecules()):
                    ck.count(f'history:{name}:a molecule differs from its own copy (molecule-level cache, C13)')
                else:
                    same = False
                    fresh, sf = copies, str(copies)
        except Exception:
            pass
        changed = bool(total) if kind != 'always' else True
        ck.case(('history', tag, name), nontrivial=changed)
        ck.count(f'history:{name}:' + ('changed' if changed else 'unchanged') +
                 (':only an earlier molecule changed' if kind in ('bool', 'count') and results and any(results[:-1]) and not results[-1] else ''))
        if not same:
            rp = (REPLAY_HEAD + f"r = build({rx_repr(rxn)!r})\n" +
                  ''.join(f"str(r); hash(r); r.{nm}()\n" for nm, _ in HISTORY_METHODS[:[x[0] for x in HISTORY_METHODS].index(name) + 1]) +
                  "f = ReactionContainer(r.reactants, r.products, r.reagents)\nprint(str(r)); print(str(f))")
            ck.counterexample(f'stale-cache:{name}:{tag}', f'after str()/hash()/~ and then {name}() the reaction still answers from its cache: it differs from a new '
                              'reaction object over the same molecules', {'roles': rx_repr(rxn), 'method': name}, (s1, cgr_sig(r)), (sf, cgr_sig(fresh)),
                              'a new ReactionContainer over the same molecule objects (fresh reaction-level cache)', replay_py=rp)
            return
        if kind == 'bool':
            cases.append(f'cache_ok_b {lst([bool(x) for x in results], b)} {b(bool(total))} {b(flushed)}')
            meta.append((tag, name, results, total, flushed))
            if USE_GEN_CACHE[0] and name in GEN_CACHE_METHODS:
                cases.append(f'gc_{name} {lst([bool(x) for x in results], b)} {b(bool(total))} {b(flushed)}')
                meta.append((tag, name + ' (translated body)', results, total, flushed))
        elif kind == 'count':
            cases.append(f'cache_ok_c {lst([int(x) for x in results], zraw)} {zraw(int(total))} {b(flushed)}')
            meta.append((tag, name, results, total, flushed))
            if USE_GEN_CACHE[0] and name in GEN_CACHE_METHODS:
                cases.append(f'gc_{name} {lst([int(x) for x in results], zraw)} {zraw(int(total))} {b(flushed)}')
                meta.append((tag, name + ' (translated body)', results, total, flushed))


def corr_cache(ck, rxns):
    from chython import smiles
    cases, meta = [], []
    for s in HISTORY_DIRECTED:
        try:
            history_run(ck, smiles(s), 'directed:' + s, cases, meta)
        except Exception as e:
            ck.count('history:directed input refused ' + type(e).__name__)
    for x in (rxns[:40] if ck.tier == 'quick' else rxns[:400]):
        history_run(ck, x.rxn, x.desc['idx'], cases, meta)
    ok, failing, log = coqcases.run_cases('c15_cache', 'RxnCache', cases, extra=(EXTRA_CACHE_GEN if USE_GEN_CACHE[0] else '') + EXTRA_CACHE, shard=400)
    ck.oblige('correspondence: flag and cache flush of ReactionContainer.thiele / kekule / clean_isotopes / implicify_hydrogens / explicify_hydrogens == Coq model (RxnCache.v)',
              ok and not failing, 'correspondence', log or str([meta[i] for i in failing[:5]]))
    ck.extra['correspondence_cases_cache'] = len(cases)
    if not ok or failing:
        ck.unchecked('correspondence RxnCache model vs chython/algorithms/standardize/reaction.py', (log or '')[-1500:],
                     [repr(meta[i]) for i in failing[:20]])
    return ok and not failing


# ---- rings of symmetry-equivalent atoms with alternating dynamic bonds (cycloreversions and the like)

RING_KINDS = [(1, 2), (1, None), (1, 1), (2, 1), (2, None), (2, 2), (1, 3), (None, 1), (None, 2), (2, 3), (3, None), (3, 1)]


def search_symmetric_rings(ck):
    """str(r ^ p) of a ring whose atoms are all in one Morgan class and whose bonds alternate between two kinds of dynamic bond
    (e.g. cyclobutane >> 2 ethylene, cyclohexane >> 3 ethylene, cyclobutane >> cyclobutadiene) is one string for every numbering
    and every storage order of atoms and bonds"""
    from chython import MoleculeContainer
    rng = random.Random(f'{ck.seed}:c15:rings')

    def ring(n, ka, kb, side, numbering, order_atoms, order_bonds):
        m = MoleculeContainer()
        for i in order_atoms:
            m.add_atom('C', numbering[i])
        for i in order_bonds:
            o = (ka if i % 2 == 0 else kb)[side]
            if o is not None:
                m.add_bond(numbering[i], numbering[(i + 1) % n], o)
        return m
    for n in ((4, 6) if ck.tier == 'quick' else (4, 6, 8, 10)):
        for ka, kb in itertools.permutations(RING_KINDS, 2):
            seen = {}
            for t in range(7 if ck.tier == 'quick' else 16):
                nums, oa, ob = list(range(1, n + 1)), list(range(n)), list(range(n))
                if t:
                    rng.shuffle(nums)
                    rng.shuffle(oa)
                    rng.shuffle(ob)
                try:
                    st = str(ring(n, ka, kb, 0, nums, oa, ob) ^ ring(n, ka, kb, 1, nums, oa, ob))
                except Exception as e:
                    st = 'raises ' + type(e).__name__
                seen.setdefault(st, (nums, oa, ob))
            ck.case(('sym-ring', n, ka, kb), nontrivial=True)
            ck.count('search:symmetric ring, alternating dynamic bonds')
            if len(seen) > 1:
                (s1, v1), (s2, v2) = list(seen.items())[:2]
                ck.counterexample(f'cgr-renumber-string:ring{n}:{ka}:{kb}', 'the canonical string of the condensed graph of a symmetric ring with alternating '
                                  'dynamic bonds depends on the numbering / storage order', {'ring size': n, 'bond kinds (order, p_order)': [ka, kb],
                                  'numbering, atom order, bond order (a)': v1, '(b)': v2}, s2, s1, 'the same reaction renumbered and rebuilt in another order',
                                  replay_py=("from chython import MoleculeContainer\n"
                                             "def ring(n, ka, kb, side, nums, oa, ob):\n    m = MoleculeContainer()\n    for i in oa: m.add_atom('C', nums[i])\n"
                                             "    for i in ob:\n        o = (ka if i % 2 == 0 else kb)[side]\n        if o is not None: m.add_bond(nums[i], nums[(i + 1) % n], o)\n    return m\n"
                                             f"for v in ({v1!r}, {v2!r}):\n    print(str(ring({n}, {ka}, {kb}, 0, *v) ^ ring({n}, {ka}, {kb}, 1, *v)))"))


def use_generated_model(ck, proved):
    """The correspondence also evaluates the models REGENERATED from the source (Gen.ComposeGen, Gen.RxnFormatGen).  If a translator
    failed closed or its output does not compile (both already reported as broken obligations by the proof steps), the
    correspondence and the search still run, against the hand-written model only."""
    global EXTRA
    oks = []
    for mod, vo in (('gen_compose', 'gen/ComposeGen.vo'), ('gen_rxnformat', 'gen/RxnFormatGen.vo'), ('gen_cgrtokens', 'gen/CgrTokensGen.vo'), ('gen_rxncompose', 'gen/RxnComposeGen.vo'), ('gen_union', 'gen/UnionGen.vo')):
        ok = proved
        if not ok:
            try:
                __import__(mod).main(common.REPO)
                ok, _ = common.coq_make([vo])
            except Exception:
                ok = False
        oks.append(bool(ok))
    ok = proved
    if not ok:
        try:
            __import__('gen_rxncache').main(common.REPO)
            ok, _ = common.coq_make(['gen/RxnCacheGen.vo'])
        except Exception:
            ok = False
    USE_GEN_CACHE[0] = bool(ok)
    ck.extra['generated_models_in_correspondence'] = oks + [bool(ok)]
    EXTRA = build_extra(*oks)


def run(ck):
    ck.trusted += ['correspondence runner harness/checks/C15.py + harness/coqcases.py + harness/coqmol.py (printing live molecules / condensed graphs as Coq terms)',
                   'CachedMethods shim harness/boot.py', 'CPython 3.12.1 (set iteration orders are observed, not modelled)']
    ck.assumptions += ['the models coq/model/Compose.v and coq/model/RxnSmiles.v are hand-written mirrors of the Python code; the tie is the correspondence',
                       'molecule-level SMILES writer and parser (m.__format__, parser, smiles_tokenize) are inputs of the reaction-level models, not modelled (C01-C03)',
                       'the iteration orders of the three Python sets in compose are inputs of compose_ord (theorems hold for every order)',
                       'the canonical order of the atoms of a condensed graph (Morgan.atoms_order / _smiles) is not modelled: renumbering invariance of str(cgr) is search only']
    ck.extra['rule'] = ('reactions = 1-3 corpus (lipophilicity.csv) or small molecules renumbered disjointly as reactant side, a copy edited by 0-6 random '
                        'bond deletions/additions/order changes (orders 1 2 3 4 8), charge and radical changes, atom deletions/additions as product side, both '
                        'sides split into components and regrouped into molecules (25% salts), 0-3 reagents (sometimes with colliding numbers), empty roles, twins '
                        'differing in radical state only; non-trivial = the reaction has a centre / the string has a role with > 1 molecule / a contraction. '
                        'compose additionally: all 1600 pairs of graphs on <= 3 atoms x 5 product variants (element / isotope clash -> ValueError); '
                        'reader: written strings, hand-made malformed strings, grammar-level synthetic strings and random mutations, each with ignore on and off')
    # at most 5 replay files per class of counterexample (a broken compose fails on hundreds of inputs)
    orig, per_class = ck.counterexample, {}

    def limited(key, *a, **k):
        cls = key.split(':')[0]
        per_class[cls] = per_class.get(cls, 0) + 1
        if per_class[cls] > 5 and ck.match_known(key) is None:
            ck.count(f'counterexamples beyond the first 5 of class {cls} (not written)')
            return True
        return orig(key, *a, **k)
    ck.counterexample = limited
    import time
    phases = {}

    def timed(name, fn, *a):
        t0 = time.time()
        r = fn(*a)
        phases[name] = round(time.time() - t0, 1)
        return r
    # generated files in the closure of props/C15.v: the C15 tables (tools/gen_cgr.py) and those of the writer model of C02
    proved = timed('proof steps', common.standard_proof_steps, ck, ['cgr', 'compose', 'rxnformat', 'cgrtokens', 'rxncompose', 'rxncache', 'union', 'smiles_tables', 'elements', 'stereo'])
    use_generated_model(ck, proved)
    n = 300 if ck.tier == 'quick' else 1000
    rxns = timed('generate', gen_reactions, ck, n)
    ck.extra['reactions'] = len(rxns)
    HISTORIES[0] = timed('generate edit histories', gen_edit_histories, ck, 150 if ck.tier == 'quick' else 1500)
    ck.extra['edit_histories'] = len(HISTORIES[0])
    tied = timed('corr compose', corr_compose, ck, rxns)
    tied = timed('corr writer', corr_writer, ck, rxns) and tied
    tied = timed('corr reader', corr_reader, ck, rxns) and tied
    tied = timed('corr tokens', corr_tokens, ck, rxns) and tied
    tied = timed('corr morgan', corr_morgan, ck, rxns) and tied
    tied = timed('corr cache + history search', corr_cache, ck, rxns) and tied
    timed('search', search, ck, rxns)
    ck.extra['phase_seconds'] = phases
    ck.extra['proved'] = proved
    ck.extra['tied'] = tied
