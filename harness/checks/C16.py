"""C16 template application edits exactly what the template names.

proof      : coq/props/C16.v: _to_delete of BaseReactor.__init__ and "unless masked"; get_deleted specification proved in
             full for the code after fix: b90326c (never raises, returns exactly the matched-and-unkept atoms + detached
             pieces; order independent); _patcher never raises on a real match, frame / freshness / named atoms and bonds /
             identity theorems for its structural part; fix_mapping_overlap disjointness
tie        : BaseReactor.__init__ (_to_delete), BaseReactor._get_deleted (result AND the local sets `delete` / `keep`, read
             from the frame of the real call), BaseReactor._patcher (structure, not stereo) and fix_mapping_overlap are run on
             real Transformer / Reactor objects and compared with the Coq model evaluated by vm_compute; a disagreement starts
             a directed search with the oracles below on and around the disagreeing inputs
search     : independent oracles on the real code (connected components by union-find / RDKit, read-out of every product
             against the template, sign of untouched stereocentres, identity templates, valence, unique numbers, duplicates,
             spectator molecules, renumbering / reactant order independence, one-shot and exhaustive Reactor modes)
"""
import itertools
import random
import sys
from functools import reduce
from operator import or_

import boot  # noqa
import common
import coqcases
import coqmol
import corpus
from coqfmt import zraw, b, lst, opt, tup

replay = common.generic_replay

# the model function the real BaseReactor._get_deleted is compared with
MODEL_FUNCTION = 'get_deleted'

EXN = {'KeyError': 'KeyError', 'ValueError': 'ValueError', 'IndexError': 'IndexError', 'TypeError': 'TypeError',
       'StopIteration': 'StopIteration', 'AttributeError': 'AttributeError'}


def exn(e):
    return 'Err ' + EXN.get(type(e).__name__, 'OtherError')


def zl(xs):
    return lst(list(xs), zraw)


def pairs(d):
    return lst([tup(zraw(k), zraw(v)) for k, v in d.items()])


# ---------------------------------------------------------------------------------------------------------------------
# oracles (independent of the model and of the walk in _get_deleted)

def oracle_deleted(bonds, D, K):
    """matched-and-unkept atoms + the pieces of the remainder that hung on one of them and hold no kept matched atom.
    connected components by union-find"""
    D, K = set(D), set(K)
    parent = {n: n for n in bonds if n not in D}

    def find(x):
        while parent[x] != x:
            parent[x] = parent[parent[x]]
            x = parent[x]
        return x
    for n in parent:
        for m in bonds[n]:
            if m in parent:
                a, c = find(n), find(m)
                if a != c:
                    parent[a] = c
    comp = {}
    for n in parent:
        comp.setdefault(find(n), set()).add(n)
    res = set(D)
    for c in comp.values():
        if c & K:
            continue
        if any(m in D for n in c for m in bonds[n]):
            res |= c
    return res


def oracle_deleted_rdkit(bonds, D, K):
    """same statement, connected components by RDKit's GetMolFrags on the remainder"""
    from rdkit import Chem
    D, K = set(D), set(K)
    rest = [n for n in bonds if n not in D]
    idx = {n: i for i, n in enumerate(rest)}
    rw = Chem.RWMol()
    for _ in rest:
        rw.AddAtom(Chem.Atom(0))
    for n in rest:
        for m in bonds[n]:
            if m in idx and idx[n] < idx[m]:
                rw.AddBond(idx[n], idx[m], Chem.BondType.SINGLE)
    res = set(D)
    for frag in Chem.GetMolFrags(rw):
        c = {rest[i] for i in frag}
        if c & K:
            continue
        if any(m in D for n in c for m in bonds[n]):
            res |= c
    return res


# ---------------------------------------------------------------------------------------------------------------------
# real objects

_tcache = {}


def any_transformer(k, deleted, masked=()):
    """a real Transformer whose pattern has the atoms 1..k (any element, the `masked` ones masked) and whose replacement
    keeps those not in `deleted` and not masked"""
    from chython import smarts
    from chython.containers import QueryContainer
    from chython.reactor import Transformer
    key = (k, tuple(sorted(deleted)), tuple(sorted(masked)))
    if key not in _tcache:
        pat = smarts('.'.join(f'[A;M:{i}]' if i in masked else f'[A:{i}]' for i in range(1, k + 1)))
        keep = [i for i in range(1, k + 1) if i not in deleted and i not in masked]
        rep = smarts('.'.join(f'[A:{i}]' for i in keep)) if keep else QueryContainer('')
        _tcache[key] = Transformer(pat, rep)
    return _tcache[key]


def carbon_graph(n, edges):
    from chython.containers import MoleculeContainer
    m = MoleculeContainer()
    for _ in range(n):
        m.add_atom('C')
    for a, c in edges:
        m.add_bond(a, c, 1)
    return m


def observed_order(t, mapping):
    """pattern atoms to delete, in the order in which `for x in to_delete` visits their images (the set is rebuilt by
    the very expression the method uses, so its iteration order is the same)"""
    obs = list({mapping[x] for x in t._to_delete})
    inv = {}
    for x in t._to_delete:
        inv.setdefault(mapping[x], x)
    return [inv[y] for y in obs], obs


KEEP_REGION_EQB = '''Definition keep_region_eqb (g : mol) (del tetra : list Z) (natoms : list (Z * atom)) (nbonds : list (Z * list (Z * bond)))
    (sts : list Z) (stb : list (Z * Z)) (natoms' : list (Z * atom)) (nbonds' : list (Z * list (Z * bond))) (sts' : list Z) (stb' : list (Z * Z)) : bool :=
  match g_patcher_keep (m_atoms g) (m_adj g) del tetra natoms nbonds sts stb with
  | Ok (a, b, c, d) => list_eqb (pair_eqb Z.eqb atom_eqb) a natoms' && list_eqb (pair_eqb Z.eqb (list_eqb (pair_eqb Z.eqb bond_eqb))) b nbonds' &&
                       list_eqb Z.eqb c sts' && list_eqb (pair_eqb Z.eqb Z.eqb) d stb'
  | Err _ => false
  end.
Definition atoms_region_eqb (g : mol) (ra : list (Z * gratom)) (mp : list (Z * Z)) (mx : Z)
    (natoms' : list (Z * atom)) (nbonds' : list (Z * list (Z * bond))) (mp' : list (Z * Z)) (mx' : Z) (sts' : list Z) : bool :=
  match g_patcher_atoms ra (m_atoms g) [] [] mp mx [] with
  | Ok (a, b, c, d, e) => list_eqb (pair_eqb Z.eqb atom_eqb) a natoms' && list_eqb (pair_eqb Z.eqb (list_eqb (pair_eqb Z.eqb bond_eqb))) b nbonds' &&
                          list_eqb (pair_eqb Z.eqb Z.eqb) c mp' && (d =? mx') && list_eqb Z.eqb e sts'
  | Err _ => false
  end.
Definition rbonds_region_eqb (g : mol) (tb : list (Z * list (Z * bond))) (mp : list (Z * Z)) (nbonds nbonds' : list (Z * list (Z * bond)))
    (stb' : list (Z * Z)) : bool :=
  match g_patcher_rbonds tb (m_adj g) mp nbonds [] with
  | Ok (b, d) => list_eqb (pair_eqb Z.eqb (list_eqb (pair_eqb Z.eqb bond_eqb))) b nbonds' && list_eqb (pair_eqb Z.eqb Z.eqb) d stb'
  | Err _ => false
  end.'''


def rbonds_term(repl):
    """the bonds of the replacement with their labels (order = int(rb), as _patcher reads it)"""
    return lst([tup(zraw(n), lst([tup(zraw(m), f'(mkBond {zraw(int(rb))} {opt(rb.stereo, b)})') for m, rb in bs.items()]))
                for n, bs in repl._bonds.items()])


def gratoms_term(repl):
    """the atoms of the replacement as Gen.ReactorBody.gratom records: the class and the raw attributes _patcher reads (no logic here)"""
    from chython.periodictable import AnyElement, Element
    rows = []
    for n, ra in repl.atoms():
        if isinstance(ra, AnyElement):
            kind, num, iso, h, hs = 'KAny', 0, None, None, []
        elif isinstance(ra, Element):
            kind, num, iso, h, hs = 'KElement', ra.atomic_number, ra.isotope, ra.implicit_hydrogens, []
        else:
            kind, num, iso, h, hs = 'KQuery', ra.atomic_number, ra.isotope, None, list(ra.implicit_hydrogens)
        rows.append(tup(zraw(n), f'mkGR {kind} {zraw(num)} {opt(iso, zraw)} {zraw(ra.charge)} {b(ra.is_radical)} {opt(ra.stereo, b)} {opt(h, zraw)} {zl(hs)}'))
    return lst(rows)


class Batch:
    """Coq cases with shared definitions (graphs / molecules are defined once and referenced by name)"""

    def __init__(self):
        # the cases of the translated region need Gen.ReactorBody: only when the translator accepted the source of this run
        self.defs = (['From Gen Require Import ReactorBody.\nImport ListNotations.', 'Open Scope Z_scope.\n' + KEEP_REGION_EQB] if REGION_OK[0]
                     else ['Import ListNotations.', 'Open Scope Z_scope.'])
        self.names = {}
        self.cases = []
        self.meta = []
        self.ctx = []
        self.unobservable = 0

    def define(self, kind, term):
        if term not in self.names:
            name = f'{kind}{len(self.names)}'
            self.names[term] = name
            ty = 'graph' if kind == 'g' else 'mol' if kind == 'm' else 'template'
            self.defs.append(f'Definition {name} : {ty} := {term}.')
        return self.names[term]

    def add(self, expr, meta, ctx=None):
        self.cases.append(expr)
        self.meta.append(meta)
        self.ctx.append(ctx)

    def run(self, name, chunk=150):
        """every shard is a Coq file of its own holding only the definitions its cases refer to (shards of ~100-200 KB)"""
        import concurrent.futures as cf
        import re
        head = self.defs[:2]
        by_name = {n: d for d, n in zip(self.defs[2:], self.names.values())}
        chunks = [list(range(i, min(i + chunk, len(self.cases)))) for i in range(0, len(self.cases), chunk)]

        def one(k):
            idx = chunks[k]
            used = []
            seen = set()
            for i in idx:
                for tok in re.findall(r'\b[gmt]\d+\b', self.cases[i]):
                    if tok in by_name and tok not in seen:
                        seen.add(tok)
                        used.append(by_name[tok])
            ok, failing, log = coqcases.run_cases(f'{name}{k}', 'Graph Reactor ReactorStage ReactorQueue ReactorPrepared', [self.cases[i] for i in idx], extra='\n'.join(head + used), shard=len(idx))
            return ok, [idx[j] for j in failing], log
        ok_all, failing, logs = True, [], []
        with cf.ThreadPoolExecutor(max_workers=4) as ex:
            for ok, fl, log in ex.map(one, range(len(chunks))):
                ok_all = ok_all and ok
                failing.extend(fl)
                if log:
                    logs.append(log)
        return ok_all, sorted(failing), '\n'.join(logs)


def sparse_renumber(mol, rng):
    """a copy with random, non-contiguous atom numbers (so that counts and maxima differ)"""
    nums = list(mol._atoms)
    new = rng.sample(range(1, 3 * len(nums) + 6), len(nums))
    m = mol.copy()
    m.remap(dict(zip(nums, [x + 10 ** 6 for x in new])))
    m.remap({x + 10 ** 6: x for x in new})
    return m


def rebuilt_hydrogens(prod):
    """implicit hydrogens of a molecule rebuilt from scratch (add_atom / add_bond inside one transaction) from the atoms and
    bonds of `prod`: what the library's valence rules give for this structure, whatever _patcher stored.  {} if the rebuild fails"""
    from chython.containers import MoleculeContainer
    from chython.periodictable import Element
    try:
        m = MoleculeContainer()
        with m:
            for n, a in prod.atoms():
                m.add_atom(Element.from_atomic_number(a.atomic_number)(a.isotope, charge=a.charge, is_radical=a.is_radical), n)
            for n, k, bd in prod.bonds():
                m.add_bond(n, k, int(bd))
        return {n: a.implicit_hydrogens for n, a in m.atoms()}
    except Exception:
        return {}


def bonds_of(mol):
    return {n: list(nb) for n, nb in mol._bonds.items()}


# ---------------------------------------------------------------------------------------------------------------------
# correspondence 0: BaseReactor.__init__ (self._to_delete)

def corr_to_delete(ck):
    from chython import smarts
    from chython.reactor import Transformer, Reactor, reactions
    from chython.reactor import deprotection as dp
    batch = Batch()

    def one(t, delete_atoms, tag, describe):
        pats = [t._pattern] if hasattr(t, '_pattern') else list(t._patterns)
        pattern = lst([tup(zraw(k), b(bool(a.masked))) for q in pats for k, a in q.atoms()])
        obs = sorted(t._to_delete)
        batch.add(f'to_delete_eqb {pattern} {zl(list(t._replacement))} {b(delete_atoms)} {zl(obs)}', {'kind': tag, 'template': describe, 'observed': obs})
        ck.count(f'to_delete:{tag}:' + ('some' if obs else 'none'))
        ck.case(('to_delete', tag, describe, delete_atoms), nontrivial=bool(obs))
    for k in (1, 2, 3, 4):
        for r in range(k + 1):
            for dele in itertools.combinations(range(1, k + 1), r):
                rest = [i for i in range(1, k + 1) if i not in dele]
                for q in range(len(rest) + 1):
                    for masked in itertools.combinations(rest, q):
                        one(any_transformer(k, dele, masked), True, 'any-atoms', f'{k}:{dele}:{masked}')
    for pat, rep, what in SYNTHETIC:
        for da in (True, False):
            one(make_template(pat, rep, delete_atoms=da), da, 'synthetic', f'{pat}>>{rep}')
    # a masked atom that the replacement names, a masked atom it does not name, unlabelled atoms
    for pat, rep in (('[C;M:1][O:2][C:3]', '[A:1][A:2]'), ('[C;M][O:2][C:3]', '[A:2]'), ('[C:1][O][C;M]', '[A:1]'), ('[C;M:1][O;M:2]', '[A:2]'), ('C[O:2]C', '[A:2]')):
        for da in (True, False):
            one(make_template(pat, rep, delete_atoms=da), da, 'masked', f'{pat}>>{rep}')
    for gname in dp._groups:
        for r, p, *tests in getattr(dp, '_' + gname):
            one(Transformer(smarts(r), smarts(p)), True, 'deprotection', gname)
    for name in reactions.__all__:
        rx = getattr(reactions, name, None)
        for sub in getattr(rx, 'rxn_os', []) + getattr(rx, 'rxn_ms', []):
            one(sub, True, 'built-in reaction', name)
    for pats, prods in ((('[C:1](=[O:2])[O;D1:3]', '[N;D1:4][C:5]'), ('[A:1](=[A:2])[A:4][A:5]',)), (('[C:1][Br:2]', '[O;D1:3][C:4]'), ('[A:1][A:3][A:4]', '[Br-:2]')),
                        (('[C;M:1]=[O:2]', '[N;D1:3]'), ('[A:3]',))):
        for da in (True, False):
            one(Reactor(tuple(smarts(x) for x in pats), tuple(smarts(x) for x in prods), delete_atoms=da), da, 'multi-reactant', f'{pats}>>{prods}')
    ok, failing, log = batch.run('c16td')
    ck.oblige('correspondence: BaseReactor.__init__ self._to_delete == Coq to_delete_of (every template the check uses, every built-in template)',
              ok and not failing, 'correspondence', log or str([batch.meta[i] for i in failing[:5]]))
    ck.extra['to_delete_cases'] = len(batch.cases)
    if not ok or failing:
        ck.unchecked('correspondence Reactor.to_delete_of vs chython/reactor/base.py:BaseReactor.__init__', log[-1500:], [repr(batch.meta[i]) for i in failing[:20]])
    return ok and not failing


# ---------------------------------------------------------------------------------------------------------------------
# correspondence 1: BaseReactor._get_deleted

def traced_get_deleted(t, mol, mapping):
    """the real call, with the local sets `delete` and `keep` read from its frame when it returns (no patching of /repo).
    returns (result or None, exception or None, (delete, keep) or None)"""
    from chython.reactor.base import BaseReactor
    code = BaseReactor._get_deleted.__code__
    box = {}

    def local(frame, event, arg):
        if event == 'return' and arg is not None:
            loc = frame.f_locals
            if 'delete' in loc and 'keep' in loc:
                box['sets'] = (set(loc['delete']), set(loc['keep']))
        return local

    def tracer(frame, event, arg):
        return local if frame.f_code is code else None
    old = sys.gettrace()
    sys.settrace(tracer)
    try:
        return t._get_deleted(mol, mapping), None, box.get('sets')
    except Exception as e:
        return None, e, None
    finally:
        sys.settrace(old)


def gd_case(ck, batch, t, mol, mapping, tag, describe):
    """run the real method, record the Coq case (result + the intermediate sets), and compare with the oracle"""
    bonds = bonds_of(mol)
    try:
        to_del, order = observed_order(t, mapping)
    except KeyError:
        to_del, order = sorted(t._to_delete), None
    got, err, sets = traced_get_deleted(t, mol, dict(mapping))
    res = 'Ok ' + zl(sorted(got)) if err is None else exn(err)
    if got is not None and t._to_delete and sets is None:
        ck.count('get_deleted:locals-not-observable')
        batch.unobservable += 1
    sets_term = 'None' if sets is None else f'(Some ({zl(sorted(sets[0]))}, {zl(sorted(sets[1]))}))'
    g = batch.define('g', coqmol.graph_term(bonds))
    batch.add(f'gd_case_eqb {g} {pairs(mapping)} {zl(to_del)} ({res}) {sets_term}',
              {'kind': tag, 'input': describe, 'mapping': dict(mapping), 'to_delete_pattern_atoms': to_del, 'observed': res,
               'observed_delete_keep': None if sets is None else (sorted(sets[0]), sorted(sets[1]))},
              ctx=(t, mol, dict(mapping), describe))
    ck.count(f'get_deleted:{tag}:' + ('ok' if got is not None else res))
    if sets is not None:
        ck.count('get_deleted:walks:' + ('none' if not sets[0] and not sets[1] else 'delete+keep' if sets[0] and sets[1] else
                                         'delete' if sets[0] else 'keep'))
    nontrivial = got is not None and order is not None and len(got) > len(order)
    ck.case(('gd', tag, describe, tuple(sorted(mapping.items())), tuple(to_del)), nontrivial=nontrivial)
    if got is not None and order is not None and all(x in bonds for x in mapping.values()):
        D = set(order)
        K = set(mapping.values()) - D
        compare_with_oracle(ck, bonds, order, D, K, got, oracle_deleted(bonds, D, K), describe, dict(mapping), t, 'union-find components')
    return got


def compare_with_oracle(ck, bonds, order, D, K, got, exp, describe, mapping, t, oracle_name):
    if got == exp:
        return True
    ck.count('get_deleted:differs-from-oracle')
    what = ('_get_deleted ' + ('deletes atoms still attached to the kept part' if got - exp else 'keeps a detached fragment') +
            f': {describe}')
    replay_py = None
    if isinstance(describe, str) and describe.startswith('smiles:'):
        smi = describe[len('smiles:'):]
        pat = str(t._pattern) if hasattr(t, '_pattern') else None
        replay_py = (f"from chython import smiles, smarts\nfrom chython.reactor import Transformer\n"
                     f"t = Transformer(smarts({pat!r}), smarts({str(t._replacement)!r}))\n"
                     f"print(sorted(t._get_deleted(smiles({smi!r}), {mapping!r})), 'expected', {sorted(exp)!r})")
    key = f'get-deleted:{describe}:{sorted(mapping.items())}:{sorted(D)}'
    ck.counterexample(key, what, {'structure': describe, 'bonds': bonds, 'mapping': mapping, 'to_delete': sorted(D), 'kept': sorted(K)},
                      sorted(got), sorted(exp), oracle_name, replay_py=replay_py)
    return False


def all_graphs(n):
    nodes = list(range(1, n + 1))
    prs = list(itertools.combinations(nodes, 2))
    for mask in range(1 << len(prs)):
        yield [p for i, p in enumerate(prs) if mask >> i & 1]


def matched_choices(nodes):
    """every (matched tuple, deleted positions) with the matched atoms in increasing order"""
    for r in range(1, len(nodes) + 1):
        for matched in itertools.combinations(nodes, r):
            for k in range(0, r + 1):
                for dele in itertools.combinations(range(1, r + 1), k):
                    yield matched, dele


BRIDGED = ['C1N2CC1C2', 'C1CC2CC1C2', 'C1CC2CCC1C2', 'C12CC1C2', 'C1C2CC1C2', 'C1CC2(C1)CC2', 'C1CC2CC2C1', 'C1C2C3C1C23',
           'C12C3C4C1C5C2C3C45', 'C1CC2CCC1CC2', 'C1N(F)N(C1)Cl', 'C1N(F)N(Cl)C1', 'c1ccc2ccccc2c1', 'C1CC1C1CC1', 'C1CCC1.C1CC1',
           'CC(C)(C)OC(=O)NC1CC2CCC1C2', 'O=C1NC2CC1C2', 'C1OC2COC1C2', '[Na+].[O-]C(=O)C1CC2CC1C2', 'C1=CC2C=CC1C2']


def corr_get_deleted(ck):
    from chython import smiles, smarts
    from chython.reactor import Transformer
    rng = random.Random(f'{ck.seed}:c16gd')
    batch = Batch()
    quick = ck.tier == 'quick'
    # (a) every graph on <= 4 atoms x every matched subset x every to-delete subset; neighbour order shuffled
    for n in (1, 2, 3, 4):
        for edges in all_graphs(n):
            edges = edges[:]
            rng.shuffle(edges)
            edges = [e if rng.random() < .5 else e[::-1] for e in edges]
            mol = carbon_graph(n, edges)
            for matched, dele in matched_choices(list(range(1, n + 1))):
                if quick and n == 4 and rng.random() < .5:
                    continue
                perm = list(matched)
                rng.shuffle(perm)
                t = any_transformer(len(perm), dele)
                gd_case(ck, batch, t, mol, dict(zip(range(1, len(perm) + 1), perm)), f'exhaustive{n}', f'graph{n}:{edges}')
    # (a') thorough: every graph on 5 atoms x 12 random (matched tuple, to-delete subset) choices
    if not quick:
        ch5 = [c for c in matched_choices([1, 2, 3, 4, 5]) if c[1]]
        for edges in all_graphs(5):
            edges = edges[:]
            rng.shuffle(edges)
            mol = carbon_graph(5, edges)
            for matched, dele in rng.sample(ch5, 12):
                perm = list(matched)
                rng.shuffle(perm)
                gd_case(ck, batch, any_transformer(len(perm), dele), mol, dict(zip(range(1, len(perm) + 1), perm)), 'exhaustive5-sampled-choices', f'graph5:{edges}')
    # (b) random cyclic / bridged graphs on 5..9 atoms, masked atoms included
    for i in range(500 if quick else 5000):
        n = rng.randint(5, 9)
        nodes = list(range(1, n + 1))
        prs = list(itertools.combinations(nodes, 2))
        edges = rng.sample(prs, min(len(prs), rng.randint(n - 1, n + 3)))
        mol = carbon_graph(n, edges)
        r = rng.randint(1, min(5, n))
        matched = rng.sample(nodes, r)
        k = rng.randint(1, r)
        dele = tuple(sorted(rng.sample(range(1, r + 1), k)))
        rest = [i for i in range(1, r + 1) if i not in dele]
        masked = tuple(sorted(rng.sample(rest, rng.randint(0, len(rest))))) if rng.random() < .3 else ()
        t = any_transformer(r, dele, masked)
        gd_case(ck, batch, t, mol, dict(zip(range(1, r + 1), matched)), 'random', f'graph{n}:{edges}')
    # (c) bridged / fused / multi-component molecules and corpus molecules, random matched atom sets
    pool = BRIDGED + corpus.sample(corpus.lipo(), 60 if quick else 600, ck.seed, 'c16gd')
    for smi in pool:
        try:
            mol = smiles(smi)
        except Exception:
            continue
        if mol is None:
            continue
        nodes = list(mol._atoms)
        for _ in range(12 if smi in BRIDGED else 5):
            # a connected matched set grown from a random atom
            start = rng.choice(nodes)
            matched = [start]
            while len(matched) < rng.randint(1, 5):
                cand = [m for x in matched for m in mol._bonds[x] if m not in matched]
                if not cand:
                    break
                matched.append(rng.choice(cand))
            r = len(matched)
            k = rng.randint(1, r)
            dele = tuple(sorted(rng.sample(range(1, r + 1), k)))
            t = any_transformer(r, dele)
            mapping = dict(zip(range(1, r + 1), matched))
            got = gd_case(ck, batch, t, mol, mapping, 'molecule', f'smiles:{smi}')
            if got is not None:
                bonds = bonds_of(mol)
                D = {mapping[x] for x in t._to_delete}
                K = set(mapping.values()) - D
                _, order = observed_order(t, mapping)
                compare_with_oracle(ck, bonds, order, D, K, got, oracle_deleted_rdkit(bonds, D, K), f'smiles:{smi}', mapping, t, 'RDKit GetMolFrags')
    # (d) the recorded witnesses through a real template match
    for smi, pat, rep in (('C1N2CC1C2', '[C:1][N:2]', '[C:1]'), ('C1N(F)N(C1)Cl', '[C:1][N:2][N:4]', '[C:1]'),
                          ('CC(C)OCc1ccccc1', '[C;D2,D3,D4;z1;x1:1][O:2][C;D2]C:1:[C;D2]:[C;D2]:[C;D2]:[C;D2]:[C;D2]:1', '[A:1][A:2]')):
        mol = smiles(smi)
        t = Transformer(smarts(pat), smarts(rep))
        for mp in t._pattern.get_mapping(mol, automorphism_filter=False):
            gd_case(ck, batch, t, mol, dict(mp), 'template-match', f'smiles:{smi}')
    # (e) malformed: a pattern atom without image, an image that is not an atom of the structure, nothing to delete
    mol = smiles('C1N2CC1C2')
    gd_case(ck, batch, any_transformer(2, (2,)), mol, {1: 5}, 'malformed', 'smiles:C1N2CC1C2')
    gd_case(ck, batch, any_transformer(2, (2,)), mol, {1: 5, 2: 77}, 'malformed', 'smiles:C1N2CC1C2')
    gd_case(ck, batch, any_transformer(3, (2, 3)), mol, {1: 5, 2: 2, 3: 77}, 'malformed', 'smiles:C1N2CC1C2')
    gd_case(ck, batch, any_transformer(2, ()), mol, {1: 5, 2: 2}, 'malformed', 'smiles:C1N2CC1C2')
    gd_case(ck, batch, any_transformer(2, (1, 2)), mol, {1: 5, 2: 2}, 'malformed', 'smiles:C1N2CC1C2')
    ok, failing, log = batch.run('c16gd')
    ck.oblige(f'correspondence: BaseReactor._get_deleted == Coq {MODEL_FUNCTION} (sorted result / exception) and its local sets '
              '`delete`, `keep` == Coq get_deleted_sets', ok and not failing,
              'correspondence', log or str([batch.meta[i] for i in failing[:5]]))
    ck.oblige('the local sets `delete` and `keep` of BaseReactor._get_deleted are observable in every call that reaches the loops',
              batch.unobservable == 0, 'correspondence', f'{batch.unobservable} calls without observable locals')
    ck.extra['get_deleted_cases'] = len(batch.cases)
    ck.extra['get_deleted_model'] = MODEL_FUNCTION
    ck.sample({'model_call': batch.cases[len(batch.cases) // 2][:300], 'meta': repr(batch.meta[len(batch.cases) // 2])[:300]})
    if not ok or failing or batch.unobservable:
        directed_get_deleted(ck, batch, failing)
        ck.unchecked(f'correspondence Reactor.{MODEL_FUNCTION} vs chython/reactor/base.py:_get_deleted',
                     log[-1500:] or (f'{batch.unobservable} calls: locals delete/keep not found in the frame' if batch.unobservable and not failing else ''),
                     [repr(batch.meta[i]) for i in failing[:20]])
    return ok and not failing and not batch.unobservable


def directed_get_deleted(ck, batch, failing):
    """the correspondence disagreed: look for a concrete failing input of the REAL code on and around the disagreeing cases
    (same graph: the disagreeing match, then other matched sets and to-delete subsets) with the component oracle"""
    rng = random.Random(f'{ck.seed}:c16gd-directed')
    n = 0
    for i in failing[:40]:
        if batch.ctx[i] is None:
            continue
        t, mol, mapping, describe = batch.ctx[i]
        bonds = bonds_of(mol)
        nodes = list(bonds)
        for j in range(80 if ck.tier == 'quick' else 800):
            if j == 0:
                tt, mp = t, mapping
            else:
                r = rng.randint(1, min(5, len(nodes)))
                matched = rng.sample(nodes, r)
                dele = tuple(sorted(rng.sample(range(1, r + 1), rng.randint(1, r))))
                tt, mp = any_transformer(r, dele), dict(zip(range(1, r + 1), matched))
            if not tt._to_delete or not all(x in mp for x in tt._to_delete) or not all(x in bonds for x in mp.values()):
                continue
            try:
                got = tt._get_deleted(mol, dict(mp))
            except Exception as e:
                ck.counterexample(f'get-deleted-raises:{describe}:{sorted(mp.items())}', f'_get_deleted raises {type(e).__name__} on a well-formed match: {describe}',
                                  {'structure': describe, 'bonds': bonds, 'mapping': mp}, repr(e), 'a set of atoms', 'well-formed input')
                continue
            _, order = observed_order(tt, mp)
            D = set(order)
            K = set(mp.values()) - D
            n += 1
            compare_with_oracle(ck, bonds, order, D, K, got, oracle_deleted(bonds, D, K), describe, dict(mp), tt, 'union-find components (directed search)')
    ck.count('directed-search:get_deleted', n)


# ---------------------------------------------------------------------------------------------------------------------
# correspondence 2: structural part of BaseReactor._patcher

def tpl_term(repl):
    from chython.periodictable import AnyElement, Element
    atoms = []
    for n, ra in repl.atoms():
        if isinstance(ra, AnyElement):
            atoms.append(tup(zraw(n), f'RAny {zraw(ra.charge)} {b(ra.is_radical)}'))
        else:
            if isinstance(ra, Element):
                h = ra.implicit_hydrogens
            else:
                h = ra.implicit_hydrogens[0] if ra.implicit_hydrogens else None
            atoms.append(tup(zraw(n), f'RElem {zraw(ra.atomic_number)} {opt(ra.isotope, zraw)} {zraw(ra.charge)} {b(ra.is_radical)} {opt(h, zraw)}'))
    bonds = lst([tup(zraw(n), lst([tup(zraw(m), f'(mkBond {zraw(int(rb))} None)') for m, rb in bs.items()]))
                 for n, bs in repl._bonds.items()])
    return f'(mkTpl {lst(atoms)} {bonds})'


# (pattern, replacement, what it exercises); replacement starting with 'mol:' is a MoleculeContainer (Element atoms)
SYNTHETIC = [
    ('[C:1][O:2]', '[A:1][A:2]', 'any-atom reuse (identity on neutral atoms)'),
    ('[C:1][O;D1:2]', '[A:1]-[N:2]', 'element change of a matched atom'),
    ('[C:1][O;D1:2]', '[A:1]=[A:2]', 'bond order change'),
    ('[C:1]=[O:2]', '[A:1]-[A-:2]', 'charge requested on any-atom'),
    ('[C:1][N;D1:2]', '[A:1][A:2][C:3](=[O:4])[C:5]', 'new atoms (acylation)'),
    ('[C:1][N;D1:2]', '[A:1][N+:2]([O-:3])=[O:4]', 'new charged atoms'),
    ('[C:1][O:2][C:3]', '[A:1][A:2]', 'deleted atom with fragment'),
    ('[C:1][N:2]', '[C:1]', 'deleted atom (the witness template)'),
    ('[C:1][N:2][N:4]', '[C:1]', 'two adjacent deleted atoms'),
    ('[C;M:1][O:2][C:3]', '[A:2]', 'masked atom stays although absent from the replacement'),
    ('[C:1][O;M:2][C:3]', '[A:1]', 'masked atom between kept and deleted'),
    ('[C;a:1][Cl,Br,I:2]', '[A:1][C:3]#[N:4]', 'replace halogen: delete + new atoms'),
    ('[C:1](=[O:2])[O;D1:3]', '[A:1](=[A:2])[A:3][C:4]', 'esterification-like, three matched atoms'),
    ('[C:1][C:2]', '[A:1].[A:2]', 'bond deletion between kept atoms'),
    ('[C:1][N:2]', '[A:1][A;h0;+:2]', 'hydrogen count clause in the replacement'),
    ('[C:1][O;D1:2]', 'mol:[CH3:1][OH:2]', 'Element replacement on existing atoms'),
    ('[C:1][O;D1:2]', 'mol:[CH2:1]([OH:2])[13CH3:3]', 'Element replacement with a new isotope atom carrying H'),
    ('[C:1][O:2]', '[A:1][A:2][A:9]', 'any-atom without image -> ValueError'),
    ('[O:1]', '[S:1]', 'single atom element change'),
    ('[C:1]#[N:2]', '[A:1]=[A:2][O:3]', 'triple to double + new atom'),
    ('[O-:1][C:2]', '[O:1][A:2]', 'charged matched atom re-typed neutral'),
    ('[N+:1]', '[N:1]', 'cation re-typed neutral (single atom)'),
    ('[C:1][O:2] |^1:0|', '[C:1][A:2]', 'radical matched atom re-typed non-radical'),
    ('[C:1][O;D1:2]', '[C:1][A:2] |^1:0|', 'radical requested on a re-typed atom'),
    ('[13C:1]', '[C:1]', 'isotope dropped by re-typing'),
    ('[C;D1:1]', '[14C:1]', 'isotope requested on a re-typed atom'),
    ('[O-:1][C:2]', '[A:1][A:2]', 'any-atom: requested charge 0 replaces the charge of the match'),
    ('[C:1][Br,Cl:2]', 'mol:[CH3:1][OH:2]', 'Element replacement on matched atoms that carry unnamed neighbours (H must be recalculated)'),
    ('[C:1][O:2]', '[C:1][O;h1:2]', 'query atom with an h clause on a matched atom (the clause is for new atoms only)'),
    ('[C:1][N:2]', 'mol:[CH3:1][NH2:2].[OH2:5]', 'Element replacement: matched atoms recalculated, new atom keeps its H'),
    ('[C:1]=[O:2]', '[C:1](-[O;h1:2])-[O;h1:3]', 'h clauses: matched atom recalculated, new atom takes the clause'),
]
ENOLS = ['C/C=C(/C)O', 'OC(\\C)=C/C', 'C/C=C/OC', 'CO/C=C/C', 'C/C=C(\\C)OC', 'Cl/C=C/C', 'C/C=C/Cl', 'CC/C=C(/C)O', 'C/C(O)=C/CC', 'N/C(C)=C/C', 'C/C=C(/C)N',
         'C/C=C(/O)CC', 'O/C=C/C', 'C/C=C/O', 'F/C(C)=C/C', 'C/C=C(/C)F', 'CC(/O)=C/C=C/C', 'C/C=C/C(/C)=C/O']
CISTRANS = ['C/C=C/CO', 'F/C=C\\Cl', 'C/C=C\\CCO', 'OC/C=C/C=C/C', 'CC=[C@]=CCO', 'C/C=C/C(=O)OCC', 'N/C(C)=C/CCl', 'OCC=[C@@]=CC', 'C/C=C/CN', 'Cl/C=C/CCBr',
            'C/C(Cl)=C/CC#N', 'O/C=C/C[N+](C)(C)C']
STEREO = ['C[C@H](N)C(=O)O', 'C[C@@H](O)CC(=O)OCC', 'C[C@@H]1CC[C@H](O)CC1', 'OC[C@H]1O[C@@H](O)[C@H](O)[C@@H](O)[C@@H]1O', 'N[C@@H](CO)C(=O)O',
          'C[C@H](Cl)CCOC', 'CC(C)C[C@H](NC(C)=O)C(=O)O', 'Br[C@H](C)CC#N', 'C[C@@H](N)Cc1ccc(Cl)cc1', 'CCO[C@H](C)C(N)=O']
HALIDES = ['CCBr', 'CC(C)Br', 'CC(C)(C)Br', 'BrC1CCCCC1', 'ClCCCl', 'CC(Cl)CBr', 'CCOCC', 'CN(C)C', 'CC(=O)C', 'CCNCC']
DECORATED = ['C[N+](C)(C)CC(=O)[O-]', 'C[CH]O |^1:1|', '[13CH3]CO', 'CC(=O)[O-].[Na+]', '[O-][N+](=O)c1ccccc1', '[13CH3][13CH2]O', 'C[CH]C[O-] |^1:1|',
             'C[NH3+].[Cl-]', '[2H]C([2H])([2H])O']


def make_template(pat, rep, **kw):
    from chython import smarts, smiles
    from chython.reactor import Transformer
    p = smarts(pat)
    r = smiles(rep[4:]) if rep.startswith('mol:') else smarts(rep)
    return Transformer(p, r, **kw)


_PATCHER_LINES = {}
LAST_REGION = [None, None, None]   # state of the last traced _patcher call at the start / the end of the translated region
REGION_BUDGET = {'stereo': 0, 'plain': 0, 'atoms': 0}
REGION_OK = [False]          # tools/gen_reactorbody.py translated the source of this run (set by run())


def patcher_lines():
    """line numbers (in chython/reactor/base.py) of the three statements of _patcher at which the intermediate state is read"""
    if not _PATCHER_LINES:
        import inspect
        from chython.reactor.base import BaseReactor
        src, first = inspect.getsourcelines(BaseReactor._patcher)
        want = {'bonds': 'for n, bs in self._replacement._bonds.items():', 'patched': 'patched_atoms = set(new)', 'keep': 'for n, bs in sbonds.items():',
                'after': 'for n, a in new.atoms():'}
        for i, line in enumerate(src):
            for k, text in want.items():
                if line.strip().startswith(text) and k not in _PATCHER_LINES:
                    _PATCHER_LINES[k] = first + i
        _PATCHER_LINES['ok'] = len(_PATCHER_LINES) == 4
    return _PATCHER_LINES


def traced_patcher(t, structure, mapping):
    """the real _patcher, observed from outside (sys.settrace; /repo is not patched):
    - the intermediate states new._atoms / new._bonds / mapping when execution first reaches the loop over the replacement bonds,
      `patched_atoms = set(new)` and the loop over the bonds of the structure;
    - the stereo labels of the product at the moment _patcher calls new.fix_stereo(), i.e. BEFORE fix_stereo can drop any.
    returns (product, labels or None, states or None)"""
    from chython.reactor.base import BaseReactor
    from chython.containers import MoleculeContainer
    pcode = BaseReactor._patcher.__code__
    fcode = MoleculeContainer.fix_stereo.__code__
    lines = patcher_lines()
    at = {lines.get('bonds'): 'bonds', lines.get('patched'): 'patched', lines.get('keep'): 'keep'}
    box = {}

    def snap(frame):
        new = frame.f_locals.get('new')
        return (list(new._atoms), [(n, [(k, int(bd)) for k, bd in nb.items()]) for n, nb in new._bonds.items()], dict(frame.f_locals.get('mapping')))

    def region(frame):
        # the complete state the translated region of _patcher (Gen.ReactorBody.g_patcher_keep) reads / writes, stereo labels included
        loc = frame.f_locals
        new = loc['new']
        atoms = lst([tup(zraw(n), coqmol.atom_term(a)) for n, a in new._atoms.items()])
        adj = lst([tup(zraw(n), lst([tup(zraw(k), coqmol.bond_term(bd)) for k, bd in nb.items()])) for n, nb in new._bonds.items()])
        return (atoms, adj, list(loc['stereo_atoms']), list(loc['stereo_bonds']), sorted(loc['to_delete']), len(new._atoms))

    def local(frame, event, arg):
        if event == 'line':
            k = at.get(frame.f_lineno)
            if k is not None and k not in box:
                box[k] = snap(frame)
            if k == 'bonds' and 'atoms_out' not in box:
                box['atoms_out'] = region(frame)[:3] + (pairs(frame.f_locals['mapping']), frame.f_locals['max_atom'])
            if k == 'patched' and 'region_in' not in box:
                box['region_in'] = region(frame)
            elif frame.f_lineno == lines.get('after') and 'region_out' not in box:
                box['region_out'] = region(frame)
        return local

    def tracer(frame, event, arg):
        if frame.f_code is pcode:
            return local
        if frame.f_code is fcode and 'pre' not in box and frame.f_back is not None and frame.f_back.f_code is pcode:
            me = frame.f_locals.get('self')
            box['pre'] = ({n: a.stereo for n, a in me._atoms.items()}, {(n, k): bd.stereo for n, nb in me._bonds.items() for k, bd in nb.items()})
        return None
    old = sys.gettrace()
    sys.settrace(tracer)
    try:
        new = t._patcher(structure, mapping)
    finally:
        sys.settrace(old)
    states = (box['bonds'], box['patched'], box['keep']) if all(k in box for k in ('bonds', 'patched', 'keep')) else None
    LAST_REGION[:] = [box.get('region_in'), box.get('region_out'), box.get('atoms_out')]
    return new, box.get('pre'), states


def patch_case(ck, batch, t, structure, mapping, tag, describe):
    """call the real _patcher (ring/tautomer fixing off: it is not part of the structural model) and record the Coq case"""
    mapping = dict(mapping)
    mapping0 = dict(mapping)
    try:
        to_del, _ = observed_order(t, mapping) if t._to_delete else ([], None)
    except KeyError:
        to_del = sorted(t._to_delete)
    before = pairs(mapping)
    m_term = batch.define('m', coqmol.mol_term(structure))
    t_term = batch.define('t', tpl_term(t._replacement))
    rebuilt = '[]'
    try:
        new, pre, states = traced_patcher(structure=structure, t=t, mapping=mapping)
        res = f'Ok ({coqmol.mol_term(new)}, {pairs(mapping)})'
        ok = True
        rebuilt = lst([tup(zraw(n), opt(h, zraw)) for n, h in rebuilt_hydrogens(new).items()])
    except Exception as e:
        res = exn(e)
        ok = False
        new = None
    batch.add(f'patch_res_h_eqb {rebuilt} (patcher_with {MODEL_FUNCTION} {m_term} {before} {zl(to_del)} {t_term}) ({res})',
              {'kind': tag, 'input': describe, 'observed': res[:200]}, ctx=(t, structure, dict(mapping0), describe))
    if new is not None and states is None:
        ck.count('patcher:intermediate-states-not-observable')
        batch.unobservable += 1
    if new is not None and states is not None:
        def adj_t(rows):
            return lst([tup(zraw(n), lst([tup(zraw(k), f'(mkBond {zraw(o)} None)') for k, o in nb])) for n, nb in rows])
        (a1, _, m1), (_, b2, _), (a3, b3, _) = states
        batch.add(f'states_eqb (patcher_states_with {m_term} {before} {zl(to_del)} {t_term}) {zl(a1)} {pairs(m1)} {adj_t(b2)} {zl(a3)} {adj_t(b3)}',
                  {'kind': 'intermediate states of _patcher', 'input': describe, 'after_replacement_atoms': a1, 'after_unmatched_atoms': a3},
                  ctx=(t, structure, dict(mapping0), describe))
        ck.count('patcher:intermediate-states compared')
    if new is not None:
        # the TRANSLATED region of _patcher (Gen.ReactorBody.g_patcher_keep, regenerated from the source) run on the state the real
        # call had at `patched_atoms = set(new)` must give exactly the state the real call has after the two loops: atoms with
        # hydrogens and stereo labels, adjacency with bond labels, the work lists stereo_atoms / stereo_bonds, in dict / list order
        rin, rout, aout = LAST_REGION
        if REGION_OK[0] and aout is not None and REGION_BUDGET['atoms'] < (400 if ck.tier == 'quick' else 1500):
            # the translated loop over the replacement atoms (g_patcher_atoms) from the empty product must give exactly the state the real
            # call has when it reaches the loop over the replacement bonds: atoms incl. hydrogen counts and labels taken from the patch,
            # empty neighbour dicts, the extended mapping, max_atom, stereo_atoms
            REGION_BUDGET['atoms'] += 1
            batch.add(f'atoms_region_eqb {m_term} {gratoms_term(t._replacement)} {before} {zraw(max(structure._atoms))} '
                      f'{aout[0]} {aout[1]} {aout[3]} {zraw(aout[4])} {zl(aout[2])}',
                      {'kind': 'translated loop of _patcher over the replacement atoms', 'input': describe, 'stereo_atoms': aout[2]},
                      ctx=(t, structure, dict(mapping0), describe))
            ck.count('patcher:translated-atoms-loop compared' + (':stereo_atoms used' if aout[2] else ''))
            if rin is not None and rin[5] <= 40:
                # the translated loop over the replacement bonds (g_patcher_rbonds) from that state must give exactly the adjacency
                # (with the labels of the patch) and the work list stereo_bonds the real call has at `patched_atoms = set(new)`
                pl2 = lambda xs: lst([tup(zraw(x), zraw(y)) for x, y in xs])  # noqa: E731
                batch.add(f'rbonds_region_eqb {m_term} {rbonds_term(t._replacement)} {aout[3]} {aout[1]} {rin[1]} {pl2(rin[3])}',
                          {'kind': 'translated loop of _patcher over the replacement bonds', 'input': describe, 'stereo_bonds': rin[3]},
                          ctx=(t, structure, dict(mapping0), describe))
                ck.count('patcher:translated-bonds-loop compared' + (':stereo_bonds used' if rin[3] else ''))
        if not REGION_OK[0]:
            ck.count('patcher:translated-region not compared (translator refused the source)')
        elif rin is None or rout is None:
            ck.count('patcher:translated-region-not-observable')
            batch.unobservable += 1
        else:
            kind = 'stereo' if (rout[2] or rout[3] or 'Some true)' in rout[0] or 'Some false)' in rout[0]) else 'plain'
            if rout[5] <= 40 and REGION_BUDGET[kind] < ({"stereo": 150, "plain": 60}[kind] if ck.tier == 'quick' else {"stereo": 600, "plain": 300}[kind]):
                REGION_BUDGET[kind] += 1
                try:
                    tetra = list(structure.stereogenic_tetrahedrons)
                except Exception:
                    tetra = None
                if tetra is not None:
                    pl = lambda xs: lst([tup(zraw(x), zraw(y)) for x, y in xs])  # noqa: E731
                    batch.add(f'keep_region_eqb {m_term} {zl(rin[4])} {zl(tetra)} {rin[0]} {rin[1]} {zl(rin[2])} {pl(rin[3])} '
                              f'{rout[0]} {rout[1]} {zl(rout[2])} {pl(rout[3])}',
                              {'kind': 'translated region of _patcher (atoms the template does not name, surviving bonds, stereo work lists)',
                               'input': describe, 'stereo_atoms': rout[2], 'stereo_bonds': rout[3]}, ctx=(t, structure, dict(mapping0), describe))
                    ck.count(f'patcher:translated-region compared:{kind}' + (':work lists used' if rout[2] or rout[3] else ''))
    if new is not None and pre is None and not t._fix_rings:
        ck.count('patcher:labels-before-fix_stereo-not-observable')
        batch.unobservable += 1
    if new is not None and pre is not None:
        pre_atoms, pre_bonds = pre
        # untouched stereogenic tetrahedrons: order of the environment and the label _patcher stored (read before fix_stereo)
        try:
            sth = structure.stereogenic_tetrahedrons
            gone = t._get_deleted(structure, dict(mapping0))
        except Exception:
            sth, gone = {}, set()
        named = {mapping0.get(k) for k in t._replacement} - {None}
        obs = [(n, sth[n], pre_atoms.get(n)) for n, a in structure.atoms()
               if n in sth and a.stereo is not None and n not in named and n not in gone and n in new._atoms]
        if obs:
            from chython.periodictable import H
            hs = [n for n, a in structure.atoms() if a == H]
            batch.add(f'stereo_case_exact {zl(list(sth))} {zl(hs)} {m_term} {lst([tup(tup(zraw(n), zl(env)), opt(lab, b)) for n, env, lab in obs])}',
                      {'kind': 'untouched stereo labels (before fix_stereo)', 'input': describe, 'observed': [(n, lab) for n, _, lab in obs]}, ctx=(t, structure, dict(mapping0), describe))
            ck.count('patcher:untouched-stereocentres:' + ('label stored' if all(lab is not None for _, _, lab in obs) else 'no label stored'))
        # labelled cis/trans bonds and allenes of the input whose chain survives with the same bond orders and is a registered
        # cumulene of the product (from either end; one or both terminal atoms may be named by the replacement): registry entry of
        # the input and the label the translation loop of _patcher stored (read before fix_stereo)
        try:
            cums, ncums = structure.stereogenic_cumulenes, new.stereogenic_cumulenes
        except Exception:
            cums, ncums = {}, {}
        for path, env in cums.items():
            if any(x in gone or x not in new._atoms for x in path) or (path not in ncums and path[::-1] not in ncums):
                continue
            if any(y not in new._bonds[x] or int(new._bonds[x][y]) != int(structure._bonds[x][y]) for x, y in zip(path, path[1:])):
                continue
            i = len(path) // 2
            if len(path) % 2:
                old, real = structure._atoms[path[i]].stereo, pre_atoms.get(path[i])
            else:
                old, real = structure._bonds[path[i - 1]][path[i]].stereo, pre_bonds.get((path[i - 1], path[i]))
            if old is None:
                continue
            touched = 'untouched' if not any(x in named for x in path) else 'terminal named by the replacement' if (path[0] in named) != (path[-1] in named) else 'named'
            env_t = f'(Some ({zraw(env[0])}, {zraw(env[1])}, {opt(env[2], zraw)}, {opt(env[3], zraw)}))'
            batch.add(f'cum_case_exact {m_term} {before} {zl(to_del)} {t_term} {zraw(path[0])} {zraw(path[1])} {zraw(path[-2])} {zraw(path[-1])} {b(old)} {env_t} {opt(real, b)}',
                      {'kind': 'cumulene label (before fix_stereo)', 'input': describe, 'path': path, 'old': old, 'stored': real, 'chain': touched,
                       'product_lists_it_reversed': path not in ncums}, ctx=(t, structure, dict(mapping0), describe))
            ck.count('patcher:' + ('allene' if len(path) % 2 else 'cis/trans') + f':{touched}:' + ('read from the other end:' if path not in ncums else '') +
                     ('label stored' if real is not None else 'no label stored'))
    ck.count(f'patcher:{tag}:' + ('ok' if ok else res))
    ck.case(('patch', tag, describe, before), nontrivial=ok)
    return new


def region_only_case(ck, batch, t, structure, mapping, describe):
    """only the state-level cases of the translated loops over the replacement (atoms, bonds) for one real _patcher call"""
    mapping = dict(mapping)
    mapping0 = dict(mapping)
    before = pairs(mapping)
    m_term = batch.define('m', coqmol.mol_term(structure))
    try:
        traced_patcher(structure=structure, t=t, mapping=mapping)
    except Exception:
        ck.count('patcher:double bond rewritten:call raised')
        return
    rin, _, aout = LAST_REGION
    if not REGION_OK[0]:
        return
    if rin is None or aout is None:
        ck.count('patcher:translated-region-not-observable')
        batch.unobservable += 1
        return
    pl2 = lambda xs: lst([tup(zraw(x), zraw(y)) for x, y in xs])  # noqa: E731
    ctx = (t, structure, dict(mapping0), describe)
    batch.add(f'atoms_region_eqb {m_term} {gratoms_term(t._replacement)} {before} {zraw(max(structure._atoms))} '
              f'{aout[0]} {aout[1]} {aout[3]} {zraw(aout[4])} {zl(aout[2])}',
              {'kind': 'translated loop of _patcher over the replacement atoms', 'input': describe, 'stereo_atoms': aout[2]}, ctx=ctx)
    batch.add(f'rbonds_region_eqb {m_term} {rbonds_term(t._replacement)} {aout[3]} {aout[1]} {rin[1]} {pl2(rin[3])}',
              {'kind': 'translated loop of _patcher over the replacement bonds', 'input': describe, 'stereo_bonds': rin[3]}, ctx=ctx)
    ck.count('patcher:translated-bonds-loop compared:double bond rewritten' + (':stereo_bonds used' if rin[3] else ''))
    ck.case(('patch-region', describe, before), nontrivial=bool(rin[3]))


def corr_patcher(ck):
    from chython import smiles, smarts
    from chython.reactor import Reactor
    from chython.reactor.reactor import fix_mapping_overlap
    from chython._functions import lazy_product
    rng = random.Random(f'{ck.seed}:c16p')
    batch = Batch()
    REGION_BUDGET.update(stereo=0, plain=0, atoms=0)
    quick = ck.tier == 'quick'
    small = ['CCO', 'CC(=O)O', 'CCN', 'NCCO', 'CCOCC', 'c1ccccc1Cl', 'CC(=O)OCC', 'C1N2CC1C2', 'C1N(F)N(C1)Cl', 'OC1CC2CC1C2', 'CC#N',
             'C[N+](C)(C)CC(=O)[O-]', 'CC(N)C(=O)O', 'Brc1ccc(O)cc1', 'C[C@H](N)C(=O)O', 'C/C=C/CO', 'OCC1CO1', 'CC(C)OCc1ccccc1',
             '[13CH3]CO', 'CCO.CCN', 'C[CH]O |^1:1|', 'NN', 'CN(C)N', 'O', 'CO']
    pool = ENOLS + CISTRANS + HALIDES + small + DECORATED + STEREO + corpus.sample(corpus.lipo(), 40 if quick else 400, ck.seed, 'c16p')
    mols = []
    for smi in pool:
        try:
            m = smiles(smi)
        except Exception:
            continue
        if m is not None:
            mols.append((smi, m))
    for pat, rep, what in SYNTHETIC:
        t = make_template(pat, rep, fix_aromatic_rings=False)
        hits = 0
        for smi, m in mols:
            for k, mp in enumerate(t._pattern.get_mapping(m, automorphism_filter=False)):
                if k >= 3 or hits >= (40 if quick else 200):
                    break
                patch_case(ck, batch, t, m, mp, what, f'{smi} / {pat}>>{rep}')
                hits += 1
        ck.count(f'patcher-template-hits:{what}', hits)
    # built-in deprotection templates on their own test molecules and on the pool
    from chython.reactor import deprotection as dp
    from chython.reactor import Transformer
    n_dp = 0
    for gname in dp._groups:
        for r, p, *tests in getattr(dp, '_' + gname):
            t = Transformer(smarts(r), smarts(p), fix_aromatic_rings=False)
            tm = []
            for s in tests[:1]:
                try:
                    tm.append((s, smiles(s)))
                except Exception:
                    pass
            for smi, m in tm + mols[:60]:
                for k, mp in enumerate(t._pattern.get_mapping(m, automorphism_filter=False)):
                    if k >= 2:
                        break
                    patch_case(ck, batch, t, m, mp, 'deprotection', f'{smi} / {gname}')
                    n_dp += 1
    # multi-reactant templates, reactants with colliding numbers: what Reactor._single_stage does, step by step
    two = [(('[C:1](=[O:2])[O;D1:3]', '[N;D1:4][C:5]'), ('[A:1](=[A:2])[A:4][A:5]',), [('CC(=O)O', 'NCC'), ('OC(=O)c1ccccc1', 'CN'), ('CC(=O)O.CC(=O)O', 'NC')]),
           (('[C:1][Br:2]', '[O;D1:3][C:4]'), ('[A:1][A:3][A:4]', '[Br-:2]'), [('CCBr', 'OC'), ('BrCc1ccccc1', 'OCC')]),
           (('[C:1]=[O:2]', '[N;D1:3]'), ('[A:1]=[A:3].[O:2]',), [('CC=O', 'NC'), ('O=Cc1ccccc1', 'NCCO')])]
    for pats, prods, reactant_sets in two:
        r = Reactor(tuple(smarts(x) for x in pats), tuple(smarts(x) for x in prods), fix_aromatic_rings=False)
        for rs in reactant_sets:
            structures = fix_mapping_overlap([smiles(x) for x in rs])
            united = reduce(or_, structures)
            for k, match in enumerate(lazy_product(*(x.get_mapping(y, automorphism_filter=False) for x, y in zip(r._patterns, structures)))):
                if k >= 4:
                    break
                mapping = match[0].copy()
                for mm in match[1:]:
                    mapping.update(mm)
                patch_case(ck, batch, r, united, mapping, 'multi-reactant (colliding numbers remapped first)', f'{rs} / {pats}>>{prods}')
    # malformed: an image that is not an atom of the structure; empty mapping
    t = make_template('[C:1][O:2]', '[A:1][A:2]', fix_aromatic_rings=False)
    patch_case(ck, batch, t, smiles('CCO'), {1: 2, 2: 77}, 'malformed', 'CCO image 77')
    patch_case(ck, batch, t, smiles('CCO'), {}, 'malformed', 'CCO empty mapping')
    t = make_template('[C:1][O:2]', '[C:1][O:2][C:3]', fix_aromatic_rings=False)
    patch_case(ck, batch, t, smiles('CCO'), {}, 'malformed', 'CCO empty mapping, all atoms new')
    # replacements that rewrite a (labelled) double bond with its own order, or with another one: the translated loop over the
    # replacement bonds must queue exactly the bonds the real call queues in stereo_bonds (same order and a label in the structure)
    for pat, rep in (('[C:1]=[C:2]', '[A:1]=[A:2]'), ('[C:1]=[C:2]', '[A:1]-[A:2]'), ('[C:1]=[C:2][O,N:3]', '[A:1]=[A:2][A:3]')):
        t = make_template(pat, rep, fix_aromatic_rings=False)
        hits = 0
        for smi in CISTRANS + ENOLS:
            try:
                m = smiles(smi)
            except Exception:
                continue
            for k, mp in enumerate(t._pattern.get_mapping(m, automorphism_filter=False)):
                if k >= 2 or hits >= (16 if quick else 60):
                    break
                region_only_case(ck, batch, t, m, mp, f'{smi} / {pat}>>{rep}')
                hits += 1
    ok, failing, log = batch.run('c16p')
    ck.oblige(f'correspondence: structure of BaseReactor._patcher results == Coq patcher_with {MODEL_FUNCTION} '
              '(atom/neighbour dict order, element, isotope, charge, radical, copied hydrogens, bond orders, extended mapping)',
              ok and not failing, 'correspondence', log or str([batch.meta[i] for i in failing[:5]]))
    ck.oblige('the intermediate states of _patcher (three statements found by their text) and the stereo labels at its fix_stereo call are observable in every call', batch.unobservable == 0,
              'correspondence', f'{batch.unobservable} calls without observable labels')
    if batch.unobservable and ok and not failing:
        ck.unchecked('correspondence of the stereo labels stored by _patcher', f'{batch.unobservable} calls: fix_stereo was not called from _patcher')
    ck.extra['patcher_cases'] = len(batch.cases)
    ck.extra['patcher_deprotection_cases'] = n_dp
    if batch.cases:
        ck.sample({'model_call': batch.cases[0][:300], 'meta': repr(batch.meta[0])[:300]})
    if not ok or failing:
        directed_patcher(ck, batch, failing)
        ck.unchecked('correspondence Reactor.patcher vs chython/reactor/base.py:_patcher', log[-1500:], [repr(batch.meta[i]) for i in failing[:20]])
    return ok and not failing


def directed_patcher(ck, batch, failing):
    """the correspondence disagreed: apply the property-level read-out (check_product: atom set against the component oracle,
    frame, requested values, no extra bonds) to the real products of the disagreeing cases and of every other match of the
    same template on the same structure"""
    n = 0
    for i in failing[:40]:
        if batch.ctx[i] is None:
            continue
        t, structure, mapping0, describe = batch.ctx[i]
        maps = [dict(mapping0)]
        if hasattr(t, '_pattern'):
            try:
                maps += [dict(x) for x in itertools.islice(t._pattern.get_mapping(structure, automorphism_filter=False), 20)]
            except Exception:
                pass
        for mp in maps:
            if not all(x in structure._atoms for x in mp.values()) or any(x not in mp for x in (t._to_delete or ())):
                continue
            try:
                prod = t._patcher(structure, dict(mp))
            except Exception as e:
                from chython.periodictable import AnyElement
                documented = isinstance(e, ValueError) and any(isinstance(ra, AnyElement) and not mp.get(k) for k, ra in t._replacement.atoms())
                real_match = all(k in mp for k in getattr(t, '_pattern', ()))   # every pattern atom has an image in the structure
                if real_match and not documented:
                    # a real match of the pattern (no ring fixing in these templates): nothing may refuse it
                    ck.counterexample(f'patcher-raises:{describe}:{sorted(mp.items())}', f'_patcher raises {type(e).__name__} on a real match ({describe})',
                                      {'structure': describe, 'mapping': mp}, f'{type(e).__name__}: {e}', 'a product', 'no exception expected')
                continue
            n += 1
            try:
                check_product(ck, t, structure, mp, prod, describe, 'directed search after a patcher correspondence failure')
            except Exception as e:     # the read-out itself could not index the product: that is a malformed product
                ck.counterexample(f'product-malformed:{describe}:{sorted(mp.items())}', f'product of _patcher cannot be read out ({type(e).__name__}: {e})',
                                  {'structure': describe, 'mapping': mp}, repr(e), 'a well-formed product', 'template read-out')
    ck.count('directed-search:patcher', n)


# ---------------------------------------------------------------------------------------------------------------------
# correspondence 3: fix_mapping_overlap

def corr_overlap(ck):
    from chython import smiles
    from chython.reactor.reactor import fix_mapping_overlap
    rng = random.Random(f'{ck.seed}:c16o')
    batch = Batch()
    pool = ['CCO', 'CC(=O)O', 'NCC', 'c1ccccc1', 'C', 'O', 'CCCCCCCC', 'CC.CC', 'C1CC1']
    for i in range(150 if ck.tier == 'quick' else 1500):
        k = rng.randint(1, 4)
        ms = []
        for _ in range(k):
            m = smiles(rng.choice(pool))
            if rng.random() < .6:
                nums = list(m._atoms)
                off = rng.choice([0, 1, 2, 5, 10])
                new = rng.sample(range(1 + off, len(nums) + 4 + off), len(nums))
                m.remap(dict(zip(nums, [x + 100 for x in new])))
                m.remap({x + 100: x for x in new})
            ms.append(m)
        ins = [list(m._atoms) for m in ms]
        try:
            out = fix_mapping_overlap(ms)
            res = 'Ok ' + lst([zl(list(m._atoms)) for m in out])
            # unchanged positions must agree exactly (only colliding atoms are renumbered)
            seen = set()
            for a, o in zip(ins, out):
                for x, y in zip(a, list(o._atoms)):
                    if x not in seen and x != y:
                        ck.counterexample(f'overlap-renumbers-free-atom:{ins}', 'fix_mapping_overlap renumbers an atom that did not collide',
                                          {'structures': ins}, [list(o._atoms) for o in out], 'only colliding atoms renumbered', 'by construction')
                seen.update(o._atoms)
            flat = [x for o in out for x in o._atoms]
            if len(flat) != len(set(flat)):
                ck.counterexample(f'overlap-not-disjoint:{ins}', 'fix_mapping_overlap leaves colliding atom numbers', {'structures': ins},
                                  [list(o._atoms) for o in out], 'pairwise disjoint', 'by construction',
                                  replay_py=None)
        except Exception as e:
            res = exn(e)
            # non-empty molecules with unique numbers: nothing in fix_mapping_overlap may refuse them
            ck.counterexample(f'overlap-raises:{ins}', f'fix_mapping_overlap raises {type(e).__name__} on valid structures', {'structures': ins},
                              f'{type(e).__name__}: {e}', 'the structures with colliding numbers renumbered', 'no exception expected',
                              replay_py=("from chython.containers import MoleculeContainer\nfrom chython.reactor.reactor import fix_mapping_overlap\nms = []\n"
                                         f"for nums in {ins!r}:\n    m = MoleculeContainer()\n    [m.add_atom('C', n) for n in nums]\n    ms.append(m)\n"
                                         "print([list(x) for x in fix_mapping_overlap(ms)])"))
        batch.add(f'overlap_res_eqb (fix_mapping_overlap {lst([zl(a) for a in ins])}) ({res})', {'input': ins, 'observed': res})
        ck.case(('overlap', tuple(map(tuple, ins))), nontrivial=len({x for a in ins for x in a}) < sum(map(len, ins)))
        ck.count('overlap:' + ('collision' if len({x for a in ins for x in a}) < sum(map(len, ins)) else 'disjoint'))
    ok, failing, log = batch.run('c16o')
    ck.oblige('correspondence: fix_mapping_overlap == Coq fix_mapping_overlap (numbers per structure as sets, unchanged atoms exactly)',
              ok and not failing, 'correspondence', log or str([batch.meta[i] for i in failing[:5]]))
    ck.extra['overlap_cases'] = len(batch.cases)
    if not ok or failing:
        ck.unchecked('correspondence Reactor.fix_mapping_overlap vs chython/reactor/reactor.py', log[-1500:], [repr(batch.meta[i]) for i in failing[:20]])
    return ok and not failing


# ---------------------------------------------------------------------------------------------------------------------
# correspondence 4: the number-collision remapping in Reactor._single_stage

STAGE_TEMPLATES = [
    (('[C:1]=[O:2]', '[N;D1:3]'), ('[A:1](-[A:2])-[A:3]-[C:7](=[O:8])-[C:9]',),
     [('CC=O', 'NC', 'CCCCCCCCCCCC'), ('O=Cc1ccccc1', 'NCCO', 'CCCCCCCCCCCCCCCC', 'OO'), ('CC(C)=O', 'NCC'), ('CC=O', 'NC', 'C')]),
    (('[C:1](=[O:2])[O;D1:3]', '[N;D1:4][C:5]'), ('[A:1](=[A:2])[A:4][A:5].[A:3]',),
     [('CC(=O)O', 'NCC', 'c1ccccc1CCCCCC'), ('CC(=O)O', 'NC', 'CCCCCCCC', 'CCCCCCCCCC')]),
    (('[C:1][Br:2]', '[O;D1:3][C:4]'), ('[A:1][A:3][A:4][Na:9]', '[Br-:2].[K+:8]'), [('CCBr', 'OC', 'CCCCCCCCC'), ('BrCCBr', 'OCC', 'O')]),
    (('[C:1]#[N:2]',), ('[A:1](=[A:2])[O:3][C:4]',), [('CC#N', 'CCCCCCCC'), ('N#CCC#N', 'CC', 'CCC'), ('N#CC', 'CC#N')]),
]


def corr_stage(ck):
    """Reactor._single_stage(chosen, ignored): for every match the product of _patcher (obtained by calling _patcher ourselves on
    the same union and match) is renumbered where it collides with the atoms of the molecules that take no part"""
    from itertools import permutations
    from chython import smiles, smarts
    from chython.reactor import Reactor
    from chython.reactor.reactor import fix_mapping_overlap
    from chython._functions import lazy_product
    rng = random.Random(f'{ck.seed}:c16stage')
    batch = Batch()
    for pats, prods, rsets in STAGE_TEMPLATES:
        rx = Reactor(tuple(smarts(x) for x in pats), tuple(smarts(x) for x in prods), fix_aromatic_rings=False, automorphism_filter=False)
        for rs, variant in itertools.product(rsets, range(4 if ck.tier == 'quick' else 25)):
            ms = [smiles(x) for x in rs]
            if variant:      # variant 0: as read (every molecule numbered from 1); others: random contiguous / sparse numberings
                ms = [corpus.renumber(m, rng) if variant % 2 else sparse_renumber(m, rng) for m in ms]
                rs = rs + (variant,)
            structures = fix_mapping_overlap(ms)
            idx = range(len(structures))
            for chosen_i in itertools.islice(permutations(idx, len(pats)), 6 if ck.tier == 'quick' else 60):
                chosen = [structures[i] for i in chosen_i]
                ignored = {x for i in idx if i not in chosen_i for x in structures[i]}
                try:
                    outs = list(itertools.islice(rx._single_stage(chosen, ignored), 6))
                except Exception as e:
                    ck.counterexample(f'single-stage-raises:{pats}:{rs}:{chosen_i}', f'Reactor._single_stage raises {type(e).__name__}', {'patterns': pats, 'products': prods, 'reactants': rs},
                                      f'{type(e).__name__}: {e}', 'products', 'no exception expected')
                    continue
                if not outs:
                    continue
                united = reduce(or_, chosen)
                for k, match in enumerate(itertools.islice(lazy_product(*(x.get_mapping(y, automorphism_filter=False) for x, y in zip(rx._patterns, chosen))), len(outs))):
                    mapping = match[0].copy()
                    for mm in match[1:]:
                        mapping.update(mm)
                    new = list(rx._patcher(united, mapping))
                    got = [x for p in outs[k] for x in p]
                    describe = {'patterns': pats, 'products': prods, 'reactants': rs, 'chosen': chosen_i, 'patched_numbers': new, 'ignored': sorted(ignored)}
                    batch.add(f'stage_res_eqb (stage_remap {zl(new)} {zl(sorted(ignored))}) (Ok {zl(sorted(got))})', describe)
                    collided = bool(set(new) & ignored)
                    ck.count('stage:' + ('collision' if collided else 'no collision') + (':split' if len(outs[k]) > 1 else ''))
                    ck.case(('stage', pats, rs, chosen_i, k), nontrivial=collided)
                    # property-level read-out, independent of the model
                    if len(got) != len(set(got)) or set(got) & ignored or len(got) != len(new) or not (set(new) - ignored) <= set(got):
                        ck.counterexample(f'single-stage-numbers:{pats}:{rs}:{chosen_i}:{k}',
                                          'products of one stage repeat a number, share one with a molecule that takes no part, or renumber an atom that did not collide',
                                          describe, sorted(got), 'unique numbers, disjoint from the ignored molecules, non-colliding atoms unchanged', 'count')
    ok, failing, log = batch.run('c16st')
    ck.oblige('correspondence: atom numbers yielded by Reactor._single_stage == Coq stage_remap of the _patcher product (as sets)',
              ok and not failing, 'correspondence', log or str([batch.meta[i] for i in failing[:5]]))
    ck.extra['stage_cases'] = len(batch.cases)
    if not ok or failing:
        ck.unchecked('correspondence Reactor.stage_remap vs chython/reactor/reactor.py:_single_stage', log[-1500:], [repr(batch.meta[i]) for i in failing[:20]])
    return ok and not failing


# ---------------------------------------------------------------------------------------------------------------------
# correspondence 5: the loops around _patcher (coq/model/ReactorStage.v): Graph.union, Transformer.__call__,
# Reactor._single_stage at molecule level, Reactor.__call__ (one_shot) with its de-duplication

def nl(xs):
    return lst([f'{int(x)}%nat' for x in xs])


def merged_matches(rx, chosen):
    """what the for-loop of _single_stage iterates: lazy_product of the get_mapping generators, dicts merged"""
    from chython._functions import lazy_product
    out = []
    for match in lazy_product(*(x.get_mapping(y, automorphism_filter=rx._automorphism_filter) for x, y in zip(rx._patterns, chosen))):
        mapping = match[0].copy()
        for mm in match[1:]:
            mapping.update(mm)
        out.append(mapping)
    return out


def gen_list(gen, limit=None):
    """values a generator yields and the exception that ends it"""
    out = []
    try:
        for x in (gen if limit is None else itertools.islice(gen, limit)):
            out.append(x)
    except Exception as e:
        return out, 'Some ' + exn(e)[4:]
    return out, 'None'


def corr_loops(ck):
    from itertools import permutations
    from chython import smiles, smarts
    from chython.containers import ReactionContainer
    from chython.reactor import Reactor
    from chython.reactor.reactor import fix_mapping_overlap
    rng = random.Random(f'{ck.seed}:c16loops')
    quick = ck.tier == 'quick'
    batch = Batch()
    one = '(fun m => [m])'
    # (a) Graph.union as reduce(or_, chosen): disjoint numbers (concatenation) and colliding numbers (remap branch)
    for smis in [('CCO', 'NC'), ('CC(=O)O', 'NCC', 'O'), ('c1ccccc1', 'CC', 'C'), ('C',), ('CO', 'CO', 'CO')] + [tuple(rng.sample(DECORATED + BRIDGED, rng.randint(1, 3))) for _ in range(10 if quick else 100)]:
        for fixed in (True, False):
            ms = [smiles(x) for x in smis]
            if rng.random() < .5:
                ms = [sparse_renumber(m, rng) for m in ms]
            if fixed:
                ms = fix_mapping_overlap(ms)
            try:
                res = 'Ok ' + coqmol.mol_term(reduce(or_, ms))
            except Exception as e:
                res = exn(e)
            batch.add(f'union_res_eqb (union_all {lst([batch.define("m", coqmol.mol_term(m)) for m in ms])}) ({res})', {'kind': 'union', 'smiles': smis, 'disjoint': fixed})
            ck.count('loops:union:' + ('disjoint' if fixed else 'as given (colliding numbers)'))
            ck.case(('union', smis, fixed, tuple(tuple(m) for m in ms)), nontrivial=len(ms) > 1)
    # (b) Transformer.__call__ = the patcher over the match list
    pool = ['CCO', 'CC(=O)OCC', 'NCCO', 'C1N2CC1C2', 'C1N(F)N(C1)Cl', 'OCC(O)CO', 'CCOCC', 'CC#N', 'N#CCC#N', 'C[N+](C)(C)CC(=O)[O-]', 'ClCCCl'] + \
        corpus.sample(corpus.lipo(), 6 if quick else 60, ck.seed, 'c16loops')
    for pat, rep, what in SYNTHETIC:
        t = make_template(pat, rep, fix_aromatic_rings=False)
        for smi in pool:
            try:
                m = smiles(smi)
            except Exception:
                continue
            matches = [dict(x) for x in t._pattern.get_mapping(m, automorphism_filter=t._automorphism_filter)]
            if not matches:
                continue
            prods, e = gen_list(t(m))
            batch.add(f'mols_gen_eqb (transformer_call {zl(sorted(t._to_delete))} {batch.define("t", tpl_term(t._replacement))} {lst([pairs(x) for x in matches])} '
                      f'{batch.define("m", coqmol.mol_term(m))}) ({lst([coqmol.mol_term(x) for x in prods])}, {e})',
                      {'kind': 'Transformer.__call__', 'template': f'{pat}>>{rep}', 'smiles': smi, 'matches': len(matches)})
            ck.count('loops:transformer-call:' + ('raises' if e != 'None' else f'{min(len(matches), 3)}{"+" if len(matches) > 3 else ""} matches'))
            ck.case(('tcall', pat, rep, smi), nontrivial=len(matches) > 1)
    # (c) Reactor._single_stage at molecule level and (d) Reactor.__call__ one_shot
    for pats, prods_t, rsets in STAGE_TEMPLATES:
        rx = Reactor(tuple(smarts(x) for x in pats), tuple(smarts(x) for x in prods_t), fix_aromatic_rings=False, automorphism_filter=False)
        split = len(rx._products_atoms) > 1
        to_del = zl(sorted(rx._to_delete))
        tpl = batch.define('t', tpl_term(rx._replacement))
        for rs, variant in itertools.product(rsets, range(3 if quick else 12)):
            ms = [smiles(x) for x in rs]
            if variant:
                ms = [corpus.renumber(m, rng) if variant % 2 else sparse_renumber(m, rng) for m in ms]
            structures = fix_mapping_overlap(ms)
            names = [batch.define('m', coqmol.mol_term(m)) for m in structures]
            idx = list(range(len(structures)))
            mtable, ctable, cands = [], [], []
            for chosen_i in permutations(idx, len(pats)):
                chosen = [structures[i] for i in chosen_i]
                ign = [structures[i] for i in idx if i not in chosen_i]
                ignored = {x for m in ign for x in m}
                matches = merged_matches(rx, chosen)
                mtable.append(tup(nl(chosen_i), lst([pairs(x) for x in matches])))
                if not matches:
                    continue
                united = reduce(or_, chosen)
                for mp in matches:      # the iteration order of each `collision` set, rebuilt by the very expression the method uses
                    new0 = rx._patcher(united, dict(mp))
                    col = set(new0).intersection(ignored)
                    if len(col) > 1:
                        ctable.append(tup(zl([x for x in new0 if x in ignored]), zl(list(col))))
                outs, e = gen_list(rx._single_stage(chosen, ignored))
                real = [x[0] if len(x) == 1 else reduce(or_, x) for x in outs]
                if len(cands) < 400:
                    batch.add(f'stage_mols_eqb {b(not split)} (single_stage {to_del} {tpl} (ztable_get {lst(ctable)}) {one} {lst([pairs(x) for x in matches])} '
                              f'{lst([names[i] for i in chosen_i])} {zl(sorted(ignored))}) ({lst([coqmol.mol_term(x) for x in real])}, {e})',
                              {'kind': '_single_stage', 'patterns': pats, 'products': prods_t, 'reactants': rs, 'chosen': chosen_i, 'matches': len(matches)})
                    ck.count('loops:single-stage:' + ('split' if split else 'one product') + (':collision' if any(set(x) & ignored for x in [rx._patcher(united, dict(mp)) for mp in matches[:1]]) else ''))
                    ck.case(('sstage', pats, rs, chosen_i), nontrivial=True)
                for k, new in enumerate(outs):
                    r = ReactionContainer([x.copy() for x in chosen] + [x.copy() for x in ign], list(new) + [x.copy() for x in ign])
                    if len(new) > 1:
                        r.contract_ions()
                    cands.append((chosen_i, k, str(r)))
            # the real call, its yields identified with the first candidate of the same string
            real_r, e = gen_list(rx(*structures))
            keys = {}
            ktable = lst([tup(nl(list(c) + [k]), zraw(keys.setdefault(st, len(keys)))) for c, k, st in cands])
            first = {}
            for c, k, st in cands:
                first.setdefault(st, (c, k))
            sigs = []
            for r in real_r:
                c, k = first.get(str(r), ((), 999))
                sigs.append(tup(tup(nl(c), f'{k}%nat'), zl(sorted(x for p in r.products for x in p))))
            batch.add(f'call_eqb (one_shot {to_del} {tpl} (fun c => table_get {lst(mtable)} c []) (ztable_get {lst(ctable)}) {one} Z Z.eqb '
                      f'(fun c => table_get {ktable} (c_chosen c ++ [c_match c]) (-1)) {lst(names)} {len(pats)}%nat) ({lst(sigs)}, {e})',
                      {'kind': 'Reactor.__call__ one_shot', 'patterns': pats, 'products': prods_t, 'reactants': rs, 'candidates': len(cands), 'yielded': len(real_r)})
            ck.count('loops:one-shot:' + ('duplicates removed' if len(real_r) < len(cands) else 'all candidates distinct'))
            ck.case(('oneshot', pats, rs), nontrivial=len(cands) > 0)
            # read-out independent of the model: yields = first occurrences of the candidate strings, in order
            want = list(dict.fromkeys(st for _, _, st in cands))
            if [str(r) for r in real_r] != want and e == 'None':
                ck.counterexample(f'one-shot-yields:{pats}:{rs}', 'Reactor.__call__ does not yield exactly one reaction per distinct candidate string, in first-occurrence order',
                                  {'patterns': pats, 'products': prods_t, 'reactants': rs}, [str(r) for r in real_r], want, 'candidates rebuilt from _single_stage')
    ok, failing, log = batch.run('c16lp', chunk=40)
    ck.oblige('correspondence: Graph.union, Transformer.__call__, Reactor._single_stage (molecules after the collision remap) and Reactor.__call__ one_shot '
              '(which candidate is yielded, in which order, with which atom numbers) == Coq ReactorStage', ok and not failing, 'correspondence',
              log or str([batch.meta[i] for i in failing[:5]]))
    ck.extra['loops_cases'] = len(batch.cases)
    if not ok or failing:
        ck.unchecked('correspondence ReactorStage vs chython/reactor/reactor.py + transformer.py + containers/graph.py:union', log[-1500:], [repr(batch.meta[i]) for i in failing[:20]])
    return ok and not failing


# ---------------------------------------------------------------------------------------------------------------------
# correspondence 6: the one_shot=False queue of Reactor.__call__ (coq/model/ReactorQueue.v), molecules as tokens

QUEUE_TEMPLATES = [
    # (patterns, products, reactant sets, polymerise_limit)
    (('[C:1]#[N:2]',), ('[A:1](=[A:2])[O:3][C:4]',), [('N#CCC#N',), ('CC#N', 'CCCC'), ('N#CC', 'CC#N'), ('N#CCC#N', 'N#CC')], 3),
    (('[C:1]=[O:2]', '[N;D1:3]'), ('[A:1](-[A:2])-[A:3]-[C:7](=[O:8])-[C:9]',), [('CC=O', 'NC'), ('CC=O', 'NC', 'CCCC'), ('O=CC=O', 'NCCN')], 2),
    (('[C:1](=[O:2])[O;D1:3]', '[N;D1:4][C:5]'), ('[A:1](=[A:2])[A:4][A:5].[A:3]',), [('CC(=O)O', 'NCC'), ('OC(=O)CC(=O)O', 'NCCN'), ('CC(=O)O', 'NC', 'CCCCCC')], 2),
    (('[C:1][Br:2]', '[O;D1:3][C:4]'), ('[A:1][A:3][A:4]', '[Br-:2]'), [('CCBr', 'OC'), ('BrCCBr', 'OCCO')], 2),
    (('[C:1][O;D1:2]',), ('[A:1][A:2][C:3]',), [('OCCO',), ('OCC(O)CO', 'C')], 3),
    # several separate reactant molecules that all match a one-pattern template: every one of them has to be chosen again
    (('[C:1][Br:2]',), ('[A:1][O:3]',), [('CCBr', 'BrCCCBr'), ('CCBr', 'CCCBr', 'C'), ('CBr', 'CCBr', 'BrCCBr')], 4),
]


def corr_queue(ck):
    import chython.reactor.reactor as rmod
    from itertools import permutations
    from chython import smiles, smarts
    from chython.containers import ReactionContainer
    from chython.reactor import Reactor
    rng = random.Random(f'{ck.seed}:c16queue')
    batch = Batch()

    def tl(xs):
        return zl(list(xs))
    for pats, prods_t, rsets, limit in QUEUE_TEMPLATES:
        for rs, variant in itertools.product(rsets, range(2 if ck.tier == 'quick' else 6)):
            rx = Reactor(tuple(smarts(x) for x in pats), tuple(smarts(x) for x in prods_t), one_shot=False, polymerise_limit=limit,
                         fix_aromatic_rings=False, automorphism_filter=False)
            ms = [smiles(x) for x in rs]
            if variant:
                ms = [corpus.renumber(m, rng) if variant % 2 else sparse_renumber(m, rng) for m in ms]
            structures = rmod.fix_mapping_overlap(ms)
            toks = {}

            def tok(m):
                return toks.setdefault((tuple(m._atoms), str(m)), len(toks) + 1)
            calls, overlaps = [], []
            orig_stage, orig_fix = rx._single_stage, rmod.fix_mapping_overlap

            def wstage(chosen, ignored):
                rec = {'chosen': list(chosen), 'ctoks': [tok(x) for x in chosen], 'ignored': set(ignored), 'out': [], 'otoks': [], 'exc': 'None'}
                calls.append(rec)
                try:
                    for new in orig_stage(chosen, ignored):
                        rec['out'].append([x.copy() for x in new])
                        rec['otoks'].append([tok(x) for x in new])
                        yield new
                except Exception as e:
                    rec['exc'] = 'Some ' + exn(e)[4:]
                    raise

            def wfix(ss):
                out = orig_fix(ss)
                overlaps.append(([tok(x) for x in ss], [tok(x) for x in out]))
                return out
            rx._single_stage = wstage
            rmod.fix_mapping_overlap = wfix
            try:
                real, e = gen_list(rx(*structures), 400)
            finally:
                rmod.fix_mapping_overlap = orig_fix
                del rx._single_stage
            if len(real) >= 400:
                ck.count('queue:skipped (more than 400 reactions)')
                continue
            # ordered candidates for the `ignored` list of every call: the initial complements, then every product list minus one
            idx = list(range(len(structures)))
            cands = [[structures[i] for i in idx if i not in c] for c in permutations(idx, len(pats))]
            stage_t, finish_t, key_t, keys = [], [], [], {}
            seen_f = set()
            lost = 0
            for rec in calls:
                orders = {}
                for cl in cands:
                    if {x for m in cl for x in m} == rec['ignored'] and sum(len(m) for m in cl) == len(rec['ignored']):
                        orders.setdefault(tuple(tok(m) for m in cl), cl)
                if not orders:
                    lost += 1
                    continue
                for itoks, cl in orders.items():
                    for new, ntoks in zip(rec['out'], rec['otoks']):
                        if (tuple(ntoks), itoks) in seen_f:
                            continue
                        seen_f.add((tuple(ntoks), itoks))
                        r = ReactionContainer([x.copy() for x in structures], [x.copy() for x in new] + [x.copy() for x in cl])
                        if len(new) > 1:
                            r.contract_ions()
                        ptoks = [tok(x) for x in r.products]
                        finish_t.append(tup(tup(tl(ntoks), tl(itoks)), tl(ptoks)))
                        key_t.append(tup(tl(ptoks), zraw(keys.setdefault(str(r), len(keys)))))
                        prods = list(r.products)
                        for i in range(len(prods)):
                            cands.append(prods[:i] + prods[i + 1:])
                # the real call sees only the atom SET of the ignored molecules: every ordered candidate with that set gets the entry
                for itoks in orders:
                    stage_t.append(tup(tup(tl(rec['ctoks']), tl(sorted(itoks))), tup(lst([tl(x) for x in rec['otoks']]), rec['exc'])))
            if lost:
                ck.count('queue:calls whose ignored list could not be reconstructed', lost)
                continue
            operm_t = [tup(tl(i), lst([tl(p) for p in permutations(o, len(pats))])) for i, o in overlaps[1:]]
            yields = lst([tl([tok(x) for x in r.products]) for r in real])
            nprod = len(rx._products_atoms)
            funs = (f'(fun ch ign => tab2 {lst(stage_t)} ch (zsort ign) ([], Some OtherError)) (fun nw ign => tab2 {lst(finish_t)} nw ign []) '
                    f'(fun p => tab1 {lst(key_t)} p (-1)) (fun ms => tab1 {lst(operm_t)} ms []) {len(pats)}%nat {nprod}%nat {limit}%nat {tl([tok(m) for m in structures])} 3000%nat')
            meta = {'kind': 'Reactor.__call__ one_shot=False', 'patterns': pats, 'products': prods_t, 'reactants': rs, 'limit': limit,
                    'stage_calls': len(calls), 'yielded': len(real), 'molecules': len(toks)}
            # yields (order, products) and the sequence of stages: an unrecorded stage asked for by the model ends it with OtherError
            batch.add(f'exh_eqb (exhaustive Z Z Z.eqb {funs}) ({yields}, {e}) && '
                      f'trace_eqb (exhaustive_trace Z Z Z.eqb {funs}) {lst([tl(rec["ctoks"]) for rec in calls])}', meta)
            ck.count('queue:' + ('raises' if e != 'None' else 'several generations' if len(calls) > len(list(permutations(idx, len(pats)))) else 'first generation only'))
            ck.case(('queue', pats, rs, variant), nontrivial=len(real) > 0)
            if len({str(r) for r in real}) != len(real):
                ck.counterexample(f'queue-duplicates:{pats}:{rs}', 'Reactor(one_shot=False) yields the same reaction twice', {'patterns': pats, 'products': prods_t, 'reactants': rs},
                                  sorted(str(r) for r in real), 'pairwise different reactions', 'string comparison')
    ok, failing, log = batch.run('c16q', chunk=10)
    ck.oblige('correspondence: Reactor.__call__(one_shot=False) == Coq ReactorQueue.exhaustive (order and products of every yielded reaction; '
              'stages, r.products, str(r) and fix_mapping_overlap recorded from the real call as tables over molecule tokens)',
              ok and not failing, 'correspondence', log or str([batch.meta[i] for i in failing[:5]]))
    ck.extra['queue_cases'] = len(batch.cases)
    if not ok or failing:
        ck.unchecked('correspondence ReactorQueue vs chython/reactor/reactor.py:Reactor.__call__ (one_shot=False)', log[-1500:], [repr(batch.meta[i]) for i in failing[:20]])
    return ok and not failing


# ---------------------------------------------------------------------------------------------------------------------
# correspondence 7: PreparedReactor.__call__, multi-step mode (coq/model/ReactorPrepared.v), molecules and reactors as tokens

def corr_prepared(ck):
    import chython.reactor.reactions as pmod
    from chython import smiles
    rng = random.Random(f'{ck.seed}:c16prepared')
    batch = Batch()

    def tl(xs):
        return zl(list(xs))
    for name, rsets in PREPARED_SETS.items():
        template = getattr(pmod, name + '_template', None)
        if not isinstance(template, dict) or not template:
            continue
        for rs, variant, use_excess in itertools.product(rsets, range(2 if ck.tier == 'quick' else 5), (False, True)):
            if use_excess and variant:
                continue
            prep = pmod.PreparedReactor(template, name)      # a private instance: its reactors are wrapped, /repo is untouched
            ms = [smiles(x) for x in rs]
            if variant:
                ms = [sparse_renumber(m, rng) for m in ms]
                rng.shuffle(ms)
            toks = {}

            def tok(m):
                return toks.setdefault((tuple(m._atoms), str(m)), len(toks) + 1)
            calls, overlaps = [], []

            class Wrapped:
                def __init__(self, rx, idx):
                    self.rx, self.idx = rx, idx

                def __call__(self, *rct):
                    rec = {'idx': self.idx, 'rct': [tok(x) for x in rct], 'out': [], 'keys': [], 'exc': 'None'}
                    calls.append(rec)
                    try:
                        for r in self.rx(*rct):
                            rec['out'].append([tok(x) for x in r.products])
                            rec['keys'].append(str(r))
                            yield r
                    except Exception as e:
                        rec['exc'] = 'Some ' + exn(e)[4:]
                        raise
            prep.rxn_ms = [Wrapped(rx, i + 1) for i, rx in enumerate(prep.rxn_ms)]
            orig_fix = pmod.fix_mapping_overlap

            def wfix(ss):
                out = orig_fix(ss)
                overlaps.append(([tok(x) for x in ss], [tok(x) for x in out]))
                return out
            pmod.fix_mapping_overlap = wfix
            kw = {'excess': [len(ms) - 1]} if use_excess else {}
            try:
                real, e = gen_list(prep(*ms, one_shot=False, check_alerts=False, **kw), 300)
            finally:
                pmod.fix_mapping_overlap = orig_fix
            if len(real) >= 300 or not overlaps:
                ck.count('prepared:skipped')
                continue
            molecules = overlaps[0][1]
            keys = {}
            react_t = lst([tup(tup(zraw(c['idx']), tl(c['rct'])), tup(lst([tl(x) for x in c['out']]), c['exc'])) for c in calls])
            key_t = lst([tup(tup(tl(c['rct']), tl(o)), zraw(keys.setdefault(k, len(keys)))) for c in calls for o, k in zip(c['out'], c['keys'])])
            over_t = lst([tup(tl(i), tl(o)) for i, o in overlaps[1:]])
            excess_t = f'(Some {tl([molecules[-1]])})' if use_excess else 'None'
            funs = (f'(fun rx rct => ptab {react_t} rx rct ([], Some OtherError)) (fun rct p => tab2 {key_t} rct p (-1)) (fun ms => tab1 {over_t} ms []) '
                    f'{tl(range(1, len(prep.rxn_ms) + 1))} (fun _ => true) {tl(molecules)} {excess_t} 3000%nat')
            # the yielded reactions, identified by (reactants of the stage, products): first occurrence of every reaction string
            seen_k, ys = set(), []
            for c in calls:
                for o, k in zip(c['out'], c['keys']):
                    if k not in seen_k:
                        seen_k.add(k)
                        ys.append(tup(tl(c['rct']), tl(o)))
            batch.add(f'prep_eqb (multistep Z Z Z Z.eqb {funs}) ({lst(ys)}, {e}) && ptrace_eqb (multistep_trace Z Z Z Z.eqb {funs}) '
                      f'{lst([tup(zraw(c["idx"]), tl(c["rct"])) for c in calls])}',
                      {'kind': 'PreparedReactor.__call__ multi-step', 'reaction': name, 'reactants': rs, 'excess': use_excess, 'stages': len(calls), 'yielded': len(real)})
            ck.count('prepared:' + ('explicit excess' if use_excess else 'default excess') + (':several generations' if len(calls) > len(prep.rxn_ms) else ''))
            ck.case(('prepared-tie', name, rs, variant, use_excess), nontrivial=len(real) > 0)
            # read-out independent of the model: one yielded reaction per distinct stage reaction string, same products in the same order
            if e == 'None' and len(real) != len(ys):
                ck.counterexample(f'prepared-yields:{name}:{rs}', 'PreparedReactor multi-step mode does not yield one reaction per distinct stage reaction',
                                  {'reaction': name, 'reactants': rs}, len(real), len(ys), 'stage reactions recorded from the wrapped reactors')
    ok, failing, log = batch.run('c16pr', chunk=8)
    ck.oblige('correspondence: PreparedReactor.__call__(one_shot=False) == Coq ReactorPrepared.multistep (yielded reactions and the sequence of '
              '(reactor, reactants) stages; the reactors, str(r) and fix_mapping_overlap recorded from the real call as tables over tokens)',
              ok and not failing, 'correspondence', log or str([batch.meta[i] for i in failing[:5]]))
    ck.extra['prepared_cases'] = len(batch.cases)
    if not ok or failing:
        ck.unchecked('correspondence ReactorPrepared vs chython/reactor/reactions/__init__.py:PreparedReactor.__call__', log[-1500:], [repr(batch.meta[i]) for i in failing[:20]])
    return ok and not failing


# ---------------------------------------------------------------------------------------------------------------------
# search: property-level oracles on the real code, independent of the model

def search_deleted_exhaustive(ck):
    """every graph on 5 atoms (quick: a third of them) x every matched set x every to-delete subset against union-find"""
    rng = random.Random(f'{ck.seed}:c16s5')
    n = 5
    nodes = list(range(1, n + 1))
    choices = list(matched_choices(nodes))
    total = 0
    for edges in all_graphs(n):
        if ck.tier == 'quick' and rng.random() < .67:
            continue
        edges = edges[:]
        rng.shuffle(edges)
        mol = carbon_graph(n, edges)
        bonds = bonds_of(mol)
        for matched, dele in choices:
            if not dele:
                continue
            t = any_transformer(len(matched), dele)
            mapping = dict(zip(range(1, len(matched) + 1), matched))
            got = t._get_deleted(mol, mapping)
            _, order = observed_order(t, mapping)
            D = set(order)
            K = set(matched) - D
            total += 1
            compare_with_oracle(ck, bonds, order, D, K, got, oracle_deleted(bonds, D, K), f'graph5:{edges}', mapping, t, 'union-find components')
    ck.evaluations += total
    ck.count('search:get_deleted-5-atom-graphs', total)


def rdkit_canon(mol):
    """stereo-aware canonical SMILES by RDKit (falls back to chython's string when RDKit cannot read it)"""
    from rdkit import Chem
    try:
        rm = Chem.MolFromSmiles(str(mol))
        return Chem.MolToSmiles(rm) if rm is not None else 'chython:' + str(mol)
    except Exception:
        return 'chython:' + str(mol)


def struct_sig(m):
    return ({n: (a.atomic_number, a.isotope, a.charge, a.is_radical, a.implicit_hydrogens) for n, a in m.atoms()},
            {(min(n, k), max(n, k)): int(bd) for n, k, bd in m.bonds()})


def check_product(ck, t, mol, mapping0, prod, smi, tname, frame=True):
    """what the property says about one product; mapping0 = the match before _patcher extended it"""
    from chython.periodictable import AnyElement
    bonds = bonds_of(mol)
    rep = t._replacement
    # read from the template itself, not from t._to_delete: matched atoms that are not masked and absent from the replacement
    pattern_atoms = [(k, a) for q in ([t._pattern] if hasattr(t, '_pattern') else t._patterns) for k, a in q.atoms()]
    rep_keys = set(rep)      # (`k in rep` is not a key test for a MoleculeContainer)
    D = {mapping0[k] for k, a in pattern_atoms if not a.masked and k not in rep_keys}
    K = set(mapping0.values()) - D
    deleted = oracle_deleted(bonds, D, K)
    new_atoms = [n for n in rep if n not in mapping0]
    expect = (set(mol) - deleted) | set(range(max(mol) + 1, max(mol) + 1 + len(new_atoms)))
    from chython.containers import MoleculeContainer as _MC
    rep_code = f"smiles({format(rep, 'm')!r})" if isinstance(rep, _MC) else f"smarts({str(rep)!r})"
    rp = (f"from chython import smiles, smarts\nfrom chython.reactor import Transformer\n"
          f"t = Transformer(smarts({str(getattr(t, '_pattern', ''))!r}), {rep_code}, fix_aromatic_rings=False)\n"
          f"print([(str(x), [(n, a.implicit_hydrogens) for n, a in x.atoms()]) for x in t(smiles({smi!r}))])")

    def bad(key, what, obs, exp):
        k = f'{key}:{tname}:{smi}:{sorted(mapping0.items())}'
        ck.counterexample(k, f'{what} ({tname} on {smi})', {'smiles': smi, 'template': tname, 'mapping': mapping0}, obs, exp,
                          'union-find components of the remainder + template read-out', replay_py=rp)
    if set(prod) != expect:
        bad('atoms', 'product atom set is not (input - deleted pieces) + fresh new atoms', sorted(prod), sorted(expect))
        return
    # adjacency well-formed: same keys, symmetric, both directions are the same Bond object, no loops
    if list(prod._atoms) != list(prod._bonds) or any(n == k or prod._bonds[k].get(n) is not bd for n, nb in prod._bonds.items() for k, bd in nb.items()):
        bad('wf', 'product adjacency is not symmetric / aliased', 'broken', 'symmetric')
    if not frame:
        return
    patched = {mapping0.get(n) for n in rep} - {None}
    for n, a in mol.atoms():
        if n in deleted or n in patched:
            continue
        pa = prod._atoms[n]
        if (pa.atomic_number, pa.isotope, pa.charge, pa.is_radical, pa.implicit_hydrogens) != (a.atomic_number, a.isotope, a.charge, a.is_radical, a.implicit_hydrogens):
            bad('frame-atom', f'atom {n} is not named by the template but changed', repr(pa), repr(a))
        exp_nb = {k: int(bd) for k, bd in mol._bonds[n].items() if k not in deleted}
        got_nb = {k: int(bd) for k, bd in prod._bonds[n].items()}
        if exp_nb != got_nb:
            bad('frame-bonds', f'bonds of atom {n} (not named by the template) changed', got_nb, exp_nb)
    # stereo of untouched tetrahedral centres whose neighbours all survive: same sign relative to the same neighbour order
    # (the label may only disappear, when the edit made the centre non-stereogenic)
    try:
        st_m = mol.stereogenic_tetrahedrons
    except Exception:
        st_m = {}
    for n, a in mol.atoms():
        if n in deleted or n in patched or a.stereo is None or n not in st_m or set(mol._bonds[n]) != set(prod._bonds[n]):
            continue
        if prod._atoms[n].stereo is None:
            ck.count('search:untouched-stereo-label-dropped')
            continue
        try:
            got_sign = prod._translate_tetrahedron_sign(n, st_m[n])
        except (KeyError, ValueError):
            ck.count('search:untouched-stereo-not-translatable')
            continue
        ck.count('search:untouched-stereo-centres-compared')
        if got_sign != a.stereo:
            bad('frame-stereo', f'tetrahedral centre {n} is not named by the template, keeps all its neighbours, but its configuration is inverted',
                {'sign relative to ' + str(st_m[n]): got_sign}, {'sign relative to ' + str(st_m[n]): a.stereo})
    # cis/trans bonds the template does not rewrite (chain and substituents survive, same bond orders): the label must not be
    # lost while the bond is still a stereo bond of the product, and must denote the same arrangement of the same neighbours
    try:
        cums = mol.stereogenic_cis_trans
        pct, chiral = prod.stereogenic_cis_trans, prod.chiral_cis_trans
    except Exception:
        cums, pct, chiral = {}, {}, set()
    for (a1, a2), env in cums.items():
        try:
            s_old = mol._translate_cis_trans_sign(a1, a2, env[0], env[1])
        except Exception:
            continue
        atoms_env = {a1, a2} | {x for x in env if x is not None}
        if atoms_env & deleted or any(x not in prod._atoms for x in atoms_env):
            continue
        key = (a1, a2) if (a1, a2) in pct else (a2, a1) if (a2, a1) in pct else None
        if key is None or {x for x in pct[key] if x is not None} != {x for x in env if x is not None}:
            continue
        path_ok = all(k in prod._bonds[n] and int(prod._bonds[n][k]) == int(bd) for n in (a1, a2) for k, bd in mol._bonds[n].items() if k in atoms_env)
        if not path_ok:
            continue
        ck.count('search:cis/trans bonds compared' + (' (product lists the terminals in the other order)' if key != (a1, a2) else ''))
        try:
            s_new = prod._translate_cis_trans_sign(a1, a2, env[0], env[1])
        except Exception:
            s_new = None
        if s_new is None:
            if key in chiral or key[::-1] in chiral:
                bad('frame-stereo-bond-lost', f'E/Z label of the double bond {a1}={a2}, which the template does not rewrite, is lost although the bond is still a stereo bond',
                    'no label', {'arrangement of ' + str((env[0], env[1])): s_old})
        elif s_new != s_old:
            bad('frame-stereo-bond', f'configuration of the double bond {a1}={a2}, which the template does not rewrite, is inverted',
                {'arrangement of ' + str((env[0], env[1])): s_new}, {'arrangement of ' + str((env[0], env[1])): s_old})
    newnum = dict(zip(new_atoms, range(max(mol) + 1, max(mol) + 1 + len(new_atoms))))
    img = lambda n: mapping0[n] if n in mapping0 else newnum[n]
    for n, ra in rep.atoms():
        pa = prod._atoms[img(n)]
        want_el = mol._atoms[mapping0[n]].atomic_number if isinstance(ra, AnyElement) else ra.atomic_number
        want_iso = mol._atoms[mapping0[n]].isotope if isinstance(ra, AnyElement) else ra.isotope
        if (pa.atomic_number, pa.isotope, pa.charge, pa.is_radical) != (want_el, want_iso, ra.charge, ra.is_radical):
            bad('named-atom', f'replacement atom {n} does not have the requested element/isotope/charge/radical', (pa.atomic_number, pa.isotope, pa.charge, pa.is_radical),
                (want_el, want_iso, ra.charge, ra.is_radical))
    # hydrogens of the replacement atoms: a NEW atom takes the count written in the patch (Element: its count; query atom: its h
    # clause), every other count -- in particular that of a matched atom the patch re-types -- is what the valence rules give
    # for the product (molecule rebuilt from scratch)
    from chython.periodictable import Element as _Element
    reb = rebuilt_hydrogens(prod)
    for n, ra in rep.atoms():
        pa = prod._atoms[img(n)]
        if n not in mapping0 and not isinstance(ra, AnyElement):
            want_h = ra.implicit_hydrogens if isinstance(ra, _Element) else (ra.implicit_hydrogens[0] if ra.implicit_hydrogens else None)
            if want_h is not None:
                if pa.implicit_hydrogens != want_h:
                    bad('new-atom-hydrogens', f'new atom {n} does not carry the hydrogen count of the patch', pa.implicit_hydrogens, want_h)
                continue
        want_h = reb.get(img(n))
        if want_h is not None and pa.implicit_hydrogens != want_h:
            bad('named-hydrogens', f'replacement atom {n} (atom {img(n)} of the product) has a hydrogen count that is not the one of its valence state in the product',
                {'implicit_hydrogens': pa.implicit_hydrogens, 'neighbours': {k: int(bd) for k, bd in prod._bonds[img(n)].items()}}, {'implicit_hydrogens': want_h})
    for n, k, rb in rep.bonds():
        if int(prod._bonds[img(n)].get(img(k), 0)) != int(rb):
            bad('named-bond', f'replacement bond {n}-{k} does not have the requested order', int(prod._bonds[img(n)].get(img(k), 0)), int(rb))
    for n, k in itertools.combinations(sorted(patched | set(newnum.values())), 2):
        if k in prod._bonds[n] and not any({img(x), img(y)} == {n, k} for x, y, _ in rep.bonds()):
            bad('extra-bond', f'bond {n}-{k} between replacement atoms is not named by the replacement', int(prod._bonds[n][k]), None)


def search_templates(ck):
    from chython import smiles, smarts
    from chython.reactor import Transformer
    from chython.reactor import deprotection as dp
    rng = random.Random(f'{ck.seed}:c16st')
    quick = ck.tier == 'quick'
    pool = ENOLS + HALIDES + DECORATED + STEREO + BRIDGED + corpus.sample(corpus.lipo(), 150 if quick else 1500, ck.seed, 'c16s')
    mols = []
    for smi in pool:
        try:
            m = smiles(smi)
        except Exception:
            continue
        if m is not None and not m.check_valence():
            mols.append((smi, m))
    templates = []
    for pat, rep, what in SYNTHETIC:
        if '[A:9]' in rep:
            continue
        templates.append((f'{pat}>>{rep}', pat, rep, []))
    for gname in dp._groups:
        for r, p, *tests in getattr(dp, '_' + gname):
            templates.append((f'deprotection.{gname}', r, p, tests[:1]))
    n_prod = 0
    for tname, pat, rep, tests in templates:
        # parsed once: unlabelled atoms get the same numbers in both transformers
        pq, rq = smarts(pat), (smiles(rep[4:]) if rep.startswith('mol:') else smarts(rep))
        t_raw = Transformer(pq, rq, fix_aromatic_rings=False)
        t_def = Transformer(pq, rq)
        extra = []
        for s in tests:
            try:
                extra.append((s, smiles(s)))
            except Exception:
                pass
        hits = 0
        for smi, m in extra + mols:
            if hits >= (30 if quick else 120):
                break
            maps = [dict(x) for x in t_raw._pattern.get_mapping(m, automorphism_filter=True)]
            if not maps:
                continue
            hits += 1
            try:
                prods = list(t_raw(m))
            except Exception as e:   # no ring fixing here: nothing in the call is allowed to refuse a real match
                ck.counterexample(f'raises-raw:{tname}:{smi}', f'template application (fix_aromatic_rings=False) raises {type(e).__name__} on a real match',
                                  {'smiles': smi, 'template': tname}, f'{type(e).__name__}: {e}', 'one product per match', 'no exception expected',
                                  replay_py=f"from chython import smiles, smarts\nfrom chython.reactor import Transformer\nprint([str(x) for x in Transformer(smarts({pat!r}), smarts({rep!r}), fix_aromatic_rings=False)(smiles({smi!r}))])")
                continue
            try:
                prods_def = list(t_def(m))
            except Exception as e:
                if tname.startswith('deprotection'):
                    ck.counterexample(f'raises:{tname}:{smi}', f'built-in template raises {type(e).__name__} on a corpus molecule', {'smiles': smi, 'template': tname},
                                      f'{type(e).__name__}: {e}', 'products', 'no exception expected')
                else:   # an ad hoc template may break an aromatic ring: kekule refuses, not a property violation
                    ck.count('search:synthetic-template-raises-in-ring-fixing:' + type(e).__name__)
                prods_def = [None] * len(maps)
            if len(prods) != len(maps) or len(prods_def) != len(maps):
                ck.counterexample(f'one-product-per-match:{tname}:{smi}', 'number of products differs from the number of matches',
                                  {'smiles': smi, 'template': tname}, len(prods), len(maps), 'get_mapping')
                continue
            ck.count('search:template-application', len(maps))
            for mp, pr, prd in zip(maps, prods, prods_def):
                n_prod += 1
                ck.case(('apply', tname, smi, tuple(sorted(mp.items()))), nontrivial=True)
                check_product(ck, t_raw, m, mp, pr, smi, tname)
                if prd is None:
                    continue
                check_product(ck, t_def, m, mp, prd, smi, tname, frame=False)
                inv = prd.check_valence()
                if inv and tname.startswith('deprotection'):
                    ck.counterexample(f'valence:{tname}:{smi}', 'built-in template gives a product with invalid valence', {'smiles': smi, 'template': tname},
                                      {'product': str(prd), 'invalid_atoms': inv}, 'valence-valid product', 'check_valence',
                                      replay_py=f"from chython import smiles, smarts\nfrom chython.reactor import Transformer\nprint([(str(x), x.check_valence()) for x in Transformer(smarts({pat!r}), smarts({rep!r}))(smiles({smi!r}))])")
                elif inv:
                    ck.count('search:synthetic-template-invalid-valence (not a property violation: template is ad hoc)')
            # product set does not depend on the numbering of the reactant
            if prods_def[0] is None:
                continue
            m2 = corpus.renumber(m, rng)
            try:
                pa, pc = list(t_def(m)), list(t_def(m2))
            except Exception:
                continue
            a, c = sorted(str(x) for x in pa), sorted(str(x) for x in pc)
            if set(a) != set(c) and {rdkit_canon(x) for x in pa} == {rdkit_canon(x) for x in pc}:
                # chython's canonical string is not unique for pseudo-asymmetric centres (1,4-disubstituted rings: a C01 matter):
                # the two product sets are the same molecules by a stereo-aware canonicalisation of another toolkit
                ck.count('search:renumbering-differs-only-in-chython-canonical-string (pseudo-asymmetric centres, see C01)')
            elif set(a) != set(c):
                ck.counterexample(f'renumbering:{tname}:{smi}', 'product set depends on the atom numbering of the reactant',
                                  {'smiles': smi, 'template': tname, 'numbering': list(m2._atoms)}, c, a, 'same molecule renumbered')
    ck.extra['products_checked'] = n_prod


def search_equivariance(ck, batch=None):
    """_patcher on a renumbered structure under the renumbered match == the renumbered product, dict orders included, with the
    k-th new atom mx+k -> mx'+k (the statement of C16_patcher_equivariant, checked on the REAL code; independent of the model)"""
    from chython import smiles
    rng = random.Random(f'{ck.seed}:c16eq')
    quick = ck.tier == 'quick'
    pool = ['CCO', 'CC(=O)OCC', 'NCCO', 'C1N2CC1C2', 'C1N(F)N(C1)Cl', 'OCC(O)CO', 'CC#N', 'C[N+](C)(C)CC(=O)[O-]', 'ClCCCl', 'Brc1ccc(O)cc1', 'C[C@H](N)C(=O)O'] + \
        corpus.sample(corpus.lipo(), 15 if quick else 150, ck.seed, 'c16eq')
    n = 0
    for pat, rep, what in SYNTHETIC:
        if '[A:9]' in rep:
            continue
        t = make_template(pat, rep, fix_aromatic_rings=False)
        for smi in pool:
            try:
                m = smiles(smi)
            except Exception:
                continue
            for mp in itertools.islice(t._pattern.get_mapping(m, automorphism_filter=False), 2):
                nums = list(m._atoms)
                new = rng.sample(range(1, 3 * len(nums) + 6), len(nums))
                sig = dict(zip(nums, new))
                m2 = m.copy()
                m2.remap({k: v + 10 ** 6 for k, v in sig.items()})
                m2.remap({v + 10 ** 6: v for v in sig.values()})
                mx, mx2 = max(nums), max(new)
                ext = lambda x: sig[x] if x <= mx else x - mx + mx2
                mp1, mp2 = dict(mp), {k: sig[v] for k, v in mp.items()}
                try:
                    p1, p2 = t._patcher(m, mp1), t._patcher(m2, mp2)
                except Exception:
                    continue
                n += 1
                ck.case(('equivariance', pat, rep, smi, tuple(sorted(mp.items())), tuple(new)), nontrivial=True)
                s1 = ([(ext(k), a.atomic_number, a.isotope, a.charge, a.is_radical, a.implicit_hydrogens) for k, a in p1._atoms.items()],
                      [(ext(k), [(ext(j), int(bd)) for j, bd in nb.items()]) for k, nb in p1._bonds.items()], {k: ext(v) for k, v in mp1.items()})
                s2 = ([(k, a.atomic_number, a.isotope, a.charge, a.is_radical, a.implicit_hydrogens) for k, a in p2._atoms.items()],
                      [(k, [(j, int(bd)) for j, bd in nb.items()]) for k, nb in p2._bonds.items()], mp2)
                if s1 != s2:
                    ck.counterexample(f'patcher-equivariance:{pat}>>{rep}:{smi}:{sorted(mp.items())}', '_patcher of the renumbered structure is not the renumbered product',
                                      {'smiles': smi, 'template': f'{pat}>>{rep}', 'match': dict(mp), 'renumbering': sig}, repr(s2)[:600], repr(s1)[:600],
                                      'the same call on the structure before renumbering, renumbered afterwards')
                if batch is not None and n % 7 == 0:
                    table = lst([tup(zraw(k), zraw(v)) for k, v in sig.items()])
                    batch.add(f'mol_struct_eqb (rename_mol (mget {table}) {batch.define("m", coqmol.mol_term(m))}) {coqmol.mol_term(m2)}', {'kind': 'Graph.remap == rename_mol', 'smiles': smi, 'renumbering': sig})
    ck.count('search:patcher-equivariance (real code, exact dict order)', n)
    ck.extra['equivariance_products_checked'] = n


def equivariance_step(ck):
    """search on the real code + the tie of Model rename_mol with Graph.remap on a sample of the same renumberings"""
    batch = Batch()
    search_equivariance(ck, batch)
    ok, failing, log = batch.run('c16rn', chunk=40)
    ck.oblige('correspondence: Graph.remap of a whole molecule == Coq rename_mol (the renumbering of C16_patcher_equivariant)', ok and not failing,
              'correspondence', log or str([batch.meta[i] for i in failing[:5]]))
    ck.extra['rename_cases'] = len(batch.cases)
    if not ok or failing:
        ck.unchecked('correspondence ReactorStage.rename_mol vs chython/containers/graph.py:remap', log[-1500:], [repr(batch.meta[i]) for i in failing[:20]])
    return ok and not failing


def search_identity(ck):
    """a template whose replacement equals its pattern returns the input"""
    from chython import smiles, smarts
    from chython.reactor import Transformer
    quick = ck.tier == 'quick'
    pats = ['[C:1][O:2]', '[C:1]=[O:2]', '[C:1][N:2]', '[C:1][C:2][C:3]', '[C;a:1]:[C;a:2]', '[C:1]#[N:2]', '[C:1](=[O:2])[O:3]', '[N+:1][O-:2]',
            '[C:1][S:2]', '[C;M:1][O:2]', '[C;a:1][Cl:2]', '[C:1][F:2]']
    anyrep = {'[C:1][O:2]': '[A:1][A:2]', '[C:1]=[O:2]': '[A:1]=[A:2]', '[C:1][C:2][C:3]': '[A:1][A:2][A:3]', '[C;a:1]:[C;a:2]': '[A:1]:[A:2]',
              '[C;M:1][O:2]': '[A:2]'}
    pool = ENOLS + BRIDGED + ['C[C@H](N)C(=O)O', 'C/C=C/CO', 'F/C=C\\Cl', 'C[C@@H]1CC[C@H](O)CC1', 'OC[C@H]1O[C@@H](O)[C@H](O)[C@@H](O)[C@@H]1O',
                      'CC=[C@]=CCO', 'C[N+](C)(C)CC(=O)[O-]', '[13CH3]CO', 'C[CH]O |^1:1|'] + \
        corpus.sample(corpus.lipo(), 120 if quick else 1200, ck.seed, 'c16id')
    n = 0
    for pat in pats:
        reps = [pat.replace(';M', '')] + ([anyrep[pat]] if pat in anyrep else [])
        for rep in reps:
            for raw in (False, True):
                t = Transformer(smarts(pat), smarts(rep), fix_aromatic_rings=not raw)
                hits = 0
                for smi in pool:
                    if hits >= (26 if quick else 100):
                        break
                    try:
                        m = smiles(smi)
                    except Exception:
                        continue
                    if m is None or m.check_valence():
                        continue
                    try:
                        prods = list(itertools.islice(t(m), 4))
                    except Exception as e:
                        if raw or 'Aromatic' not in type(e).__name__:
                            ck.counterexample(f'identity-raises:{pat}>>{rep}:{raw}:{smi}', f'identity template raises {type(e).__name__}',
                                              {'smiles': smi, 'pattern': pat, 'replacement': rep, 'fix_aromatic_rings': not raw}, f'{type(e).__name__}: {e}', 'the input', 'no exception expected')
                        continue
                    if not prods:
                        continue
                    hits += 1
                    ref = m
                    if not raw:
                        # _patcher ends with kekule() + thiele(): compare with the input brought to the same ring form
                        ref = m.copy()
                        try:
                            ref.kekule()
                            ref.thiele()
                        except Exception:
                            continue
                    for pr in prods:
                        n += 1
                        ck.case(('identity', pat, rep, raw, smi, n), nontrivial=True)
                        ck.count('search:identity-template')
                        # stereo labels are relative to the neighbour order, which the patcher changes: they are compared
                        # through == / the canonical string, never as raw attribute values
                        sig_p, sig_r = struct_sig(pr), struct_sig(ref)
                        if raw and sig_p != sig_r:
                            # fix_aromatic_rings=False (not the default) leaves the rings aromatic: an aromatic atom that the
                            # replacement re-types gets no hydrogen count from calc_implicit (None) until kekule()/thiele() run;
                            # that is the documented price of the raw mode, not a difference of structure
                            arom = {x for (x, y), o in sig_r[1].items() if o == 4} | {y for (x, y), o in sig_r[1].items() if o == 4}
                            fixed = {k: (v[:4] + (sig_r[0][k][4],) if k in arom and k in sig_r[0] and v[4] is None else v) for k, v in sig_p[0].items()}
                            if (fixed, sig_p[1]) == sig_r:
                                ck.count('search:identity-raw-mode-aromatic-hydrogens-left-uncomputed')
                                sig_p = sig_r
                        if not (pr == ref and str(pr) == str(ref) and sig_p == sig_r):
                            ck.counterexample(f'identity:{pat}>>{rep}:{raw}:{smi}', 'identity template does not return the input structure',
                                              {'smiles': smi, 'pattern': pat, 'replacement': rep, 'fix_aromatic_rings': not raw}, str(pr), str(ref),
                                              '==, canonical string and atom-by-atom comparison with the input',
                                              replay_py=f"from chython import smiles, smarts\nfrom chython.reactor import Transformer\nm = smiles({smi!r})\nprint([(str(x), x == m) for x in Transformer(smarts({pat!r}), smarts({rep!r}), fix_aromatic_rings={not raw})(m)], str(m))")


def search_reactor(ck):
    """multi-reactant: unique numbers over products, valence-valid products, independence of reactant order and numbering"""
    from chython import smiles
    from chython.reactor import reactions
    rng = random.Random(f'{ck.seed}:c16r')
    sets = {
        'amidation': [('CC(=O)O', 'NCC'), ('OC(=O)c1ccccc1', 'CNC'), ('OC(=O)CCC(=O)O', 'NCc1ccccc1'), ('CC(=O)O', 'NCCN'), ('OC(=O)C1CC1', 'C1CCNCC1')],
        'esterification': [('CC(=O)O', 'OCC'), ('OC(=O)c1ccccc1', 'CO'), ('CC(=O)O', 'OCCO')],
        'sulfonamidation': [('CS(=O)(=O)Cl', 'NCC'), ('O=S(=O)(Cl)c1ccccc1', 'CNC')],
        'amine_isocyanate': [('CN=C=O', 'NCC'), ('O=C=Nc1ccccc1', 'CNC')],
        'reductive_amination': [('CC=O', 'NCC'), ('O=Cc1ccccc1', 'CNC'), ('CC(C)=O', 'NCc1ccccc1')],
        'suzuki_miyaura': [('Brc1ccccc1', 'OB(O)c1ccccc1'), ('Clc1ccncc1', 'OB(O)c1ccc(C)cc1')],
        'buchwald_hartwig': [('Brc1ccccc1', 'NCC'), ('Clc1ccncc1', 'C1CCNCC1')],
        'sonogashira': [('Brc1ccccc1', 'C#CC'), ('Ic1ccccc1', 'C#Cc1ccccc1')],
    }
    n = 0
    for name, rsets in sets.items():
        try:
            rx = getattr(reactions, name)
        except AttributeError:
            continue
        for rs in rsets:
            ms = [smiles(x) for x in rs]      # both numbered from 1: colliding numbers
            rp_r = f"from chython import smiles\nfrom chython.reactor import reactions\nms=[smiles(x) for x in {rs!r}]\nprint(sorted(str(r) for r in reactions.{name}(*ms)), sorted(str(r) for r in reactions.{name}(*ms[::-1])))"
            try:
                out = list(rx(*ms))
                swapped = sorted('.'.join(sorted(str(p) for p in r.products)) for r in rx(*reversed([smiles(x) for x in rs])))
                ren = sorted('.'.join(sorted(str(p) for p in r.products)) for r in rx(*[corpus.renumber(smiles(x), rng) for x in rs]))
            except Exception as e:
                ck.counterexample(f'reactor-raises:{name}:{rs}', f'built-in reaction raises {type(e).__name__} on valid reactants (as given, reversed or renumbered)',
                                  {'reaction': name, 'reactants': rs}, f'{type(e).__name__}: {e}', 'reactions', 'no exception expected', replay_py=rp_r)
                continue
            ck.count(f'search:reactor:{name}', len(out))
            if len({str(r) for r in out}) != len(out):
                ck.counterexample(f'reactor-duplicates:{name}:{rs}', 'the same reaction is yielded more than once (one product per distinct match)',
                                  {'reaction': name, 'reactants': rs}, sorted(str(r) for r in out), 'pairwise different reactions', 'string comparison', replay_py=rp_r)
            base = sorted('.'.join(sorted(str(p) for p in r.products)) for r in out)
            for r in out:
                n += 1
                ck.case(('reactor', name, rs, str(r)), nontrivial=True)
                nums = [x for p in r.products for x in p]
                if len(nums) != len(set(nums)):
                    ck.counterexample(f'reactor-unique:{name}:{rs}', 'atom numbers repeat over the products of one reaction', {'reaction': name, 'reactants': rs},
                                      str(r), 'unique numbers', 'count')
                inv = [(str(p), p.check_valence()) for p in r.products if p.check_valence()]
                if inv:
                    ck.counterexample(f'reactor-valence:{name}:{rs}', 'built-in reaction gives a product with invalid valence', {'reaction': name, 'reactants': rs},
                                      inv, 'valence-valid', 'check_valence',
                                      replay_py=f"from chython import smiles\nfrom chython.reactor import reactions\nprint([str(r) for r in reactions.{name}(*[smiles(x) for x in {rs!r}])])")
            # reactant order and numbering
            if set(swapped) != set(base):
                ck.counterexample(f'reactor-order:{name}:{rs}', 'product set depends on the order of the reactants', {'reaction': name, 'reactants': rs}, swapped, base, 'reversed reactants',
                                  replay_py=f"from chython import smiles\nfrom chython.reactor import reactions\nms=[smiles(x) for x in {rs!r}]\nprint(sorted(str(r) for r in reactions.{name}(*ms)), sorted(str(r) for r in reactions.{name}(*ms[::-1])))")
            if set(ren) != set(base):
                ck.counterexample(f'reactor-numbering:{name}:{rs}', 'product set depends on the numbering of the reactants', {'reaction': name, 'reactants': rs}, ren, base, 'renumbered reactants')
    ck.extra['reactor_products_checked'] = n


def search_reactor_synthetic(ck):
    """Reactor.__call__ / _single_stage on synthetic multi-reactant templates with spectator molecules, colliding numbers, new
    atoms, one-shot and exhaustive modes: unique numbers, spectators untouched, no duplicates, element balance, order independence"""
    from collections import Counter
    from chython import smiles, smarts
    from chython.reactor import Reactor
    rng = random.Random(f'{ck.seed}:c16rs')
    # (patterns, products, reactant sets incl. spectators); none of the templates deletes an atom, so the element balance is exact
    temps = [
        (('[C:1]=[O:2]', '[N;D1:3]'), ('[A:1](-[A:2])-[A:3]-[C:7](=[O:8])-[C:9]',),
         [('CC=O', 'NC', 'CCCCCCCCCCCC'), ('O=Cc1ccccc1', 'NCCO', 'CCCCCCCCCCCCCCCC', 'OO'), ('CC(C)=O', 'NCC')]),
        (('[C:1](=[O:2])[O;D1:3]', '[N;D1:4][C:5]'), ('[A:1](=[A:2])[A:4][A:5].[A:3]',),
         [('CC(=O)O', 'NCC', 'c1ccccc1CCCCCC'), ('OC(=O)CCC(=O)O', 'NCCN'), ('CC(=O)O', 'NC', 'CCCCCCCC', 'CCCCCCCCCC')]),
        (('[C:1][Br:2]', '[O;D1:3][C:4]'), ('[A:1][A:3][A:4]', '[Br-:2]'), [('CCBr', 'OC', 'CCCCCCCCC'), ('BrCCBr', 'OCC')]),
        (('[C:1]#[N:2]',), ('[A:1](=[A:2])[O:3][C:4]',), [('CC#N', 'CCCCCCCC'), ('N#CCC#N',), ('N#CC', 'CC#N')]),
    ]
    n = 0
    for pats, prods, rsets in temps:
        new_atoms = Counter()
        pq = [smarts(x) for x in pats]
        rq = [smarts(x) for x in prods]
        named = {k for q in pq for k in q}
        for q in rq:
            for k, a in q.atoms():
                if k not in named:
                    new_atoms[a.atomic_number] += 1
        for one_shot in (True, False):
            rx = Reactor(tuple(pq), tuple(rq), one_shot=one_shot, polymerise_limit=3, fix_aromatic_rings=False)
            for rs in rsets:
                tname = f"{'.'.join(pats)}>>{'.'.join(prods)} one_shot={one_shot}"
                rp = (f"from chython import smiles, smarts\nfrom chython.reactor import Reactor\nrx = Reactor(tuple(smarts(x) for x in {pats!r}), tuple(smarts(x) for x in {prods!r}), "
                      f"one_shot={one_shot}, polymerise_limit=3, fix_aromatic_rings=False)\nfor r in rx(*[smiles(x) for x in {rs!r}]):\n    print(str(r), [list(p) for p in r.products])")

                def run(ms):
                    return list(itertools.islice(rx(*ms), 200))
                try:
                    ms = [smiles(x) for x in rs]
                    out = run(ms)
                    rev = run([smiles(x) for x in reversed(rs)])
                    ren = run([sparse_renumber(smiles(x), rng) for x in rs])
                except Exception as e:
                    ck.counterexample(f'reactor-synthetic-raises:{tname}:{rs}', f'Reactor raises {type(e).__name__} on valid reactants', {'template': tname, 'reactants': rs},
                                      f'{type(e).__name__}: {e}', 'reactions', 'no exception expected', replay_py=rp)
                    continue
                ck.count(f'search:reactor-synthetic:one_shot={one_shot}', len(out))

                def bad(key, what, obs, exp):
                    ck.counterexample(f'{key}:{tname}:{rs}', what, {'template': tname, 'reactants': rs}, obs, exp, 'read-out of the reactions', replay_py=rp)
                if not out:
                    bad('reactor-no-reaction', 'no reaction although every pattern matches a reactant', [], 'at least one reaction')
                if len({str(r) for r in out}) != len(out):
                    bad('reactor-duplicates', 'the same reaction is yielded more than once', sorted(str(r) for r in out), 'pairwise different reactions')
                key = lambda rr: sorted('.'.join(sorted(str(p) for p in r.products)) for r in rr)
                if set(key(out)) != set(key(rev)):
                    bad('reactor-order', 'product sets depend on the order of the reactants', key(rev), key(out))
                if set(key(out)) != set(key(ren)):
                    bad('reactor-numbering', 'product sets depend on the numbering of the reactants', key(ren), key(out))
                rel = Counter(a.atomic_number for m in ms for _, a in m.atoms())
                for r in out:
                    n += 1
                    ck.case(('reactor-synthetic', tname, rs, str(r)), nontrivial=True)
                    nums = [x for p in r.products for x in p]
                    if len(nums) != len(set(nums)):
                        bad('reactor-unique', 'atom numbers repeat over the products of one reaction', [list(p) for p in r.products], 'unique numbers')
                    if one_shot:
                        # the reactants that were not chosen are products, unchanged; one application adds exactly the new atoms
                        pel = Counter(a.atomic_number for p in r.products for _, a in p.atoms())
                        want = rel + new_atoms
                        if pel != want:
                            bad('reactor-balance', 'elements of the products are not those of the reactants plus the new atoms of the template', dict(pel), dict(want))
                        spect = [m for m in ms if not any(m == x for x in r.reactants[:len(pats)])]
                        for m in spect:
                            if not any(p == m and struct_sig(p)[1].__len__() == struct_sig(m)[1].__len__() for p in r.products):
                                bad('reactor-spectator', 'a molecule that no pattern matched in this reaction is missing from / changed in the products', str(r), str(m))
    ck.extra['reactor_synthetic_reactions_checked'] = n


def search_exhaustive_closure(ck):
    """one-pattern templates in exhaustive mode: the product states Reactor(one_shot=False) yields are exactly the states that
    1..polymerise_limit single-site applications reach from the reactants, whichever molecule of the state is edited.  The
    reference closure is computed with Transformer on one molecule at a time (no Reactor code involved)."""
    from chython import smiles, smarts
    from chython.reactor import Reactor, Transformer
    rng = random.Random(f'{ck.seed}:c16closure')
    cases = [
        ('[C:1][Br:2]', '[A:1][O:3]', [('CCBr', 'BrCCCBr'), ('CCBr', 'CCCBr'), ('CBr', 'CCBr', 'C'), ('BrCCBr',), ('CCBr', 'BrCC(C)Br', 'OCC')], 5),
        ('[C:1]#[N:2]', '[A:1](=[A:2])[O:3]', [('CC#N', 'N#CCC#N'), ('N#CC', 'CC#N', 'CCC#N')], 4),
        ('[C:1][O;D1:2]', '[A:1][A:2][C:3](=[O:4])[C:5]', [('CO', 'OCCO'), ('CCO', 'CO', 'OC(C)C')], 4),
        ('[C:1]=[O:2]', '[A:1]-[A:2]', [('CC=O', 'O=CCC=O', 'CCC')], 2),
    ]
    n = 0
    for pat, rep_, rsets, limit in cases:
        tr = Transformer(smarts(pat), smarts(rep_), fix_aromatic_rings=False, automorphism_filter=False)
        for rs, variant in itertools.product(rsets, range(2 if ck.tier == 'quick' else 5)):
            rx = Reactor((smarts(pat),), (smarts(rep_),), one_shot=False, polymerise_limit=limit, fix_aromatic_rings=False, automorphism_filter=False)
            ms = [smiles(x) for x in rs]
            if variant:
                ms = [sparse_renumber(m, rng) for m in ms]
                rng.shuffle(ms)
            rp = (f"from chython import smiles, smarts\nfrom chython.reactor import Reactor\nrx = Reactor((smarts({pat!r}),), (smarts({rep_!r}),), one_shot=False, "
                  f"polymerise_limit={limit}, fix_aromatic_rings=False, automorphism_filter=False)\n"
                  f"print(sorted('.'.join(sorted(str(p) for p in r.products)) for r in rx(*[smiles(x) for x in {rs!r}])))")
            def state_key(mols):
                return tuple(sorted(x for m in mols for x in rdkit_canon(m).split('.')))
            try:
                got = {state_key(r.products) for r in itertools.islice(rx(*ms), 2000)}
            except Exception as e:
                ck.counterexample(f'exhaustive-raises:{pat}>>{rep_}:{rs}', f'Reactor(one_shot=False) raises {type(e).__name__}', {'template': f'{pat}>>{rep_}', 'reactants': rs},
                                  f'{type(e).__name__}: {e}', 'reactions', 'no exception expected', replay_py=rp)
                continue
            # reference: breadth-first closure, one molecule of the state edited per step
            level = [tuple(ms)]
            want = set()
            for _ in range(limit):
                nxt = []
                for state in level:
                    for i, mol in enumerate(state):
                        for prod in tr(mol):
                            new_state = (*state[:i], prod, *state[i + 1:])
                            key = state_key(new_state)
                            if key not in want:
                                want.add(key)
                                nxt.append(new_state)
                level = nxt
            n += 1
            ck.case(('closure', pat, rep_, rs, variant), nontrivial=len(want) > 1)
            ck.count('search:exhaustive-closure:' + ('several reactive molecules' if sum(1 for m in ms if next(iter(tr(m)), None) is not None) > 1 else 'one reactive molecule'))
            if got != want:
                ck.counterexample(f'exhaustive-closure:{pat}>>{rep_}:{rs}', 'Reactor(one_shot=False) does not yield exactly the product states reachable by repeated single applications '
                                  '(every molecule of a state, reacted or not, can be edited next)', {'template': f'{pat}>>{rep_}', 'reactants': rs, 'polymerise_limit': limit},
                                  {'missing': sorted(want - got)[:10], 'unexpected': sorted(got - want)[:10]}, f'{len(want)} product states',
                                  'breadth-first closure with Transformer on one molecule at a time', replay_py=rp)
    ck.extra['exhaustive_closures_checked'] = n

PREPARED_SETS = {
    # reactants whose products must react AGAIN with a reactant of the call through ANOTHER template variant of the collection
    'amidation': [('NCc1ccc(N)cc1', 'CC(O)=O'), ('CNCCN', 'OC(=O)CC'), ('NCCN', 'CC(=O)O'), ('OC(=O)CCC(=O)O', 'NCC'), ('CNCCCN', 'OC(=O)c1ccccc1')],
    'esterification': [('OCCO', 'CC(=O)O'), ('OCC(C)O', 'CC(=O)O'), ('OC(=O)CC(=O)O', 'OC')],
    'sulfonamidation': [('NCCNC', 'CS(=O)(=O)Cl'), ('NCc1ccc(N)cc1', 'CS(Cl)(=O)=O')],
    'amine_isocyanate': [('NCCNC', 'CN=C=O'), ('NCc1ccc(N)cc1', 'CN=C=O')],
    'reductive_amination': [('NCCN', 'CC=O'), ('CNCCN', 'O=Cc1ccccc1')],
    'suzuki_miyaura': [('Brc1ccc(I)cc1', 'OB(O)c1ccccc1')],
}
# all products reachable by repeated amidation, written by hand
PREPARED_EXPECTED = {
    ('amidation', ('NCc1ccc(N)cc1', 'CC(O)=O')): ['CC(=O)NCc1ccc(N)cc1', 'CC(=O)Nc1ccc(CN)cc1', 'CC(=O)NCc1ccc(NC(C)=O)cc1'],
    ('amidation', ('CNCCN', 'OC(=O)CC')): ['CCC(=O)NCCNC', 'CCC(=O)N(C)CCN', 'CCC(=O)N(C)CCNC(=O)CC'],
}


def search_prepared_multistep(ck):
    """the built-in reaction collections (PreparedReactor.__call__) in multi-step mode (one_shot=False): the set of product
    molecules does not depend on the order or the numbering of the reactants, contains every one-shot product, and equals the
    hand-written closure where one is given"""
    from itertools import permutations
    from rdkit import Chem
    from chython import smiles
    from chython.reactor import reactions
    rng = random.Random(f'{ck.seed}:c16prep')
    n = 0

    def product_set(rx, ms, **kw):
        return {rdkit_canon(p) for r in itertools.islice(rx(*ms, **kw), 400) for p in r.products}
    for name, rsets in PREPARED_SETS.items():
        rx = getattr(reactions, name, None)
        if rx is None:
            continue
        for rs in rsets:
            rp = (f"from itertools import permutations\nfrom chython import smiles\nfrom chython.reactor import reactions\n"
                  f"for o in permutations({rs!r}):\n    print(o, sorted({{str(p) for r in reactions.{name}(*[smiles(x) for x in o], one_shot=False) for p in r.products}}))")
            res = {}
            try:
                for order in permutations(range(len(rs))):
                    res[tuple(rs[i] for i in order)] = product_set(rx, [smiles(rs[i]) for i in order], one_shot=False)
                res[tuple(rs) + ('sparse numbering',)] = product_set(rx, [sparse_renumber(smiles(x), rng) for x in rs], one_shot=False)
                one = product_set(rx, [smiles(x) for x in rs])
            except Exception as e:
                ck.counterexample(f'prepared-raises:{name}:{rs}', f'reactions.{name}(one_shot=False) raises {type(e).__name__}', {'reaction': name, 'reactants': rs},
                                  f'{type(e).__name__}: {e}', 'reactions', 'no exception expected', replay_py=rp)
                continue
            n += 1
            ck.case(('prepared', name, rs), nontrivial=True)
            ck.count(f'search:prepared-multistep:{name}', len(res))
            base = res[tuple(rs)]
            if len({frozenset(v) for v in res.values()}) != 1:
                ck.counterexample(f'prepared-order:{name}:{rs}', f'reactions.{name}(one_shot=False): the set of products depends on the order / numbering of the reactants',
                                  {'reaction': name, 'reactants': rs}, {' + '.join(map(str, k)): sorted(v) for k, v in res.items()}, 'the same set for every order', 'permuted and renumbered reactants', replay_py=rp)
            elif not one <= base:
                ck.counterexample(f'prepared-one-shot:{name}:{rs}', f'reactions.{name}: a one-shot product is missing in multi-step mode', {'reaction': name, 'reactants': rs},
                                  sorted(base), sorted(one), 'one_shot=True products', replay_py=rp)
            want = PREPARED_EXPECTED.get((name, rs))
            if want is not None:
                want = {Chem.MolToSmiles(Chem.MolFromSmiles(x)) for x in want}
                for k, v in res.items():
                    if v != want:
                        ck.counterexample(f'prepared-closure:{name}:{rs}:{k}', f'reactions.{name}(one_shot=False) does not give all products of repeated application', {'reaction': name, 'reactants': k},
                                          sorted(v), sorted(want), 'closure written by hand', replay_py=rp)
                        break
    ck.extra['prepared_multistep_sets_checked'] = n

def translator_accepts():
    """does tools/gen_reactorbody.py translate the source of this run (then coq/gen/ReactorBody.v is the current one)"""
    import os
    import tempfile
    import gen_reactorbody
    fd, tmp = tempfile.mkstemp(prefix='c16_region_', suffix='.v')
    os.close(fd)
    try:
        gen_reactorbody.main(common.REPO, tmp)
        return True
    except Exception:
        return False
    finally:
        try:
            os.remove(tmp)
        except OSError:
            pass


def run(ck):
    ck.trusted += ['correspondence runner harness/checks/C16.py + harness/coqcases.py + harness/coqmol.py', 'CachedMethods shim harness/boot.py',
                   'CPython 3.12.1', 'RDKit 2026.3 (search only: GetMolFrags as second component oracle)']
    ck.assumptions += [
        'coq/gen/ReactorBody.v = the body of _get_deleted and the four structural loops of _patcher (base.py lines 43-73, 89-169) TRANSLATED from the source of this run '
        '(tools/gen_reactorbody.py) and proved equal to / in agreement with coq/model/Reactor.v for all inputs (C16_translated_*, C16_patcher_is_translated_text); '
        'coq/gen/ReactorInit.v = the _to_delete expression, the constructor wiring Transformer / Reactor -> BaseReactor -> tail of _patcher, fix_mapping_overlap and the collision remap of '
        '_single_stage TRANSLATED from the source of this run (tools/gen_reactorinit.py; C16_translated_to_delete_*, C16_*_wiring, C16_translated_fix_mapping_overlap_is_model, C16_translated_stage_remap_is_model); '
        'the vocabulary of the translation (sets as lists, copy() = plain_atom / copy_atom / plain, element constructor, truthy_get, skipped coordinates) is tied by the state-level cases; '
        'coq/model/Reactor.v is otherwise a hand-written restatement of BaseReactor.__init__ (_to_delete), _get_deleted, the structural part of _patcher and fix_mapping_overlap; '
        'tie = correspondence on every graph with <= 4 atoms x matched set x to-delete subset, random cyclic graphs, corpus molecules, '
        'template matches and malformed mappings',
        'the iteration order of the Python set to_delete is an input of the model (the runner passes the observed order); the theorems '
        'hold for every order (C16_get_deleted_order_independent)',
        'the local sets delete / keep of _get_deleted are read from the frame of the real call with sys.settrace and compared with the model',
        'stereo translation, calc_implicit, kekule/thiele inside _patcher and Reactor.__call__ product assembly are NOT modelled: search only',
        f'_get_deleted is compared with the model function `{MODEL_FUNCTION}` (the code after fix: b90326c, for which get_deleted_spec is PROVED)']
    ck.extra['rule'] = ('correspondence: (graph, matched atoms, to-delete subset) exhaustively for <= 4 atoms, random graphs with 5..9 atoms incl. masked atoms, '
                        'bridged/corpus molecules with random connected matched sets; non-trivial = the call returned more atoms than the matched-and-unkept ones '
                        '(a fragment was deleted). to_delete: every template the check builds + every built-in one. patcher: synthetic templates covering each branch '
                        '(incl. charge / radical / isotope re-typing) + every deprotection template x molecules x matches + multi-reactant unions; '
                        'non-trivial = the call returned a product. search: union-find / RDKit component oracle, template read-out, untouched stereocentres, identity '
                        'templates, valence, renumbering and reactant order, synthetic Reactors with spectators in both modes; every case distinct')
    import time
    steps = {}

    def timed(name, f):
        t0 = time.time()
        r = f(ck)
        steps[name] = round(time.time() - t0, 1)
        return r
    # generated files C16 depends on: the tetrahedron / alkene translation tables (through Proofs.StereoProofs, C12) and
    # Gen.ReactorShape = digests + branch conditions of every reactor function the hand-written models mirror (own translator
    # tools/gen_reactorshape.py; C16_reactor_shape_unchanged / C16_reactor_conditions_unchanged stop compiling on any edit)
    # Gen.ReactorBody = the body of _get_deleted and the two structure loops of _patcher, translated statement by statement
    # (tools/gen_reactorbody.py); C16_translated_* prove them equal to the hand-written model
    proved = timed('proof steps', lambda c: common.standard_proof_steps(c, translators=['stereo', 'reactorshape', 'reactorbody', 'reactorinit']))
    REGION_OK[0] = translator_accepts()
    tied = timed('corr to_delete', corr_to_delete)
    tied = timed('corr get_deleted', corr_get_deleted) and tied
    tied = timed('corr patcher', corr_patcher) and tied
    tied = timed('corr overlap', corr_overlap) and tied
    tied = timed('corr single_stage remap', corr_stage) and tied
    tied = timed('corr loops', corr_loops) and tied
    tied = timed('corr queue', corr_queue) and tied
    tied = timed('corr prepared', corr_prepared) and tied
    timed('search get_deleted 5-atom graphs', search_deleted_exhaustive)
    timed('search templates', search_templates)
    timed('search identity', search_identity)
    tied = timed('search equivariance + rename tie', equivariance_step) and tied
    timed('search reactor', search_reactor)
    timed('search reactor synthetic', search_reactor_synthetic)
    timed('search exhaustive closure', search_exhaustive_closure)
    timed('search prepared multistep', search_prepared_multistep)
    ck.extra['step_seconds'] = steps
    ck.extra['proved'] = proved
    ck.extra['tied'] = tied
