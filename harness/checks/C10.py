"""C10 binary pack format.  Model: coq/model/Pack.v (+ F16.v).  The .pyx codecs are run through the fail-closed
transpiler (no Cython here) and injected, so the real MoleculeContainer/ReactionContainer API runs end to end."""
import csv
import io
import itertools
import os
import random
import zipfile

import boot  # noqa
import common
import coqcases
import corpus
import coqmol
from coqfmt import zraw, b, lst, opt, tup

replay = common.generic_replay

REPLAY_PRE = 'import pyxinject; pyxinject.inject(); from chython import smiles, MoleculeContainer, ReactionContainer; '


# ---------------------------------------------------------------------------------------------------------
# printing the inputs of the model

def mstr(m):
    """str(m), or a spelling of atoms and bonds when the SMILES writer raises (it does, KeyError in the stereo code, for some
    molecules with two stereogenic double bonds on one atom: not this property)"""
    try:
        return str(m)
    except Exception:
        return '~' + '.'.join(f'{a.atomic_symbol}{n}' for n, a in m._atoms.items()) + '|' + \
               ','.join(f'{n}{"-=#:~~~~"[int(bd) - 1]}{k}{"" if bd.stereo is None else "tf"[bd.stereo]}' for n, k, bd in m.bonds())

def pmol_term(m, packed):
    """what pack reads from the molecule; coordinate bytes are copied from the real pack (F16 is tied separately)"""
    atoms = []
    for i, (n, a) in enumerate(m._atoms.items()):
        xy = list(packed[4 + 9 * i + 4: 4 + 9 * i + 8])
        nb = lst([tup(zraw(k), tup(zraw(int(bd)), opt(bd.stereo, b))) for k, bd in m._bonds[n].items()])
        atoms.append(f'(mkPAtom {zraw(n)} {zraw(a.atomic_number)} {opt(a._isotope, zraw)} {opt(a._stereo, b)} '
                     f'{opt(a._implicit_hydrogens, zraw)} {zraw(a._charge)} {b(a._is_radical)} {lst(xy, zraw)} {nb})')
    term = lst([tup(zraw(k), tup(zraw(v[0]), zraw(v[1]))) for k, v in m._stereo_cis_trans_terminals.items()])
    return f'(mkPMol {lst(atoms)} {zraw(m._cis_trans_count)} {term})'


def unpacked_term(mol, cis_trans, size, data):
    """the raw result of the .pyx unpack (before stereo re-attachment) as the model's `unpacked` record"""
    atoms = []
    for i, (n, a) in enumerate(mol._atoms.items()):
        xy = list(data[4 + 9 * i + 4: 4 + 9 * i + 8])
        ngb = data[4 + 9 * i + 1] & 0x0f
        atoms.append(f'(mkUAtom {zraw(n)} {zraw(ngb)} {zraw(a.atomic_number)} {opt(a._isotope, zraw)} {opt(a._stereo, b)} '
                     f'{opt(a._implicit_hydrogens, zraw)} {zraw(a._charge)} {b(a._is_radical)} {lst(xy, zraw)})')
    adj = lst([tup(zraw(n), lst([tup(zraw(k), zraw(bd._order)) for k, bd in nb.items()])) for n, nb in mol._bonds.items()])
    ct = lst([tup(zraw(x), zraw(y), b(s)) for x, y, s in cis_trans])
    return f'(mkUnpacked {lst(atoms)} {adj} {ct} {zraw(size)})'


EXTRA = '''Definition uatom_eqb (a c : uatom) : bool :=
  (ua_n a =? ua_n c) && (ua_ngb a =? ua_ngb c) && (ua_an a =? ua_an c) && option_eqb Z.eqb (ua_iso a) (ua_iso c) &&
  option_eqb Bool.eqb (ua_stereo a) (ua_stereo c) && option_eqb Z.eqb (ua_h a) (ua_h c) && (ua_chg a =? ua_chg c) &&
  Bool.eqb (ua_rad a) (ua_rad c) && list_eqb Z.eqb (ua_xy a) (ua_xy c).
Definition pair_eqb {A B} (ea : A -> A -> bool) (eb : B -> B -> bool) (x y : A * B) : bool := ea (fst x) (fst y) && eb (snd x) (snd y).
Definition unpacked_eqb (u v : unpacked) : bool :=
  list_eqb uatom_eqb (up_atoms u) (up_atoms v) &&
  list_eqb (pair_eqb Z.eqb (list_eqb (pair_eqb Z.eqb Z.eqb))) (up_adj u) (up_adj v) &&
  list_eqb (pair_eqb (pair_eqb Z.eqb Z.eqb) Bool.eqb) (up_ct u) (up_ct v) && (up_size u =? up_size v).
Definition tz_eqb := pair_eqb Z.eqb (pair_eqb Z.eqb Z.eqb).
Definition ladj_eqb (x y : ladj) : bool :=
  list_eqb (pair_eqb Z.eqb (list_eqb (pair_eqb Z.eqb (pair_eqb Z.eqb (option_eqb Bool.eqb))))) x y.
Definition api_eqb (x y : list uatom * ladj * Z) : bool :=
  list_eqb uatom_eqb (fst (fst x)) (fst (fst y)) && ladj_eqb (snd (fst x)) (snd (fst y)) && (snd x =? snd y).
Definition dicts_ok (paths : list (list Z)) (atoms : list patom) (t c : list (Z * (Z * Z))) (cnt : Z) : bool :=
  list_eqb tz_eqb (terminals_of paths) t && list_eqb tz_eqb (centers_of paths) c && (cis_trans_count atoms =? cnt).
Definition lens_eqb (x y : list Z * list Z * list Z) : bool :=
  list_eqb Z.eqb (fst (fst x)) (fst (fst y)) && list_eqb Z.eqb (snd (fst x)) (snd (fst y)) && list_eqb Z.eqb (snd x) (snd y).
'''


# ---------------------------------------------------------------------------------------------------------
# molecule generators

def boundary_molecules(rng, n_random, tier='quick'):
    from chython import smiles, MoleculeContainer
    from chython.periodictable import Element
    out = []
    seeds = ['C', 'CC', 'CCO', 'C[C@H](O)/C=C/C(=O)[O-]', 'c1ccccc1', 'C1CC1C', 'FC(Cl)=[C@]=C(Br)I', '[13CH4]', '[NH4+]', '[CH3]',
             'C[Fe](C)(C)(C)(C)C', 'F/C=C/C=C\\Cl', 'C#N', '[Na+].[Cl-]', 'C1=CC=CC=C1', 'N[C@@H](C)C(O)=O', 'CC(C)(C)C(C)(C)C',
             'O=S(=O)(O)O', '[2H]O[2H]', 'C[N+](C)(C)C', '[O-][N+](=O)c1ccccc1', 'F/C=C=C=C/Cl', 'CC[C@](C)(N)O']
    for s in seeds:
        out.append(('seed', smiles(s)))
    # numbers around byte / 12-bit borders, shuffled insertion order
    for s in ('CCO', 'C[C@H](O)/C=C/C(=O)[O-]', 'c1ccncc1'):
        m = smiles(s)
        for base in (15, 16, 250, 255, 256, 4000, 4095 - len(m)):
            nums = list(m._atoms)
            mm = m.copy()
            mm.remap({n: base + i for i, n in enumerate(rng.sample(nums, len(nums)), 1)})
            out.append(('numbers', mm))
    # every bond count mod 8 (order-buffer states) with mixed orders incl. 8
    for k in range(1, 19):
        m = MoleculeContainer()
        for i in range(k + 1):
            m.add_atom('C', _skip_calculation=True)
        for i in range(1, k + 1):
            m.add_bond(i, i + 1, rng.choice([1, 2, 3, 4, 8, 1, 1]), _skip_calculation=True)
        m.fix_structure()
        out.append(('chain', m))
    # two stereogenic double bonds sharing an atom (hypervalent S / P), every insertion order of the shared atom; cumulenes
    # generated: double bonds around S / P / Se / N / As centres and inside conjugated or cumulated chains, random marks
    gen = []
    templates = ['F%C(Cl)=S(%C)(C)=C(%F)Cl', 'C%N=S(%C)(C)=NC', 'C%N=S=N%C', 'C%N=S(%C)(C)=O', 'F%C(Cl)=P(%C)(C)C', 'F%C(Cl)=P(%C)=C(%F)Cl',
                 'F%C(Cl)=[Se](%C)(C)=C(%F)Cl', 'C%C=C%C=C%C', 'F%C(Cl)=C=C(%F)Cl', 'F%C(Cl)=C=C=C(%F)Cl', 'C%C(F)=N%N=C(%C)F', 'C%C=[N+](%C)[O-]',
                 'F%C(Cl)=C(%F)C(%F)=C(%Cl)F', 'C%N=C=N%C', 'C%C(F)=C(%C)S(=O)(=O)C', 'O=S(=C(%F)Cl)=C(%F)Cl', 'C%S(C)(=N%C)=N%C', 'C%P(C)(=C(%F)Cl)=C(%F)Cl',
                 'F%C(Cl)=[As](%C)(C)C', 'C%C=S(=O)%C', 'C%N=S(=O)=N%C', 'F%C(Cl)=S(%C)=C(%F)Cl', 'C%C(C)=S(%C)(%C)=C(C)%C', 'S(%C)(C)(=C(%F)Cl)=C(%F)Cl',
                 'F%C(Cl)=C=C=C=C=C(%F)Cl', 'C%C(F)=C(%Cl)%C(F)=C(%C)Cl', 'C%N=N%C', 'C%C(F)=N%O']
    for t in templates:
        for _ in range(1 if tier == 'quick' else 6):
            gen.append(''.join(rng.choice(['/', '\\', '']) if ch == '%' else ch for ch in t))
    for sm in gen:
        try:
            m = smiles(sm)
        except Exception:
            continue
        out.append(('ct-generated', m))
    for sm in ('C/S(C)(=C(/F)Cl)=C(F)Cl', 'C/N=S(/C)(C)=NC', 'C/N=S=N/C', 'C/N=S(/C)(C)=O', 'C/S(C)(=C(F)Cl)=C(/F)Cl', 'S(/C)(C)(=C(/F)Cl)=C(F)Cl', 'F/C(Cl)=S(/C)(C)=C(F)Cl', 'C/S(C)(=C(/F)Cl)=C(\\F)Cl',
               'F/C(Cl)=S(/C)(=O)C', 'F/C(Cl)=P(/C)(C)C', 'F/C(Cl)=C=C=C(/F)Cl', 'F/C(Cl)=C=C=C=C=C(/F)Cl', 'C/C=C/C=C\\C=C/C'):
        try:
            m = smiles(sm)
        except Exception:
            continue
        out.append(('ct-shared', m))
        for _ in range(1 if tier == 'quick' else 4):
            out.append(('ct-shared', corpus.renumber(m, rng)))
    # ATOM STEREO, every kind x BOTH signs: tetrahedral centres and allene centres (the 4 bit field has a tetrahedron pair and an
    # allene pair), every combination of marks on templates with one or two centres, a renumbered copy of each (renumbering
    # changes the neighbour order the sign refers to), and the mirror image (every atom label inverted) of each
    st_templates = ['FC(Cl)=[C%]=C(Br)I', 'CC=[C%]=CC', 'C[C%H](N)O', '[C%H](F)(Cl)Br', 'C[C%H](F)C=[C%]=CC', 'N[C%](C)(F)C=[C%]=C(Cl)Br',
                    'CC=[C%]=C(C)C(C)=[C%]=CC', 'C[C%H](N)[C%H](O)F', 'C[N+%](CC)(CCC)CCCC', 'C[C%]1(F)CC1(Cl)Br', 'OC=[C%]=C/C=C/[C%H](C)N']
    for t in st_templates:
        k = t.count('%')
        for marks in itertools.product(('@', '@@'), repeat=k):
            it = iter(marks)
            sm = ''.join(next(it) if ch == '%' else ch for ch in t)
            try:
                m = smiles(sm)
            except Exception:
                continue
            if not any(a._stereo is not None for a in m._atoms.values()):
                continue
            out.append(('atom-stereo', m))
            if tier != 'quick' or marks == ('@@',) * k:
                out.append(('atom-stereo', corpus.renumber(m, rng)))
    for kind, m in list(out):
        if kind in ('seed', 'ct-generated') and any(a._stereo is not None for a in m._atoms.values()):
            mm = m.copy()
            for a in mm._atoms.values():
                if a._stereo is not None:
                    a._stereo = not a._stereo
            mm.flush_cache()
            out.append(('atom-stereo', mm))
    # version 0 order block = groups of five bonds: bond counts 0, 5, 10, 15 (and 4, 6), with and without cis/trans labels
    for sm in ('C', '[Na+]', 'CCCCCC', 'C/C=C/CCC', 'C/C=C\\C=C/C', 'CCCCCCCCCCC', 'C/C=C/CCCCCCCC', 'CC(C)(C)c1ccccc1', 'C/C=C/c1ccccc1CC', 'CCCCCCCCCCCCCCCC',
               'CCCCC', 'C/C=C/CCCC', 'O.O'):
        out.append(('v0-groups', smiles(sm)))
    # EXHAUSTIVE small space: every labelled simple graph on 2..3 atoms (quick: orders 1, 2, 8) resp. 2..4 atoms (thorough:
    # all five orders up to 3 atoms, orders 1, 2 on 4 atoms), bonds inserted in a shuffled order, hetero atom at position 1
    def small_space(nmax, orders_by_n):
        for na in range(2, nmax + 1):
            pairs = list(itertools.combinations(range(1, na + 1), 2))
            for mask in range(1, 1 << len(pairs)):
                edges = [pq for i, pq in enumerate(pairs) if mask >> i & 1]
                for ords in itertools.product(orders_by_n[na], repeat=len(edges)):
                    mm = MoleculeContainer()
                    for i in range(na):
                        mm.add_atom('N' if i == 0 else 'C', _skip_calculation=True)
                    eo = list(zip(edges, ords))
                    rng.shuffle(eo)
                    for (p1, q1), o in eo:
                        if rng.random() < .5:
                            p1, q1 = q1, p1
                        mm.add_bond(p1, q1, o, _skip_calculation=True)
                    try:
                        mm.fix_structure()
                        mstr(mm)
                    except Exception:
                        continue
                    yield mm
    if tier == 'quick':
        out.extend(('small', mm) for mm in small_space(3, {2: (1, 2, 3, 4, 8), 3: (1, 2, 8)}))
    else:
        out.extend(('small', mm) for mm in small_space(4, {2: (1, 2, 3, 4, 8), 3: (1, 2, 3, 4, 8), 4: (1, 2)}))
    # atom count above 255: the 12 bit count straddles two header bytes
    m = MoleculeContainer()
    for i in range(300):
        m.add_atom('C', _skip_calculation=True)
    for i in range(1, 300):
        m.add_bond(i, i + 1, 1, _skip_calculation=True)
    m.fix_structure()
    out.append(('chain300', m))
    # high degree: 15 neighbours
    m = MoleculeContainer()
    m.add_atom('U', _skip_calculation=True)
    for i in range(15):
        m.add_atom('F', _skip_calculation=True)
        m.add_bond(1, i + 2, 1, _skip_calculation=True)
    m.fix_structure()
    out.append(('degree15', m))
    # every element x boundary isotopes x charge x H
    subs = Element.__subclasses__()
    for c in subs:
        e = c()
        isos = sorted(e.isotopes_distribution)
        for iso in {isos[0], isos[-1], None}:
            m = MoleculeContainer()
            m.add_atom(c(iso, charge=rng.randint(-4, 4), is_radical=rng.random() < .3), _skip_calculation=True)
            m.fix_structure()
            h = rng.choice([None, 0, 1, 2, 3, 4, 5, 6])
            m._atoms[1]._implicit_hydrogens = h
            m.flush_cache()
            out.append(('element', m))
    pool = corpus.sample(corpus.lipo(), n_random, rng.random(), 'c10')
    for s in pool:
        m = smiles(s)
        if rng.random() < .5:
            m = corpus.renumber(m, rng)
        out.append(('corpus', m))
    return out


def corr(ck, unpack_mod, mols):
    from chython import MoleculeContainer
    cases = []
    meta = []
    for kind, m in mols:
        try:
            data = m.pack(compressed=False)
        except Exception as e:
            ck.counterexample(f'pack-raises:{kind}:{mstr(m)}', f'pack raises {type(e).__name__} on a molecule within the format limits',
                              {'smiles': mstr(m), 'numbers': list(m._atoms)}, repr(e), 'bytes', 'format limits',
                              replay_py=REPLAY_PRE + f'print(smiles({mstr(m)!r}).pack(compressed=False))')
            continue
        ck.case((kind, mstr(m), tuple(m._atoms)), nontrivial=len(m) > 1)
        ck.count('mol:' + kind)
        ck.count(f'bonds_mod8={m.bonds_count % 8}')
        ck.count(f'cis_trans={min(m._cis_trans_count, 3)}')
        for n, a in m._atoms.items():
            if a._stereo is not None:
                ck.count(f'atom_stereo:{"allene" if len(m._bonds[n]) == 2 else "tetrahedron"}:{a._stereo}')
        pm = pmol_term(m, data)
        cases.append(f'pyres_eqb (list_eqb Z.eqb) (pack {pm}) (Ok {lst(list(data), zraw)})')
        meta.append(('pack', kind, mstr(m)))
        cases.append(f'(pack_size {pm} =? {len(data)})')
        meta.append(('pack_size', kind, mstr(m)))
        # the declarative bit-field layout (PackSpec.layout_v2), evaluated, gives the real bytes
        cases.append(f'list_eqb Z.eqb (bytes_of_bits (layout_v2 {pm})) {lst(list(data), zraw)}')
        meta.append(('layout_v2', kind, mstr(m)))
        # the hypothesis of the round-trip theorems holds for the real molecule
        cases.append(f'pack_ok {pm}')
        meta.append(('pack_ok', kind, mstr(m)))
        mol2, ct2, size2 = unpack_mod.unpack(data)
        cases.append(f'pyres_eqb unpacked_eqb (unpack {lst(list(data), zraw)}) (Ok {unpacked_term(mol2, ct2, size2, data)})')
        meta.append(('unpack', kind, mstr(m)))
        cases.append(f'pyres_eqb Z.eqb (mol_pack_len {lst(list(data), zraw)}) (Ok {MoleculeContainer.pack_len(data, compressed=False)})')
        meta.append(('pack_len', kind, mstr(m)))
        # version 0 (no writer in the repository): the bytes of the declarative layout_v0 == the independent Python
        # version 0 writer, and the real decoder on them == the model
        if kind != 'element' or len(cases) % 5 == 0:
            d0 = layout_oracle(m, version=0, terminals_from_dict=True)
            if d0 is not None:
                ck.count('mol:v0')
                cases.append(f'list_eqb Z.eqb (bytes_of_bits (layout_v0 {pm})) {lst(list(d0), zraw)}')
                meta.append(('layout_v0', kind, mstr(m)))
                try:
                    mol0, ct0, size0 = unpack_mod.unpack(d0)
                    exp0 = f'Ok {unpacked_term(mol0, ct0, size0, d0)}'
                except (IndexError, KeyError) as e:
                    exp0 = f'Err {type(e).__name__}'
                except Exception as e:
                    # the decoder leaves its buffers (transpiler: RuntimeError) on a pack the independent writer produced from
                    # a molecule within the limits: the API level oracle reports the concrete input
                    ck.count('mol:v0-decoder-raises')
                    check_molecule(ck, kind, m, tag='-directed')
                    continue
                cases.append(f'pyres_eqb unpacked_eqb (unpack {lst(list(d0), zraw)}) ({exp0})')
                meta.append(('unpack_v0', kind, mstr(m)))
    ck.sample({'model_call': cases[0][:300], 'of': meta[0]})
    ok, failing, log = coqcases.run_cases('c10', 'Pack PackSpec PackSpecV0 PackStereo', cases, extra=EXTRA, shard=150)
    ck.oblige('correspondence: transpiled _pack_v2.pyx/_unpack_v0v2.pyx == Coq model (byte exact)', ok and not failing, 'correspondence',
              log or str([meta[i] for i in failing[:5]]))
    ck.extra['correspondence_cases'] = ck.extra.get('correspondence_cases', 0) + len(cases)
    if not ok or failing:
        # directed search: the property-level oracles (round trip, published layout, pack_len) on the disagreeing
        # molecules and on renumbered / re-ordered variants of them, before falling back to `unchecked`
        import random as _r
        rng = _r.Random(ck.seed + 1)
        bad = {(meta[i][1], meta[i][2]) for i in failing} if failing else {(k, mstr(m)) for k, m in mols}
        n = 0
        for kind, m in mols:
            if (kind, mstr(m)) not in bad or n >= 60:
                continue
            n += 1
            check_molecule(ck, kind, m, tag='-directed')
            for _ in range(3):
                try:
                    check_molecule(ck, kind + '-renumbered', corpus.renumber(m, rng), tag='-directed')
                except Exception:
                    break
        ck.unchecked('correspondence Pack model vs .pyx codecs', log[-1500:], [repr(meta[i]) for i in failing[:20]])
    return ok and not failing


def only_labels_moved(m, u):
    """the known finding: nothing but the cis/trans labels differs and two stereogenic double bonds share an atom"""
    strip = lambda o: (o[0], [(a, [(k, od) for k, od, _ in nb]) for a, nb in o[1]])
    return observe(u) != observe(m) and strip(observe(u)) == strip(observe(m)) and shares_atom(m)


def report_label_move(ck, m, u, how):
    ck.counterexample('cis-trans-shared-atom', f'{how} moves a cis/trans label to another double bond (two stereogenic double bonds share an atom)',
                      {'numbers': list(m._atoms), 'labels': labels(m), 'paths': [list(p) for p in m.stereogenic_cumulenes]}, labels(u), labels(m),
                      'API round trip', replay_py=REPLAY_PRE + "m=smiles('C/S(C)(=C(/F)Cl)=C(F)Cl'); u=MoleculeContainer.unpack(m.pack()); "
                      "print([(n,k,b.stereo) for n,nb in m._bonds.items() for k,b in nb.items() if b.stereo is not None], [(n,k,b.stereo) for n,nb in u._bonds.items() for k,b in nb.items() if b.stereo is not None])")


def labels(m):
    return sorted((n, k, bd.stereo) for n, nb in m._bonds.items() for k, bd in nb.items() if bd.stereo is not None)


def shares_atom(m):
    """two even stereogenic cumulene paths share an atom (the atom-keyed terminals / centers dicts then lose an entry)"""
    seen = set()
    for path in m.stereogenic_cumulenes:
        if len(path) % 2:
            continue
        i = len(path) // 2
        keys = {path[0], path[-1], path[i], path[i - 1]}
        if keys & seen:
            return True
        seen |= keys
    return False


def api_term(mol, size, data):
    """result of MoleculeContainer.unpack as the model's (atoms, labelled adjacency, size)"""
    atoms = []
    for i, (n, a) in enumerate(mol._atoms.items()):
        xy = list(data[4 + 9 * i + 4: 4 + 9 * i + 8])
        ngb = data[4 + 9 * i + 1] & 0x0f
        atoms.append(f'(mkUAtom {zraw(n)} {zraw(ngb)} {zraw(a.atomic_number)} {opt(a._isotope, zraw)} {opt(a._stereo, b)} '
                     f'{opt(a._implicit_hydrogens, zraw)} {zraw(a._charge)} {b(a._is_radical)} {lst(xy, zraw)})')
    adj = lst([tup(zraw(n), lst([tup(zraw(k), tup(zraw(bd._order), opt(bd._stereo, b))) for k, bd in nb.items()])) for n, nb in mol._bonds.items()])
    return f'({lst(atoms)}, {adj}, {zraw(size)})'


def corr_api(ck, mols):
    """the Python side around the codecs (model: PackStereo): the terminals / centers dicts and the count derived from
    the stereogenic cumulene paths, the hypotheses of the API level round-trip theorem evaluated on the real molecule,
    and MoleculeContainer.unpack (decode + re-attachment of the labels) against api_unpack"""
    from chython import MoleculeContainer
    cases, meta = [], []
    paths_changed = []
    shared = []
    for kind, m in mols:
        if kind == 'element' and len(cases) % 7:
            continue
        data = bytes(m.pack(compressed=False))
        pm = pmol_term(m, data)
        paths = [list(p) for p in m.stereogenic_cumulenes]
        pt = lst([lst(p, zraw) for p in paths])
        dl = lambda d: lst([tup(zraw(k), tup(zraw(v[0]), zraw(v[1]))) for k, v in d.items()])
        ck.case(('api', kind, mstr(m), tuple(m._atoms)), nontrivial=bool(paths))
        ck.count(f'api:even_paths={min(3, sum(len(p) % 2 == 0 for p in paths))}')
        cases.append(f'dicts_ok {pt} (pm_atoms {pm}) {dl(m._stereo_cis_trans_terminals)} {dl(m._stereo_cis_trans_centers)} {m._cis_trans_count}')
        meta.append(('dicts', kind, mstr(m)))
        u, size = MoleculeContainer.unpack(data, compressed=False, _return_pack_length=True)
        upaths = [list(p) for p in u.stereogenic_cumulenes]
        if upaths != paths:
            paths_changed.append((kind, mstr(m)))
        cases.append(f'pyres_eqb api_eqb (api_unpack {lst([lst(p, zraw) for p in upaths])} {lst(list(data), zraw)}) (Ok {api_term(u, size, data)})')
        meta.append(('api_unpack', kind, mstr(m)))
        # the theorem as a test: hypotheses true on the real molecule -> the real API round trip keeps the labels
        same = labels(u) == labels(m)
        ck.count('api:labelled' if labels(m) else 'api:unlabelled')
        ck.count('api:shares_atom' if shares_atom(m) else 'api:disjoint_paths')
        cases.append(f'implb (pack_ok (api_pmol (pm_atoms {pm}) {pt}) && labels_sym_b (pm_atoms {pm}) && ct_consistent_b (pm_atoms {pm}) {pt}) {b(same)}')
        meta.append(('api_theorem_instance', kind, mstr(m)))
        # the hypotheses of C10_api_roundtrip hold on EVERY input: symmetric labels, registered paths never share an atom
        # (registry invariant since fix 2e29c31), every labelled bond is the central bond of a registered path
        cases.append(f'labels_sym_b (pm_atoms {pm}) && paths_disjoint_b {pt} && labelled_registered_b (pm_atoms {pm}) {pt} && ct_consistent_b (pm_atoms {pm}) {pt}')
        meta.append(('api_hypotheses', kind, mstr(m)))
        if shares_atom(m):
            shared.append((kind, mstr(m)))
    # tie of the registry model of property C12 (Model.StereoRegistry) to the path list this model takes as input
    # (C10_api_roundtrip_registry): the same real molecule printed as Graph.mol and as the packer's record, well formed,
    # and the key list of stereogenic_cumulenes computed by the registry model == the real one
    gcases, gmeta = [], []
    for kind, m in mols:
        if kind == 'element' and len(gcases) % 7:
            continue
        data = bytes(m.pack(compressed=False))
        paths = [list(p) for p in m.stereogenic_cumulenes]
        gcases.append(f'reg_tie {coqmol.mol_term(m)} (pm_atoms {pmol_term(m, data)}) {lst([lst(p, zraw) for p in paths])}')
        gmeta.append(('registry_tie', kind, mstr(m)))
    gextra = '''From Model Require Import Graph StereoRegistry.
Definition patom_bonds (nb : list (Z * bond)) : list nbr := map (fun mb => (fst mb, (b_ord (snd mb), b_stereo (snd mb)))) nb.
Definition nbr_eqb (x y : nbr) : bool :=
  (fst x =? fst y) && (fst (snd x) =? fst (snd y)) && option_eqb Bool.eqb (snd (snd x)) (snd (snd y)).
Definition same_molecule (g : mol) (atoms : list patom) : bool :=
  list_eqb (fun x y => (fst (fst x) =? fst (fst y)) && (snd (fst x) =? snd (fst y)) && list_eqb nbr_eqb (snd x) (snd y))
           (map (fun na => (fst na, a_num (snd na), patom_bonds (nbrs g (fst na)))) (m_atoms g))
           (map (fun a => (pa_n a, pa_an a, pa_nbrs a)) atoms).
Definition reg_tie (g : mol) (atoms : list patom) (paths : list (list Z)) : bool :=
  wf_mol g && same_molecule g atoms &&
  match cumulenes el_double g with
  | Ok ps => list_eqb (list_eqb Z.eqb) (map fst (sg_cumulenes_of el_single g ps)) paths
  | Err _ => false
  end.
'''
    gok, gfailing, glog = coqcases.run_cases('c10g', 'Pack PackSpec PackStereo PackStereoSpec', gcases, extra=gextra, shard=100)
    ck.oblige('correspondence: registry model (C12 StereoRegistry) computes the path list handed to the PackStereo model, on the same well-formed molecule', gok and not gfailing,
              'correspondence', glog or str([gmeta[i] for i in gfailing[:5]]))
    ck.extra['correspondence_cases'] = ck.extra.get('correspondence_cases', 0) + len(gcases)
    if not gok or gfailing:
        gbad = {(gmeta[i][1], gmeta[i][2]) for i in gfailing}
        for kind, m in mols:
            if (kind, mstr(m)) in gbad:
                check_molecule(ck, kind, m, tag='-directed')
        ck.unchecked('tie of the registry model to the path list of the PackStereo model', glog[-1500:], [repr(gmeta[i]) for i in gfailing[:20]])
    # MoleculeContainer.pack / unpack on ONE Graph.mol (Model.PackMol, C10_mc_roundtrip): the record read by the packer and
    # the registry are computed inside the model; bytes, decoded molecule (incl. labels), coordinate bytes, consumed
    # length and the precondition mc_ok are compared / evaluated on every input
    hcases, hmeta = [], []
    for kind, m in mols:
        if kind == 'element' and len(hcases) % 7:
            continue
        data = bytes(m.pack(compressed=False))
        xyd = lst([tup(zraw(n), lst(list(data[4 + 9 * i + 4: 4 + 9 * i + 8]), zraw)) for i, n in enumerate(m._atoms)])
        gt = coqmol.mol_term(m)
        hcases.append(f'mc_pack_is {gt} {xyd} {lst(list(data), zraw)}')
        hmeta.append(('mc_pack', kind, mstr(m)))
        u, size = MoleculeContainer.unpack(data, compressed=False, _return_pack_length=True)
        hcases.append(f'mc_unpack_is {lst(list(data), zraw)} {coqmol.mol_term(u)} {xyd} {size}')
        hmeta.append(('mc_unpack', kind, mstr(m)))
    hextra = '''Definition xy_of (d : list (Z * list Z)) (n : Z) : list Z := match zget d n with Some l => l | None => nil end.
Definition mc_pack_is (g : mol) (d : list (Z * list Z)) (bytes : list Z) : bool :=
  mc_ok g (xy_of d) && pyres_eqb (list_eqb Z.eqb) (mc_pack g (xy_of d)) (Ok bytes).
Definition mc_unpack_is (data : list Z) (g : mol) (d : list (Z * list Z)) (size : Z) : bool :=
  match mc_unpack data with
  | Ok (g', xy, sz) => mol_eqb g' g && list_eqb (list_eqb Z.eqb) xy (map snd d) && (sz =? size)
  | Err _ => false
  end.
'''
    hok, hfailing, hlog = coqcases.run_cases('c10h', 'Graph StereoRegistry Pack PackSpec PackApi PackStereo PackStereoSpec PackMol', hcases, extra=hextra, shard=100)
    ck.oblige('correspondence: MoleculeContainer.pack / unpack on one Graph.mol (registry computed in the model, decoded molecule compared as a whole) == Coq model PackMol; mc_ok holds on every input',
              hok and not hfailing, 'correspondence', hlog or str([hmeta[i] for i in hfailing[:5]]))
    ck.extra['correspondence_cases'] = ck.extra.get('correspondence_cases', 0) + len(hcases)
    if not hok or hfailing:
        hbad = {(hmeta[i][1], hmeta[i][2]) for i in hfailing}
        for kind, m in mols:
            if (kind, mstr(m)) in hbad:
                check_molecule(ck, kind, m, tag='-directed')
        ck.unchecked('correspondence PackMol model vs MoleculeContainer.pack/unpack', hlog[-1500:], [repr(hmeta[i]) for i in hfailing[:20]])
    ok, failing, log = coqcases.run_cases('c10a', 'Pack PackSpec PackStereo PackStereoSpec', cases, extra=EXTRA, shard=150)
    ck.oblige('correspondence: terminals/centers dicts, _cis_trans_count, MoleculeContainer.unpack label re-attachment == Coq model (PackStereo)', ok and not failing,
              'correspondence', log or str([meta[i] for i in failing[:5]]))
    ck.oblige('assumption of the API level theorem: the stereogenic cumulene paths of the unpacked molecule are those of the original', not paths_changed,
              'correspondence', str(paths_changed[:5]))
    ck.oblige('registry invariant: registered cis/trans paths never share an atom (every correspondence input)', not shared, 'correspondence', str(shared[:5]))
    if shared:
        for kind, m in mols:
            if (kind, mstr(m)) in shared:
                check_molecule(ck, kind, m, tag='-directed')
        ck.unchecked('registry invariant (registered paths atom-disjoint)', str(shared[:10]))
    ck.extra['correspondence_cases'] = ck.extra.get('correspondence_cases', 0) + len(cases)
    if not ok or failing:
        bad = {(meta[i][1], meta[i][2]) for i in failing}
        for kind, m in mols:
            if (kind, mstr(m)) in bad:
                check_molecule(ck, kind, m, tag='-directed')
        ck.unchecked('correspondence PackStereo model vs MoleculeContainer.pack/unpack Python side', log[-1500:], [repr(meta[i]) for i in failing[:20]])
    if paths_changed:
        ck.unchecked('stereogenic cumulene paths change in the round trip', str(paths_changed[:10]))
    return ok and not failing


def trace_changes(func, args, watch_key, watch_vals, final=()):
    """run func(*args) under sys.settrace; whenever the local `watch_key` of the frame of func changes, record the tuple of
    the locals `watch_vals`; at return also the locals named in `final`.  Works because the transpiled .pyx functions are
    plain Python with the C variables as locals"""
    import sys
    code = func.__code__
    states, last, fin = [], [None], {}

    def val(v):
        try:
            return int(v)
        except Exception:
            return -1

    def tracer(frame, event, arg):
        if frame.f_code is not code:
            return None
        if event in ('line', 'return'):
            loc = frame.f_locals
            if watch_key in loc:
                cur = val(loc[watch_key])
                if last[0] is not None and cur != last[0]:
                    states.append(tuple(val(loc.get(k, -1)) for k in watch_vals))
                last[0] = cur
            if event == 'return':
                for k in final:
                    if k in loc:
                        fin[k] = [val(x) for x in getattr(loc[k], 'a', []) if type(x) is int]
        return tracer
    old = sys.gettrace()
    sys.settrace(tracer)
    try:
        res = func(*args)
    finally:
        sys.settrace(old)
    return res, states, fin


def corr_states(ck, mods, mols):
    """INTERMEDIATE STATES of the two bit-packing state machines, read from the running transpiled code with a tracer:
    the writer's 8-state order buffer (s, buffer_o) after every bond, its connection buffer (b, buffer_b) after every
    neighbour, the reader's 3-state order buffer (s, buffer_b) after every byte, and the reader's flat `orders` and
    `connections` arrays -- against the step functions of the model folded over the same inputs"""
    pk, up = mods['pack'], mods['unpack']
    cases, meta = [], []
    n = 0
    for kind, m in mols:
        if kind == 'element' or len(m) > 80 or (ck.tier == 'quick' and n >= 120):
            continue
        n += 1
        ck.case(('states', kind, mstr(m), tuple(m._atoms)), nontrivial=len(m) > 1)
        ck.count('states:molecules')
        data, ostates, _ = trace_changes(pk.pack, (m,), 's', ('s', 'buffer_o'))
        _, cstates, _ = trace_changes(pk.pack, (m,), 'b', ('b', 'buffer_b'))
        data = bytes(data)
        pm = pmol_term(m, data)
        zz = lambda l: lst([tup(zraw(a), zraw(c)) for a, c in l])
        cases.append(f'ostates_ok {pm} {zz(ostates)}')
        meta.append(('writer-order-states', kind, mstr(m)))
        cases.append(f'cstates_ok {pm} {zz(cstates)}')
        meta.append(('writer-conn-states', kind, mstr(m)))
        _, rstates, fin = trace_changes(up.unpack, (data,), 's', ('s', 'buffer_b'), final=('orders', 'connections'))
        ac = len(m)
        bc = m.bonds_count
        ob = list(data[4 + 9 * ac + 3 * bc: 4 + 9 * ac + 3 * bc + (3 * bc + 7) // 8])
        cases.append(f'rstates_ok {lst(ob, zraw)} {zz(rstates)} {lst(fin.get("orders", []), zraw)}')
        meta.append(('reader-order-states', kind, mstr(m)))
        cases.append(f'conns_ok {lst(list(data), zraw)} {bc} {4 + 9 * ac} {lst(fin.get("connections", []), zraw)}')
        meta.append(('reader-connections', kind, mstr(m)))
    extra = '''Definition zz_eqb (x y : Z * Z) : bool := (fst x =? fst y) && (snd x =? snd y).
Fixpoint ostates (st : Z * Z) (os : list Z) : list (Z * Z) :=
  match os with nil => nil | o :: r => let st' := fst (order_step st o) in st' :: ostates st' r end.
Fixpoint cstates (st : bool * Z) (ms : list Z) : list (Z * Z) :=
  match ms with nil => nil | x :: r => let st' := fst (conn_step st x) in ((if fst st' then 1 else 0), snd st') :: cstates st' r end.
Fixpoint rstates (st : Z * Z) (bs : list Z) : list (Z * Z) :=
  match bs with nil => nil | a :: r => let st' := fst (order_read_step st a) in st' :: rstates st' r end.
Definition ostates_ok (m : pmol) (l : list (Z * Z)) : bool :=
  list_eqb zz_eqb (ostates (0, 0) (fwd_orders (mol_fwd nil (pm_atoms m)))) l.
Definition cstates_ok (m : pmol) (l : list (Z * Z)) : bool := list_eqb zz_eqb (cstates (true, 0) (mol_conns (pm_atoms m))) l.
Definition rstates_ok (ob : list Z) (l : list (Z * Z)) (orders : list Z) : bool :=
  list_eqb zz_eqb (rstates (0, 0) ob) l && list_eqb Z.eqb (read_orders_v2 ob (0, 0)) orders.
Definition conns_ok (data : list Z) (bc sh : Z) (conns : list Z) : bool :=
  match read_conns data (Z.to_nat bc) sh with Some c => list_eqb Z.eqb c conns | None => match conns with nil => true | _ => false end end.
'''
    ok, failing, log = coqcases.run_cases('c10s', 'Pack PackSpec', cases, extra=extra, shard=120)
    ck.oblige('correspondence on INTERMEDIATE STATES: order / connection buffers of the writer after every step, order buffer of the reader after every byte, the '
              'reader\'s orders and connections arrays == the step functions of the Coq model', ok and not failing, 'correspondence', log or str([meta[i] for i in failing[:5]]))
    ck.extra['correspondence_cases'] = ck.extra.get('correspondence_cases', 0) + len(cases)
    if not ok or failing:
        bad = {(meta[i][1], meta[i][2]) for i in failing}
        for kind, m in mols:
            if (kind, mstr(m)) in bad:
                check_molecule(ck, kind, m, tag='-directed')
        ck.unchecked('correspondence of the intermediate states of the codecs', log[-1500:], [repr(meta[i]) for i in failing[:20]])
    return ok and not failing


def corr_malformed(ck, unpack_mod, mols, rng):
    """malformed inputs: every truncation class of valid packs (-> IndexError in the transpiled code and in the model)
    and single corrupted bytes (the decoded result, IndexError or KeyError must agree; corruptions that make the C code
    read uninitialised memory -- the transpiler's poison -- or build an element from an invalid atomic number are
    undefined behaviour / outside the model and are only counted)"""
    from chython import MoleculeContainer
    cases, meta = [], []
    picked = [(k, m) for k, m in mols if k in ('seed', 'numbers', 'chain')]
    picked = picked[:20] if ck.tier == 'quick' else picked
    for kind, m in picked:
        data = bytes(m.pack(compressed=False))
        ac = len(m)
        cuts = sorted({0, 1, 3, 4, 5, 4 + 9 * ac - 1, 4 + 9 * ac, 4 + 9 * ac + 1, len(data) - 5, len(data) - 4, len(data) - 1} & set(range(len(data))))
        for c in cuts:
            try:
                unpack_mod.unpack(data[:c])
                exp = None
            except IndexError:
                exp = 'Err IndexError'
            except Exception as e:
                exp = None
            ck.case(('trunc', mstr(m), c))
            ck.count('malformed:truncated')
            if exp is None:
                ck.count('malformed:truncated-not-indexerror')
                continue
            cases.append(f'pyres_eqb unpacked_eqb (unpack {lst(list(data[:c]), zraw)}) ({exp})')
            meta.append(('trunc', mstr(m), c))
            pl = 'Err IndexError' if c == 0 else None
            if c == 0:
                cases.append(f'pyres_eqb Z.eqb (mol_pack_len {lst([], zraw)}) (Err IndexError)')
                meta.append(('pack_len-empty', mstr(m), c))
        for _ in range(12 if ck.tier == 'quick' else 60):
            bb = bytearray(data)
            i = rng.randrange(len(bb))
            bb[i] = rng.randrange(256)
            bb = bytes(bb)
            ck.case(('corrupt', mstr(m), i, bb[i]))
            hac = bb[1] << 4 | bb[2] >> 4
            if any(not 1 <= bb[4 + 9 * j + 3] & 0x7f <= 118 for j in range(hac) if 4 + 9 * j + 3 < len(bb)):
                ck.count('malformed:corrupt-invalid-element')     # elements[atomic_number] is outside the model
                continue
            try:
                mol2, ct2, size2 = unpack_mod.unpack(bb)
                if len(mol2._atoms) != (bb[1] << 4 | bb[2] >> 4):
                    ck.count('malformed:corrupt-duplicate-numbers')
                    continue
                exp = f'Ok {unpacked_term(mol2, ct2, size2, bb)}'
                ck.count('malformed:corrupt-decodes')
            except (IndexError, KeyError) as e:
                exp = f'Err {type(e).__name__}'
                ck.count('malformed:corrupt-' + type(e).__name__)
            except Exception as e:
                ck.count('malformed:corrupt-undefined(' + type(e).__name__ + ')')
                continue
            cases.append(f'pyres_eqb unpacked_eqb (unpack {lst(list(bb), zraw)}) ({exp})')
            meta.append(('corrupt', mstr(m), i, bb[i]))
            if bb[0] not in (0, 2):
                try:
                    MoleculeContainer.pack_len(bb, compressed=False)
                    e2 = None
                except ValueError:
                    e2 = 'Err ValueError'
                if e2:
                    cases.append(f'pyres_eqb Z.eqb (mol_pack_len {lst(list(bb[:6]), zraw)}) ({e2})')
                    meta.append(('pack_len-header', mstr(m), i, bb[i]))
    # EVERY value of the 4 bit atom stereo field on an atom with two neighbours (allene centre) and on one with four
    # (tetrahedron): the decoder's if / elif chain incl. its else branch against the model, 16 x 2 packs
    from chython import smiles as _smi
    for sm, pos in (('CC=C=CC', 2), ('CC(N)(O)F', 1)):
        b0 = bytes(_smi(sm).pack(compressed=False))
        for nib in range(16):
            bb = bytearray(b0)
            bb[4 + 9 * pos + 2] = (bb[4 + 9 * pos + 2] & 0x0f) | nib << 4
            bb = bytes(bb)
            ck.case(('stereo-nibble', sm, nib))
            ck.count('malformed:stereo-nibble')
            try:
                mol2, ct2, size2 = unpack_mod.unpack(bb)
                exp = f'Ok {unpacked_term(mol2, ct2, size2, bb)}'
            except (IndexError, KeyError) as e:
                exp = f'Err {type(e).__name__}'
            cases.append(f'pyres_eqb unpacked_eqb (unpack {lst(list(bb), zraw)}) ({exp})')
            meta.append(('stereo-nibble', sm, nib))
    # every bit of the 12 bit cis/trans count of the header, with enough (arbitrary) records behind a valid pack: counts
    # above 2047 cannot come from a molecule with at most 4095 atoms, the model and the theorems cover them nevertheless
    from chython import smiles
    base = bytes(smiles('CC=O').pack(compressed=False))
    for bit in range(12):
        cnt = 1 << bit
        bb = bytearray(base)
        bb[2] = (bb[2] & 0xf0) | (cnt >> 8)
        bb[3] = cnt & 0xff
        bb = bytes(bb) + bytes(rng.randrange(256) for _ in range(4 * cnt))
        ck.case(('ct-bit', bit))
        ck.count('malformed:ct-count-bit')
        try:
            mol2, ct2, size2 = unpack_mod.unpack(bb)
            exp = f'Ok {unpacked_term(mol2, ct2, size2, bb)}'
        except (IndexError, KeyError) as e:
            exp = f'Err {type(e).__name__}'
        cases.append(f'pyres_eqb unpacked_eqb (unpack {lst(list(bb), zraw)}) ({exp})')
        meta.append(('ct-bit', bit))
    # molecules outside the limits checked by MoleculeContainer.pack: ValueError (model: PackApi.mol_pack)
    outside = []
    m = smiles('CCO')
    m.remap({1: 4096})
    outside.append(m)
    m = MoleculeContainer()
    m.add_atom('U', _skip_calculation=True)
    for i in range(16):
        m.add_atom('F', _skip_calculation=True)
        m.add_bond(1, i + 2, 1, _skip_calculation=True)
    m.fix_structure()
    outside.append(m)
    outside.append(MoleculeContainer())
    for m in outside:
        ck.case(('outside', len(m), tuple(m._atoms)))
        ck.count('malformed:outside-limits')
        try:
            m.pack(compressed=False)
            ck.counterexample(f'limits-not-checked:{list(m._atoms)[:3]}', 'MoleculeContainer.pack accepts a molecule outside the documented limits', {'numbers': list(m._atoms)},
                              'bytes', 'ValueError', 'documented limits')
            continue
        except ValueError:
            pass
        except Exception as e:
            ck.counterexample(f'limits-not-checked:{list(m._atoms)[:3]}', f'MoleculeContainer.pack raises {type(e).__name__} instead of ValueError on a molecule outside the documented limits',
                              {'numbers': list(m._atoms)}, repr(e), 'ValueError', 'documented limits')
            continue
        cases.append(f'pyres_eqb (list_eqb Z.eqb) (mol_pack true {pmol_term(m, bytes(9 * len(m) + 13))}) (Err ValueError)')
        meta.append(('outside', list(m._atoms)[:3]))
    for kind, m in picked[:10]:
        data = bytes(m.pack(compressed=False))
        cases.append(f'pyres_eqb (list_eqb Z.eqb) (mol_pack true {pmol_term(m, data)}) (Ok {lst(list(data), zraw)})')
        meta.append(('mol_pack', mstr(m)))
    # molecules the limits check accepts although the format cannot carry them (C10_mol_pack_check_complete_refuted):
    # private-attribute values wrap exactly as the C arithmetic of the model says; non-positive atom numbers
    def one_carbon(n=1, h=4, charge=0):
        mm = MoleculeContainer()
        mm.add_atom('C', n, _skip_calculation=True)
        mm.fix_structure()
        mm._atoms[n]._implicit_hydrogens = h
        mm._atoms[n]._charge = charge
        mm.flush_cache()
        return mm
    for label, kw in (('h7', dict(h=7)), ('h8', dict(h=8)), ('charge12', dict(h=0, charge=12)), ('charge-5', dict(h=0, charge=-5))):
        mm = one_carbon(**kw)
        ck.case(('unrepresentable', label))
        ck.count('malformed:accepted-unrepresentable')
        try:
            data = bytes(mm.pack(compressed=False))
            mol2, ct2, size2 = unpack_mod.unpack(data)
        except Exception as e:
            ck.count('malformed:accepted-unrepresentable-raises')
            continue
        cases.append(f'pyres_eqb (list_eqb Z.eqb) (mol_pack true {pmol_term(mm, data)}) (Ok {lst(list(data), zraw)})')
        meta.append(('unrepresentable-pack', label))
        cases.append(f'pyres_eqb unpacked_eqb (unpack {lst(list(data), zraw)}) (Ok {unpacked_term(mol2, ct2, size2, data)})')
        meta.append(('unrepresentable-unpack', label))
    for nneg in (0, -1, -3):
        mm = one_carbon(n=nneg)
        ck.case(('nonpositive-number', nneg))
        try:
            mm.pack(compressed=False)
            ck.counterexample('limits-nonpositive-atom-number', 'MoleculeContainer.pack(check=True) accepts an atom number below 1', {'numbers': [nneg]}, 'bytes', 'ValueError',
                              'documented limits (atom numbers 1-4095)')
        except ValueError:
            cases.append(f'pyres_eqb (list_eqb Z.eqb) (mol_pack true {pmol_term(mm, bytes(22))}) (Err ValueError)')
            meta.append(('nonpositive-rejected', nneg))
        except Exception as e:
            ck.counterexample('limits-nonpositive-atom-number', f'MoleculeContainer.pack(check=True) passes an atom number below 1 to the packer: {type(e).__name__} (out-of-bounds write of seen[n] in C)',
                              {'numbers': [nneg]}, repr(e), 'ValueError', 'documented limits (atom numbers 1-4095)',
                              replay_py=REPLAY_PRE + f"m=MoleculeContainer(); m.add_atom('C', {nneg}); print(m.pack())")
    ok, failing, log = coqcases.run_cases('c10m', 'Pack PackSpec PackApi PackRxnApi PackStereo', cases, extra=EXTRA, shard=150)
    ck.oblige('correspondence on malformed packs: truncations and corrupted bytes, unpack/pack_len == Coq model', ok and not failing, 'correspondence',
              log or str([meta[i] for i in failing[:5]]))
    ck.extra['correspondence_cases'] = ck.extra.get('correspondence_cases', 0) + len(cases)
    if not ok or failing:
        ck.unchecked('correspondence Pack model vs .pyx codecs on malformed packs', log[-1500:], [repr(meta[i]) for i in failing[:20]])
    return ok and not failing


def corr_reactions(ck, rng):
    """ReactionContainer.pack / unpack / pack_len against rxn_pack / rxn_unpack / rxn_pack_len"""
    from chython import smiles, ReactionContainer
    pool = [smiles(s) for s in ('C', 'CC', 'CCO', 'C=O', 'O', '[Na+].[Cl-]', 'c1ccccc1', 'C[C@H](N)O', 'F/C=C/Cl')]
    cases, meta = [], []
    combos = list(itertools.product(range(3), repeat=3))
    combos += [(0, 0, 4), (4, 0, 0), (0, 4, 0), (5, 1, 0), (1, 3, 2)]
    for (r, a, p) in combos:
        if r + a + p == 0:
            continue   # ReactionContainer requires at least one molecule
        mols = [rng.choice(pool).copy() for _ in range(r + a + p)]
        rx = ReactionContainer(mols[:r], mols[r + a:], mols[r:r + a])
        packs = [x.pack(compressed=False) for x in mols]
        data = rx.pack(compressed=False)
        ck.case(('rxn', r, a, p, tuple(str(x) for x in mols)), nontrivial=r + a + p > 0)
        ck.count(f'rxn:empty_sides={[r, a, p].count(0)}')
        pl = lambda ps: lst([lst(list(x), zraw) for x in ps])
        cases.append(f'pyres_eqb (list_eqb Z.eqb) (rxn_pack {pl(packs[:r])} {pl(packs[r:r + a])} {pl(packs[r + a:])}) (Ok {lst(list(data), zraw)})')
        meta.append(('rxn_pack', r, a, p))
        if r + a + p <= 4:
            pms = [pmol_term(x, pk) for x, pk in zip(mols, packs)]
            cases.append(f'pyres_eqb (list_eqb Z.eqb) (rxn_api_pack true {lst(pms[:r])} {lst(pms[r:r + a])} {lst(pms[r + a:])}) (Ok {lst(list(data), zraw)})')
            meta.append(('rxn_api_pack', r, a, p))
        try:
            ln = ReactionContainer.pack_len(data, compressed=False)
            exp = 'Ok (' + ', '.join(lst(x, zraw) for x in ln) + ')'
        except IndexError:
            exp = 'Err IndexError'
        except Exception as e:
            ck.counterexample(f'rxn-raises:{r}{a}{p}', f'reaction pack_len raises {type(e).__name__} (role sizes {r},{a},{p})', {'reaction': str(rx)},
                              repr(e), 'atom counts', 'API', replay_py=REPLAY_PRE + f'r=smiles({str(rx)!r}); print(ReactionContainer.pack_len(r.pack()))')
            continue
        cases.append(f'pyres_eqb lens_eqb (rxn_pack_len {lst(list(data), zraw)}) ({exp})')
        meta.append(('rxn_pack_len', r, a, p))
        # role split of unpack: compare sizes of the three roles and the atom counts inside
        try:
            u = ReactionContainer.unpack(data, compressed=False)
        except Exception as e:
            ck.counterexample(f'rxn-raises:{r}{a}{p}', f'reaction unpack raises {type(e).__name__} (role sizes {r},{a},{p})', {'reaction': str(rx)},
                              repr(e), 'round trip', 'API round trip', replay_py=REPLAY_PRE + f'r=smiles({str(rx)!r}); print(ReactionContainer.unpack(r.pack()))')
            continue
        got = ([len(x) for x in u.reactants], [len(x) for x in u.reagents], [len(x) for x in u.products])
        cases.append('pyres_eqb lens_eqb (match rxn_unpack ' + lst(list(data), zraw) + ' with Ok (x, y, z) => '
                     'Ok (map (fun u => Z.of_nat (List.length (up_atoms u))) x, map (fun u => Z.of_nat (List.length (up_atoms u))) y, '
                     'map (fun u => Z.of_nat (List.length (up_atoms u))) z) | Err e => Err e end) (Ok (' + ', '.join(lst(x, zraw) for x in got) + '))')
        meta.append(('rxn_unpack', r, a, p))
    # reaction packs assembled from VERSION 0 molecule packs (independent writer), bond counts 0 / 5 / 10 next to others
    v0pool = [smiles(x) for x in ('C', 'CCCCCC', 'C/C=C/CCC', 'CCCCCCCCCCC', 'CCO', 'O', 'CC(C)(C)c1ccccc1')]
    for (r, a, p) in ((1, 1, 1), (1, 0, 1), (0, 2, 0), (2, 1, 0), (1, 2, 2), (0, 0, 3), (3, 0, 0)):
        for rep in range(2):
            ms = [rng.choice(v0pool) for _ in range(r + a + p)]
            data = bytes([1, r, a, p]) + b''.join(layout_oracle(x, version=0) for x in ms)
            ck.case(('rxn-v0', r, a, p, tuple(mstr(x) for x in ms)))
            ck.count('rxn:v0')
            try:
                ln = ReactionContainer.pack_len(data, compressed=False)
                exp = 'Ok (' + ', '.join(lst(x, zraw) for x in ln) + ')'
            except IndexError:
                exp = 'Err IndexError'
            except Exception:
                exp = None
            if exp:
                cases.append(f'pyres_eqb lens_eqb (rxn_pack_len {lst(list(data), zraw)}) ({exp})')
                meta.append(('rxn_pack_len_v0', r, a, p))
            try:
                u = ReactionContainer.unpack(data, compressed=False)
                got = ([len(x) for x in u.reactants], [len(x) for x in u.reagents], [len(x) for x in u.products])
                exp = 'Ok (' + ', '.join(lst(x, zraw) for x in got) + ')'
            except Exception:
                exp = None      # reported with the concrete input by the search step
            if exp:
                cases.append('pyres_eqb lens_eqb (match rxn_unpack ' + lst(list(data), zraw) + ' with Ok (x, y, z) => '
                             'Ok (map (fun u => Z.of_nat (List.length (up_atoms u))) x, map (fun u => Z.of_nat (List.length (up_atoms u))) y, '
                             'map (fun u => Z.of_nat (List.length (up_atoms u))) z) | Err e => Err e end) (' + exp + ')')
                meta.append(('rxn_unpack_v0', r, a, p))
    # the 255 limit and a molecule outside the limits, at API level
    c1 = smiles('C')
    pk1 = c1.pack(compressed=False)
    pm1 = pmol_term(c1, pk1)
    big = smiles('CCO')
    big.remap({1: 4096})
    pmbig = pmol_term(big, bytes(64))
    for (r, a, p) in ((256, 0, 1), (0, 256, 0), (1, 0, 256), (255, 0, 0), (255, 255, 1)):
        rx = ReactionContainer([c1] * r, [c1] * p, [c1] * a)
        ck.case(('rxn-limit', r, a, p))
        ck.count('rxn:limit255')
        try:
            exp = f'Ok {lst(list(rx.pack(compressed=False)), zraw)}'
        except ValueError:
            exp = 'Err ValueError'
        cases.append(f'pyres_eqb (list_eqb Z.eqb) (rxn_api_pack true (repeat {pm1} {r}) (repeat {pm1} {a}) (repeat {pm1} {p})) ({exp})')
        meta.append(('rxn_api_limit', r, a, p))
    for where in range(3):
        sides = [[c1], [c1], [c1]]
        sides[where] = [c1, big]
        rx = ReactionContainer(sides[0], sides[2], sides[1])
        ck.case(('rxn-outside', where))
        try:
            rx.pack(compressed=False)
            exp = None
            ck.counterexample(f'rxn-limits-not-checked:{where}', 'ReactionContainer.pack accepts a molecule outside the documented limits', {'role': where}, 'bytes', 'ValueError', 'documented limits')
        except ValueError:
            exp = 'Err ValueError'
        if exp:
            tl = [lst([pm1, pmbig]) if i == where else lst([pm1]) for i in range(3)]
            cases.append(f'pyres_eqb (list_eqb Z.eqb) (rxn_api_pack true {tl[0]} {tl[1]} {tl[2]}) ({exp})')
            meta.append(('rxn_api_outside', where))
    ok, failing, log = coqcases.run_cases('c10r', 'Pack PackApi PackRxnApi PackStereo', cases, extra=EXTRA, shard=40)
    ck.oblige('correspondence: ReactionContainer.pack/unpack/pack_len == Coq model (repaired role split)', ok and not failing,
              'correspondence', log or str([meta[i] for i in failing[:5]]))
    ck.extra['correspondence_cases'] = ck.extra.get('correspondence_cases', 0) + len(cases)
    if not ok or failing:
        ck.unchecked('correspondence rxn_pack/rxn_unpack/rxn_pack_len vs ReactionContainer', log[-1500:], [repr(meta[i]) for i in failing[:20]])
    return ok and not failing


TOP_EXTRA = """Definition mc_unpack_len (d : list Z) : pyres (mol * Z) := match mc_unpack d with Ok (g, _, sz) => Ok (g, sz) | Err e => Err e end.
Definition mc_unpack_mol (d : list Z) : pyres mol := match mc_unpack d with Ok (g, _, _) => Ok g | Err e => Err e end.
Definition rxn_mc (d : list Z) := rxn_unpack_with mc_unpack_len d.
Definition top_mc (d : list Z) := top_unpack (fun d => Ok d) mc_unpack_mol rxn_mc false d.
Definition top_is_mol (d : list Z) (g : mol) : bool := match top_mc d with Ok (inl g') => mol_eqb g' g | _ => false end.
Definition roles_eqb (x y : list mol * list mol * list mol) : bool :=
  list_eqb mol_eqb (fst (fst x)) (fst (fst y)) && list_eqb mol_eqb (snd (fst x)) (snd (fst y)) && list_eqb mol_eqb (snd x) (snd y).
Definition top_is_rxn (d : list Z) (rs ags ps : list mol) : bool :=
  match gen_unpach (fun d => Ok d) mc_unpack_mol (gen_rxn_unpack (fun d => Ok d) mc_unpack_len false) false d with Ok (inr r) => roles_eqb r (rs, ags, ps) | _ => false end.
Definition top_is_err (d : list Z) (e : pyexn) : bool := match top_mc d with Err e' => pyexn_eqb e e' | _ => false end.
Definition rxn_is_err (d : list Z) (e : pyexn) : bool := match rxn_mc d with Err e' => pyexn_eqb e e' | _ => false end.
Definition mol_is_err (d : list Z) (e : pyexn) : bool := match mc_unpack_mol d with Err e' => pyexn_eqb e e' | _ => false end.
"""


def corr_top(ck, mols, rng):
    """the PUBLIC DECODE ENTRY POINTS end to end (model: PackTop over PackMol): chython.unpack (generic dispatcher),
    MoleculeContainer.unpack and ReactionContainer.unpack on version 2 and version 0 molecule packs, on reaction packs of
    either / mixed versions, and on malformed input (first byte 0..255, truncations, a molecule header other than 0 / 2
    inside a reaction pack, role counts larger / smaller than the molecules present); the returned objects are compared as
    whole Graph.mol values, the raised exception by class.  On reaction packs the bodies translated from the sources
    (gen_unpach over gen_rxn_unpack) are what is evaluated (equal to the hand model for all inputs by theorem)"""
    import chython
    from chython import smiles, MoleculeContainer, ReactionContainer
    cases, meta = [], []
    zl = lambda d: lst(list(d), zraw)

    def outcome(func, data):
        try:
            return 'ok', func(data, compressed=False)
        except (ValueError, IndexError, KeyError) as e:
            return 'err', ('KeyError' if isinstance(e, KeyError) else type(e).__name__)
        except Exception as e:
            return 'undefined', type(e).__name__

    def roles_terms(r):
        return ' '.join(lst([coqmol.mol_term(x) for x in side]) for side in (r.reactants, r.reagents, r.products))

    def add_top(data, tag):
        """one byte string through the three real entry points; expectation taken from the real result"""
        kind, res = outcome(chython.unpack, data)
        ck.case(('top', tag, bytes(data)[:48], len(data)), nontrivial=len(data) > 4)
        if kind == 'undefined':
            ck.count(f'top:undefined({res})')
            return
        if kind == 'err':
            ck.count(f'top:{res}')
            cases.append(f'top_is_err {zl(data)} {res}')
        elif isinstance(res, MoleculeContainer):
            ck.count('top:molecule')
            cases.append(f'top_is_mol {zl(data)} {coqmol.mol_term(res)}')
        else:
            ck.count('top:reaction')
            cases.append(f'top_is_rxn {zl(data)} {roles_terms(res)}')
        meta.append(('top', tag))
        k2, r2 = outcome(ReactionContainer.unpack, data)
        if k2 == 'err':
            cases.append(f'rxn_is_err {zl(data)} {r2}')
            meta.append(('rxn-err', tag))
        k3, r3 = outcome(MoleculeContainer.unpack, data)
        if k3 == 'err':
            cases.append(f'mol_is_err {zl(data)} {r3}')
            meta.append(('mol-err', tag))

    picked = [(k, m) for k, m in mols if k in ('seed', 'numbers', 'chain', 'ct-generated', 'ct-shared', 'v0-groups', 'atom-stereo') and len(m) <= 40]
    if ck.tier == 'quick':
        picked = picked[::max(1, len(picked) // 36)]
    v0 = {}
    for kind, m in picked:
        data = bytes(m.pack(compressed=False))
        add_top(data, ('v2', kind, mstr(m)))
        d0 = layout_oracle(m, version=0, terminals_from_dict=True)
        if d0 is not None:
            v0[id(m)] = d0
            add_top(d0, ('v0', kind, mstr(m)))
    # reaction packs: version 2, version 0 and MIXED molecule packs, every pattern of empty sides
    pool = [m for k, m in picked if len(m) <= 12 and id(m) in v0][:25] or [smiles('CCO')]
    for (r, a, p) in [(1, 0, 0), (0, 1, 0), (0, 0, 1), (1, 1, 1), (2, 0, 1), (0, 2, 2), (1, 2, 0), (3, 1, 2)][ck.seed % 2::2 if ck.tier == 'quick' else 1] * (1 if ck.tier == 'quick' else 4):
        ms = [rng.choice(pool) for _ in range(r + a + p)]
        for mode in ('v2', 'v0', 'mixed'):
            packs = [bytes(x.pack(compressed=False)) if mode == 'v2' or (mode == 'mixed' and rng.random() < .5) else v0[id(x)] for x in ms]
            data = bytes([1, r, a, p]) + b''.join(packs)
            add_top(data, ('rxn', mode, r, a, p))
            if mode == 'mixed':
                # malformed variants of the same pack
                add_top(data + bytes([rng.randrange(256) for _ in range(5)]), ('rxn+suffix', r, a, p))
                add_top(bytes([1, r, a, p + 1]) + data[4:], ('rxn-count+1', r, a, p))           # walks past the end: IndexError
                if r + a + p > 1:
                    add_top(bytes([1, max(r - 1, 0), a, p if r else max(p - 1, 0)]) + data[4:], ('rxn-count-1', r, a, p))
                bad = bytearray(data)
                off = 4 + (len(packs[0]) if len(packs) > 1 and rng.random() < .5 else 0)
                bad[off] = rng.choice([1, 3, 4, 5, 255])                                      # molecule header inside the reaction
                add_top(bytes(bad), ('rxn-bad-mol-header', r, a, p, bad[off]))
                add_top(data[:rng.randrange(1, len(data))], ('rxn-truncated', r, a, p))
    # first byte sweep on a molecule pack and on a reaction pack; truncations of a molecule pack; the empty string
    base = bytes(smiles('C/C=C/C').pack(compressed=False))
    rbase = bytes(smiles('CC=O>>CCO').pack(compressed=False))
    for h in sorted(set(range(0, 8)) | {rng.randrange(8, 256) for _ in range(4)} | {255}):
        add_top(bytes([h]) + base[1:], ('first-byte-mol', h))
        add_top(bytes([h]) + rbase[1:], ('first-byte-rxn', h))
    for c in sorted({0, 1, 3, 4, 12, 13, len(base) - 5, len(base) - 1}):
        add_top(base[:c], ('mol-truncated', c))
    for c in sorted({1, 2, 3, 4, 5, len(rbase) - 1}):
        add_top(rbase[:c], ('rxn-truncated', c))
    ck.sample({'model_call': cases[0][:300], 'of': meta[0]})
    ok, failing, log = coqcases.run_cases('c10t', 'Graph StereoRegistry Pack PackSpec PackApi PackStereo PackStereoSpec PackMol PackTop', cases,
                                          extra='From Gen Require Import PackTopGen.\n' + TOP_EXTRA, shard=100)
    ck.oblige('correspondence: chython.unpack (dispatcher) / MoleculeContainer.unpack / ReactionContainer.unpack end to end on version 2, version 0, mixed reaction and malformed '
              'packs == Coq model PackTop over PackMol and the bodies translated from the sources (objects compared whole, exceptions by class)', ok and not failing, 'correspondence',
              log or str([meta[i] for i in failing[:5]]))
    ck.extra['correspondence_cases'] = ck.extra.get('correspondence_cases', 0) + len(cases)
    if not ok or failing:
        # directed search with the property level oracles on what was fed, before falling back to `unchecked`
        for kind, m in picked[:40]:
            check_molecule(ck, kind, m, tag='-directed')
        search_rxn_versions(ck, rng, [m for k, m in picked if len(m) <= 12][:9])
        ck.unchecked('correspondence PackTop model vs the public decode entry points', log[-1500:], [repr(meta[i]) for i in failing[:20]])
    return ok and not failing


def dyadic(x):
    """exact (neg, M, E) with x = +-M * 2^E"""
    import math
    n, d = abs(x).as_integer_ratio()
    return (math.copysign(1.0, x) < 0), n, -(d.bit_length() - 1)


def corr_f16(ck, mods, rng):
    pk, up = mods['pack'], mods['unpack']
    arr = pk._Arr(('u', 8), 2)

    def enc(x):
        pk.double_to_float16(x, pk._Ptr(arr, 0))
        return arr[0], arr[1]
    cases, meta = [], []
    xs = [0.0, -0.0, 1.0, -1.0, 0.5, 2.0, 65504.0, 65519.99, 65520.0, 65535.9, 65536.0, 1e5, 2.0 ** -14, 2.0 ** -14 * 0.999, 2.0 ** -24, 2.0 ** -25,
          2.0 ** -25 * 0.99, 2.0 ** -26, 5e-324, 1.7976931348623157e308, 1 / 3, -1 / 3, 1023.9999, 1024.0, 0.1, 12.345]
    n = 800 if ck.tier == 'quick' else 20000
    for _ in range(n):
        k = rng.random()
        if k < .4:
            xs.append(rng.uniform(-30, 30))
        elif k < .8:
            xs.append(rng.choice([-1, 1]) * rng.random() * 2.0 ** rng.randint(-30, 18))
        else:
            import struct
            xs.append(struct.unpack('>e', bytes([rng.randrange(0, 124) | rng.choice([0, 128]), rng.randrange(256)]))[0] * rng.choice([1, 1, 1.0000001, 0.9999999]))
    for x in xs:
        a, c = enc(x)
        neg, M, E = dyadic(x)
        cases.append(f"enc_ok {b(neg)} {zraw(M)} {zraw(E)} {a} {c}")
        meta.append(('f16_encode', x.hex(), a, c))
        ck.case(('f16e', x.hex()), nontrivial=(a, c) != (0, 0))
        ck.count('f16:zero' if (a, c) == (0, 0) else ('f16:subnormal' if (a >> 2) & 31 == 0 else 'f16:normal'))
    pats = list(range(65536)) if ck.tier != 'quick' else sorted(set(rng.sample(range(65536), 1500)) | set(range(0, 65536, 1024)) | {0x7bff, 0x7c00, 0xfbff, 0x8000, 1, 0x3ff, 0x400})
    for pat in pats:
        a, c = pat >> 8, pat & 255
        y = up.double_from_bytes(a, c)
        neg, M, E = dyadic(y)
        cases.append(f"dec_ok {a} {c} {b(neg)} {zraw(M)} {zraw(E)}")
        meta.append(('f16_decode', a, c, y.hex()))
        ck.case(('f16d', pat))
    extra = '''Definition enc_ok (neg : bool) (M E a c : Z) : bool := let r := f16_encode neg M E in (fst r =? a) && (snd r =? c).
Definition dec_ok (a c : Z) (neg : bool) (M E : Z) : bool :=
  let r := f16_decode a c in Bool.eqb (fst (fst r)) neg && dy_eq (snd (fst r)) (snd r) M E.
'''
    ok, failing, log = coqcases.run_cases('c10f', 'F16', cases, extra=extra, shard=400)
    ck.oblige('correspondence: double_to_float16 / double_from_bytes == Coq model (bit exact on exact dyadics)', ok and not failing, 'correspondence',
              log or str([meta[i] for i in failing[:5]]))
    ck.extra['correspondence_cases'] = ck.extra.get('correspondence_cases', 0) + len(cases)
    if not ok or failing:
        ck.unchecked('correspondence F16 model vs double_to_float16/double_from_bytes', log[-1500:], [repr(meta[i]) for i in failing[:20]])
    return ok and not failing


# ---------------------------------------------------------------------------------------------------------
# search on the real API, independent of the model

def observe(m):
    return ([(n, a.atomic_number, a._isotope, a._charge, a._is_radical, a._implicit_hydrogens, a._stereo) for n, a in m._atoms.items()],
            [(n, [(k, int(bd), bd.stereo) for k, bd in nb.items()]) for n, nb in m._bonds.items()])


def half_ok(x, y):
    """y is x to half precision as the format defines it: truncation toward zero of the 11-bit significand, values
    with |x| >= 65536 or < 2^-25 stored as 0"""
    import math
    if x == 0 or abs(x) >= 65536 or abs(x) < 2 ** -25:
        return y == 0
    fr, e = math.frexp(abs(x))
    e -= 1
    if e < -14:
        q = 2.0 ** -24
    else:
        q = 2.0 ** (e - 10)
    return y == math.copysign(math.floor(abs(x) / q) * q, x)


def half_bits(x):
    """the 16 bits of x in the format's half float: sign, 5 bit exponent, 10 bit fraction, truncated toward zero;
    0 for |x| >= 65536 or |x| < 2^-25 (independent of the model: exact rational arithmetic)"""
    import math
    from fractions import Fraction
    if x == 0 or abs(x) >= 65536 or abs(x) < 2 ** -25:
        return 0
    sign = 1 if x < 0 else 0
    q = Fraction(abs(x))
    e = math.floor(math.log2(abs(x)))
    while Fraction(2) ** e > q:
        e -= 1
    while Fraction(2) ** (e + 1) <= q:
        e += 1
    if e < -14:
        frac, ef = math.floor(q / Fraction(2) ** -24), 0
    else:
        frac, ef = math.floor(q / Fraction(2) ** (e - 10)) - 1024, e + 15
    assert 0 <= frac < 1024 and 0 <= ef < 31
    return sign << 15 | ef << 10 | frac


def layout_oracle(m, version=2, terminals_from_dict=False):
    """the published version 2 layout written from the docstring as ONE bit string (rebuild from scratch, independent
    of the codecs and of the Coq model); None when the molecule is outside the documented limits"""
    bits = []

    def put(v, w):
        v = int(v)
        if not 0 <= v < 1 << w:
            raise OverflowError((v, w))
        bits.append(format(v, f'0{w}b'))
    try:
        put(version, 8)
        put(len(m._atoms), 12)
        put(sum(bd.stereo is not None for *_, bd in m.bonds()), 12)
        for n, a in m._atoms.items():
            ngb = len(m._bonds[n])
            put(n, 12)
            put(ngb, 4)
            if a._stereo is None:
                put(0, 4)
            elif ngb == 2:    # allene centre
                put(0, 2)
                put(2 + bool(a._stereo), 2)
            else:
                put(2 + bool(a._stereo), 2)
                put(0, 2)
            put(0 if a._isotope is None else a._isotope - a.mdl_isotope + 16, 5)
            put(a.atomic_number, 7)
            put(half_bits(a.x), 16)
            put(half_bits(a.y), 16)
            put(7 if a._implicit_hydrogens is None else a._implicit_hydrogens, 3)
            put(a._charge + 4, 4)
            put(bool(a._is_radical), 1)
        seen = set()
        orders, cts = [], []
        for n in m._atoms:
            seen.add(n)
            for k, bd in m._bonds[n].items():
                put(k, 12)
                if k not in seen:
                    orders.append(int(bd) - 1)
                    if bd.stereo is not None:
                        # terminal atoms of the cumulene path whose central bond this is (taken from the paths, not from
                        # the atom-keyed _stereo_cis_trans_terminals dict the packer reads)
                        ends = [(p[0], p[-1]) for p in m.stereogenic_cumulenes
                                if len(p) % 2 == 0 and {p[len(p) // 2 - 1], p[len(p) // 2]} == {n, k}]
                        if terminals_from_dict:   # as the packer does (correspondence of the version 0 layout only)
                            ends = [m._stereo_cis_trans_terminals[n]]
                        if len(ends) != 1:
                            return None
                        cts.append((ends[0], bd.stereo))
        if version == 2:
            ob = ''.join(format(o, '03b') for o in orders)
            bits.append(ob + '0' * (-len(ob) % 8))
        else:   # version 0: 5 orders per 2 bytes, one zero bit first, last group zero padded
            for i in range(0, len(orders), 5):
                g = orders[i:i + 5] + [0] * (5 - len(orders[i:i + 5]))
                bits.append('0' + ''.join(format(o, '03b') for o in g))
        for (tn, tm), sgn in cts:
            put(tn, 12)
            put(tm, 12)
            put(0, 7)
            put(bool(sgn), 1)
    except OverflowError:
        return None
    allb = ''.join(bits)
    assert len(allb) % 8 == 0
    return bytes(int(allb[i:i + 8], 2) for i in range(0, len(allb), 8))


def check_entry_points(ck, kind, m, d0, tag=''):
    """every public way to write a molecule pack x every public way to read one back (the class methods, their `pach`
    spellings, bytes(m), and the generic dispatcher chython.unpack / chython.unpach / chython.containers.unpack that
    must recognise the kind of pack by itself), for the version 2 pack and the independently written version 0 pack,
    compressed and not: each must give the original molecule (reference: the molecule that was never packed)"""
    import zlib
    import chython
    import chython.containers as cc
    from chython import MoleculeContainer
    v2 = bytes(m.pack(compressed=False))
    writers = [('pack(compressed=False)', v2, False), ('pach()', m.pach(), True), ('bytes(m)', bytes(m), True),
               ('pach(compressed=False)', m.pach(compressed=False), False)]
    for wname, data, compressed in writers:
        if (zlib.decompress(data) if compressed else bytes(data)) != v2:
            ck.counterexample(f'writer-differs:{wname}:{kind}:{mstr(m)}', f'{wname} is not the pack written by pack()', {'smiles': mstr(m)}, list(data[:16]), list(v2[:16]),
                              'all writer spellings give one pack', replay_py=REPLAY_PRE + f'm=smiles({mstr(m)!r}); print(bytes(m)==m.pack(), m.pach()==m.pack())')
            return False
    packs = [('version 2', v2)]
    if d0 is not None:
        packs.append(('version 0 (independent writer)', d0))
    readers = [('MoleculeContainer.unpach', MoleculeContainer.unpach), ('chython.unpack', chython.unpack), ('chython.unpach', chython.unpach),
               ('chython.containers.unpack', cc.unpack)]
    want = observe(m)
    for pname, raw in packs:
        for compressed in (False, True):
            data = zlib.compress(raw, 9) if compressed else raw
            for rname, reader in readers:
                ck.case(('entry' + tag, kind, mstr(m), tuple(m._atoms), pname, compressed, rname))
                rp = REPLAY_PRE + f'import chython, zlib; d=bytes({list(raw)!r}); print({rname}({"zlib.compress(d)" if compressed else "d"}, compressed={compressed}))'
                try:
                    u = reader(data, compressed=compressed)
                except Exception as e:
                    ck.counterexample(f'entry-raises:{rname}:{pname}:{kind}:{mstr(m)}', f'{rname} raises {type(e).__name__} on a {pname} molecule pack (compressed={compressed})',
                                      {'smiles': mstr(m), 'numbers': list(m._atoms), 'pack': list(raw)}, repr(e), mstr(m), 'the molecule that was packed', replay_py=rp)
                    return False
                if not isinstance(u, MoleculeContainer) or observe(u) != want:
                    ck.counterexample(f'entry-differs:{rname}:{pname}:{kind}:{mstr(m)}', f'{rname} of a {pname} molecule pack (compressed={compressed}) is not the molecule that was packed',
                                      {'smiles': mstr(m), 'numbers': list(m._atoms), 'pack': list(raw)}, f'{type(u).__name__} {u}', mstr(m), 'the molecule that was packed', replay_py=rp)
                    return False
    return True


def check_molecule(ck, kind, m, tag=''):
    """property-level oracle on the real API for one molecule: round trip, published layout, pack_len. Returns True
    when the molecule passes"""
    from chython import MoleculeContainer
    ok = True
    for compressed in (True, False):
        try:
            data = m.pack(compressed=compressed)
            u = MoleculeContainer.unpack(data, compressed=compressed)
        except Exception as e:
            ck.counterexample(f'roundtrip-raises:{kind}:{mstr(m)}', f'pack/unpack raises {type(e).__name__}', {'smiles': mstr(m)}, repr(e), 'round trip', 'API round trip')
            return False
        ck.case(('rt' + tag, kind, mstr(m), tuple(m._atoms), compressed))
        if only_labels_moved(m, u):
            report_label_move(ck, m, u, 'pack -> unpack')
            return False
        if observe(u) != observe(m):
            ck.counterexample(f'roundtrip:{kind}:{mstr(m)}:{list(m._atoms)[:3]}', 'pack -> unpack changes the molecule', {'smiles': mstr(m), 'numbers': list(m._atoms)},
                              observe(u), observe(m), 'API round trip: numbers in order, attributes, neighbour order, orders, stereo',
                              replay_py=REPLAY_PRE + f'm=smiles({mstr(m)!r}); u=MoleculeContainer.unpack(m.pack()); print(m, u, list(m), list(u))')
            return False
        if MoleculeContainer.pack_len(data, compressed=compressed) != len(m):
            ck.counterexample(f'pack_len:{kind}:{mstr(m)}', 'pack_len differs from the atom count', {'smiles': mstr(m)},
                              MoleculeContainer.pack_len(data, compressed=compressed), len(m), 'atom count')
            ok = False
        for (n, a), (_, c) in zip(m._atoms.items(), u._atoms.items()):
            if not (half_ok(a.x, c.x) and half_ok(a.y, c.y)):
                ck.counterexample(f'xy:{kind}:{mstr(m)}', 'coordinates not preserved to half precision', {'smiles': mstr(m), 'atom': n},
                                  [c.x, c.y], [a.x, a.y], 'independent half-float truncation')
                ok = False
                break
    d0 = layout_oracle(m, version=0)
    if d0 is not None:
        ck.case(('v0' + tag, kind, mstr(m), tuple(m._atoms)))
        try:
            u0, len0 = MoleculeContainer.unpack(d0, compressed=False, _return_pack_length=True)
            if len0 != len(d0):
                ck.counterexample(f'v0-length:{kind}:{mstr(m)}:{list(m._atoms)[:3]}', f'decoding a version 0 pack of {len(d0)} bytes ({m.bonds_count} bonds) reports a pack length of {len0}',
                                  {'smiles': mstr(m), 'bonds': m.bonds_count, 'pack': list(d0)}, len0, len(d0), 'independent version 0 writer + API decode',
                                  replay_py=REPLAY_PRE + f'print(MoleculeContainer.unpack(bytes({list(d0)!r}), compressed=False, _return_pack_length=True))')
                ok = False
            if only_labels_moved(m, u0):
                report_label_move(ck, m, u0, 'decoding the version 0 pack')
                ok = False
            elif observe(u0) != observe(m) or MoleculeContainer.pack_len(d0, compressed=False) != len(m):
                ck.counterexample(f'v0-decode:{kind}:{mstr(m)}:{list(m._atoms)[:3]}', 'a version 0 pack (independent writer of the documented version 0 layout) decodes to another molecule',
                                  {'smiles': mstr(m), 'numbers': list(m._atoms), 'pack': list(d0)}, observe(u0), observe(m), 'independent version 0 writer + API decode',
                                  replay_py=REPLAY_PRE + f'print(MoleculeContainer.unpack(bytes({list(d0)!r}), compressed=False))')
                ok = False
        except Exception as e:
            ck.counterexample(f'v0-decode-raises:{kind}:{mstr(m)}', f'decoding a version 0 pack raises {type(e).__name__}', {'smiles': mstr(m), 'pack': list(d0)}, repr(e), 'molecule',
                              'independent version 0 writer + API decode')
            ok = False
    if ok and not check_entry_points(ck, kind, m, d0, tag):
        ok = False
    want = layout_oracle(m)
    if want is not None:
        got = m.pack(compressed=False)
        ck.case(('layout' + tag, kind, mstr(m), tuple(m._atoms)))
        if bytes(got) != want and shares_atom(m) and len(got) == len(want) and bytes(got[:len(got) - 4 * len(labels(m)) // 2]) == want[:len(got) - 4 * len(labels(m)) // 2]:
            # only the cis/trans block differs: the record names another bond (known finding)
            ck.counterexample('cis-trans-shared-atom', 'the cis/trans record written by pack names another double bond (two stereogenic double bonds share an atom)',
                              {'numbers': list(m._atoms), 'labels': labels(m)}, list(got[-4 * (len(labels(m)) // 2):]), list(want[-4 * (len(labels(m)) // 2):]),
                              'bit string written from the docstring (independent re-implementation)')
            ok = False
        elif bytes(got) != want:
            i = next((j for j in range(min(len(got), len(want))) if got[j] != want[j]), min(len(got), len(want)))
            ck.counterexample(f'layout:{kind}:{mstr(m)}:{list(m._atoms)[:3]}', f'pack bytes differ from the published version 2 layout (first difference at byte {i})',
                              {'smiles': mstr(m), 'numbers': list(m._atoms)}, list(got[max(0, i - 2):i + 6]), list(want[max(0, i - 2):i + 6]),
                              'bit string written from the docstring (independent re-implementation)',
                              replay_py=REPLAY_PRE + f'print(list(smiles({mstr(m)!r}).pack(compressed=False)))')
            ok = False
    return ok


def search_rxn_versions(ck, rng, v0pool):
    """reaction packs assembled from VERSION 0 molecule packs by the independent writer, and from a MIXTURE of version 0 and
    version 2 packs: every molecule must come back in its role through every reader (a wrong consumed length of one
    molecule shifts all the following ones), pack_len must give the atom counts"""
    from chython import ReactionContainer
    for (r, a, p) in [(1, 1, 1), (1, 0, 1), (0, 2, 0), (2, 1, 0), (1, 2, 2), (0, 0, 3), (3, 0, 0), (2, 2, 2)]:
        for rep in range(3):
            ms = [rng.choice(v0pool) for _ in range(r + a + p)]
            mixed = rep == 2
            data = bytes([1, r, a, p]) + b''.join(bytes(x.pack(compressed=False)) if mixed and rng.random() < .5 else layout_oracle(x, version=0) for x in ms)
            key = f'{r}{a}{p}:' + '.'.join(str(x.bonds_count) for x in ms)
            ck.case(('rxn-v0-rt', r, a, p, tuple(mstr(x) for x in ms)))
            inp = {'roles': [r, a, p], 'molecules': [mstr(x) for x in ms], 'bonds': [x.bonds_count for x in ms], 'pack': list(data)}
            rp = REPLAY_PRE + f'd=bytes({list(data)!r}); print(ReactionContainer.unpack(d, compressed=False), ReactionContainer.pack_len(d, compressed=False))'
            try:
                u = ReactionContainer.unpack(data, compressed=False)
                roles = [[observe(x) for x in side] for side in (u.reactants, u.reagents, u.products)]
                want = [[observe(x) for x in ms[:r]], [observe(x) for x in ms[r:r + a]], [observe(x) for x in ms[r + a:]]]
                if roles != want:
                    ck.counterexample(f'rxn-v0-roundtrip:{key}', 'a reaction pack of version 0 molecule packs (independent writer) decodes to other molecules / roles', inp,
                                      str(u), [mstr(x) for x in ms], 'independent version 0 writer + API decode', replay_py=rp)
                for rname, reader in rxn_readers():
                    ut = reader(data, compressed=False)
                    if not isinstance(ut, ReactionContainer) or [[observe(x) for x in side] for side in (ut.reactants, ut.reagents, ut.products)] != want:
                        ck.counterexample(f'rxn-v0-entry:{rname}:{key}', f'{rname} of a reaction pack of version 0 molecule packs is not the reaction', inp,
                                          f'{type(ut).__name__} {ut}', [mstr(x) for x in ms], 'independent version 0 writer + API decode', replay_py=rp)
                # pack_len reads the version byte of the FIRST molecule only (one writer = one version per reaction pack): mixed
                # packs, which no writer produces, are outside this oracle
                ln = None if mixed else ReactionContainer.pack_len(data, compressed=False)
                if ln is not None and [list(x) for x in ln] != [[len(x) for x in ms[:r]], [len(x) for x in ms[r:r + a]], [len(x) for x in ms[r + a:]]]:
                    ck.counterexample(f'rxn-v0-pack_len:{key}', 'pack_len of a reaction pack of version 0 molecule packs is wrong', inp, ln,
                                      [[len(x) for x in ms[:r]], [len(x) for x in ms[r:r + a]], [len(x) for x in ms[r + a:]]], 'atom counts', replay_py=rp)
            except Exception as e:
                ck.counterexample(f'rxn-v0-raises:{key}', f'decoding a reaction pack of version 0 molecule packs raises {type(e).__name__}', inp, repr(e), [mstr(x) for x in ms],
                                  'independent version 0 writer + API decode', replay_py=rp)


def rxn_readers():
    """every public way to read a reaction pack: the class method, its `pach` spelling and the generic dispatcher"""
    import chython
    import chython.containers as cc
    from chython import ReactionContainer
    return [('ReactionContainer.unpach', ReactionContainer.unpach), ('chython.unpack', chython.unpack), ('chython.unpach', chython.unpach),
            ('chython.containers.unpack', cc.unpack)]


def search(ck, mols, rng, n_ref):
    from chython import smiles, MoleculeContainer, ReactionContainer, unpack as top_unpack
    for kind, m in mols:
        check_molecule(ck, kind, m)
    # a molecule at the format limits: 4095 atoms, pack larger than 64 KiB (offset arithmetic of the codecs)
    big = MoleculeContainer()
    N = 4095
    for i in range(N):
        big.add_atom('C', _skip_calculation=True)
    for i in range(1, N + 1):
        for d in (1, 2, 3) if ck.tier == 'quick' else (1, 2, 3, 4, 5, 6):
            big.add_bond(i, (i - 1 + d) % N + 1, 1 + (i + d) % 3, _skip_calculation=True)
    big.__dict__['_cis_trans_count'] = 0
    big.__dict__['_stereo_cis_trans_terminals'] = {}
    try:
        from chython.containers._pack_v2 import pack as raw_pack
        from chython.containers._unpack_v0v2 import unpack as raw_unpack
        data = raw_pack(big)
        u, _, size = raw_unpack(data)
        ck.case(('big-lattice', len(data)))
        ck.extra['big_lattice'] = {'atoms': N, 'bonds': sum(len(x) for x in big._bonds.values()) // 2, 'pack_bytes': len(data)}
        if size != len(data) or observe(u)[1] != observe(big)[1]:
            ck.counterexample('big-lattice', 'pack -> unpack of a 4095-atom molecule (pack > 64 KiB) changes bonds', {'atoms': N, 'bytes': len(data)},
                              'different adjacency / size', 'same', 'API round trip')
    except Exception as e:
        ck.counterexample('big-lattice', f'pack/unpack of a 4095-atom molecule raises {type(e).__name__}', {'atoms': N}, repr(e), 'round trip', 'API round trip')
    # coordinates over the half-float range
    m = smiles('CC')
    for i in range(400):
        x = rng.choice([0., 1., -1., 65504., 65519.9, 65536., 1e-8, 6e-8, 6.1e-5, 5.9e-5, rng.uniform(-100, 100), rng.uniform(-1, 1) * 2 ** rng.randint(-30, 17)])
        m._atoms[1]._xy.x = x
        m._atoms[2]._xy.y = -x
        u = MoleculeContainer.unpack(m.pack())
        ck.case(('xy', x), nontrivial=x != 0)
        want = layout_oracle(m)
        if want is not None and bytes(m.pack(compressed=False)) != want:
            ck.counterexample(f'xy-layout:{x!r}', 'coordinate bytes differ from the published half-float layout', {'x': x}, list(m.pack(compressed=False)[8:12]),
                              list(want[8:12]), 'independent half-float bits (exact rational arithmetic)',
                              replay_py=REPLAY_PRE + f'm=smiles("CC"); m._atoms[1]._xy.x={x!r}; print(list(m.pack(compressed=False)[8:12]))')
        if not (half_ok(x, u._atoms[1].x) and half_ok(-x, u._atoms[2].y)):
            ck.counterexample(f'xy-value:{x!r}', 'coordinate not preserved to half precision', {'x': x}, [u._atoms[1].x, u._atoms[2].y], 'half(x)',
                              'independent half-float truncation',
                              replay_py=REPLAY_PRE + f'm=smiles("CC"); m._atoms[1]._xy.x={x!r}; print(MoleculeContainer.unpack(m.pack())._atoms[1].x)')
    v0pool = [smiles(x) for x in ('C', 'CCCCCC', 'C/C=C/CCC', 'CCCCCCCCCCC', 'C/C=C/CCCCCCCC', 'CCO', 'O', 'CC(C)(C)c1ccccc1', 'C[C@H](N)O')]
    search_rxn_versions(ck, rng, v0pool)
    # reactions with every combination of empty sides
    pool = [smiles(s) for s in ('C', 'CCO', 'C=O', '[Na+].[Cl-]', 'c1ccccc1', 'C[C@H](N)O')]
    for (r, a, p) in itertools.product(range(3), repeat=3):
        if r + a + p == 0:
            continue
        mols3 = [rng.choice(pool).copy() for _ in range(r + a + p)]
        rx = ReactionContainer(mols3[:r], mols3[r + a:], mols3[r:r + a])
        key = f'{r}{a}{p}'
        try:
            data = rx.pack()
            u = ReactionContainer.unpack(data)
            roles = [[observe(x) for x in side] for side in (u.reactants, u.reagents, u.products)]
            want = [[observe(x) for x in side] for side in (rx.reactants, rx.reagents, rx.products)]
            ck.case(('rxn-rt', r, a, p), nontrivial=r + a + p > 0)
            if roles != want:
                ck.counterexample(f'rxn-roundtrip:{key}', f'reaction pack -> unpack changes roles/molecules (role sizes {r},{a},{p})', {'reaction': str(rx)},
                                  str(u), str(rx), 'API round trip',
                                  replay_py=REPLAY_PRE + f'r=smiles({str(rx)!r}); print(ReactionContainer.unpack(r.pack()))')
            if r + a + p:
                ln = ReactionContainer.pack_len(data)
                if [list(x) for x in ln] != [[len(x) for x in side] for side in (rx.reactants, rx.reagents, rx.products)]:
                    ck.counterexample(f'rxn-pack_len:{key}', f'reaction pack_len wrong (role sizes {r},{a},{p})', {'reaction': str(rx)}, ln,
                                      [[len(x) for x in side] for side in (rx.reactants, rx.reagents, rx.products)], 'atom counts')
                for compressed in (True, False):
                    dd = rx.pack(compressed=compressed)
                    for wname, dw in (('pach', rx.pach(compressed=compressed)),) + ((('bytes(r)', bytes(rx)),) if compressed else ()):
                        if bytes(dw) != bytes(dd):
                            ck.counterexample(f'rxn-writer-differs:{wname}:{key}', f'{wname} is not the pack written by pack()', {'reaction': str(rx)}, list(dw[:16]), list(dd[:16]), 'API')
                    for rname, reader in rxn_readers():
                        ut = reader(dd, compressed=compressed)
                        if not isinstance(ut, ReactionContainer) or [[observe(x) for x in side] for side in (ut.reactants, ut.reagents, ut.products)] != want:
                            ck.counterexample(f'rxn-top-unpack:{rname}:{key}', f'{rname} of a reaction pack (compressed={compressed}) is not the reaction', {'reaction': str(rx)},
                                              f'{type(ut).__name__} {ut}', str(rx), 'API round trip',
                                              replay_py=REPLAY_PRE + f'import chython; r=smiles({str(rx)!r}); print({rname}(r.pack(compressed={compressed}), compressed={compressed}))')
        except Exception as e:
            ck.counterexample(f'rxn-raises:{key}', f'reaction pack/unpack/pack_len raises {type(e).__name__} (role sizes {r},{a},{p})', {'reaction': str(rx)},
                              repr(e), 'round trip', 'API round trip')
    # published reference packs keep decoding to the same structures
    from rdkit import Chem, RDLogger
    RDLogger.DisableLog('rdApp.*')
    z = zipfile.ZipFile(os.path.join(common.REPO, 'pach/SI.zip'))
    names = sorted((x for x in z.namelist() if x.endswith('.pach')), key=lambda s: int(os.path.basename(s)[:-5]))
    smis = corpus.lipo()
    idx = sorted(rng.sample(range(len(names)), min(n_ref, len(names))))
    agree = 0
    for i in idx:
        nm = names[i]
        k = int(os.path.basename(nm)[:-5])
        ck.case(('ref', k))
        try:
            u = MoleculeContainer.unpack(z.read(nm))
        except Exception as e:
            ck.counterexample(f'refpack-raises:{k}', f'published reference pack {nm} no longer decodes', {'file': nm}, repr(e), smis[k], 'pach/SI.zip')
            continue
        a = Chem.MolFromSmiles(smis[k])
        bb = Chem.MolFromSmiles(str(u))
        if a is None or bb is None:
            continue
        if Chem.MolToSmiles(a) == Chem.MolToSmiles(bb):
            agree += 1
        elif Chem.MolToSmiles(a, isomericSmiles=False) != Chem.MolToSmiles(bb, isomericSmiles=False):
            ck.counterexample(f'refpack:{k}', f'published reference pack {nm} decodes to another structure', {'file': nm, 'csv': smis[k]}, str(u), smis[k],
                              'RDKit canonical SMILES of pach/lipophilicity.csv entry')
    ck.extra['reference_packs_checked'] = len(idx)
    ck.extra['reference_packs_identical_incl_stereo'] = agree


def run(ck):
    ck.trusted += ['tools/pyx2py.py (fail-closed .pyx -> Python transpiler: the claim is about the .pyx SOURCE as transpiled, the compiled extension cannot be built here)',
                   'harness/pyxinject.py', 'correspondence runner harness/checks/C10.py + harness/coqcases.py', 'CachedMethods shim', 'CPython 3.12.1',
                   'zlib (not modelled)', 'RDKit (reference-pack comparison only)']
    ck.assumptions += ['coordinates enter the Pack model as the 4 bytes produced by double_to_float16 (F16 is modelled and tied separately)',
                       'reading outside the byte string is undefined behaviour in the compiled code; model and transpiled code treat it as an error']
    ck.extra['rule'] = ('correspondence: seed + boundary molecules (numbers around 16/256/4095, 300 atoms, chains with every bond count mod 8 and all orders, 15 neighbours, every '
                        'element x extreme isotopes x random charge/H/radical, corpus sample with renumbering) -> bytes of pack, pack size, bytes of the declarative layout_v2, the '
                        'hypothesis pack_ok, raw unpack result and pack_len compared with / evaluated in the Coq model by vm_compute; malformed packs: truncations at every block '
                        'border, single corrupted bytes (decodes / IndexError / KeyError must agree; uninitialised reads and invalid element numbers are counted as undefined), every '
                        'bit of the header cis/trans count, molecules outside the limits (ValueError); reactions for all role-size triples 0..2 plus larger; half floats on exact '
                        'dyadics; public decode entry points end to end (chython.unpack dispatcher, MoleculeContainer.unpack, ReactionContainer.unpack) on version 2 / version 0 / mixed '
                        'reaction packs and malformed input (first byte sweep, truncations, bad molecule header inside a reaction, wrong role counts) against PackTop over PackMol and the '
                        'bodies translated from the sources; non-trivial = more than one atom. '
                        'search: API round trip compressed/uncompressed, every public writer (pack, pach, bytes) x every public reader (unpack, unpach, chython.unpack, chython.unpach, '
                        'chython.containers.unpack) on version 2 and independently written version 0 packs against the never-packed object, pack bytes against an independent re-implementation of the published layout (bit string from the docstring), '
                        'half-float coordinates, a 4095-atom pack, reference packs vs lipophilicity.csv through RDKit; after a correspondence failure the same oracles run on the '
                        'disagreeing molecules and renumbered variants')
    t_start = __import__('time').time()
    proved = common.standard_proof_steps(ck, translators=['elements', 'packspec', 'packtop'])
    rng = random.Random(ck.seed)
    try:
        import pyx2py
        import pyxinject
        mods = pyxinject.inject()
    except Exception as e:
        ck.oblige('transpile .pyx codecs', False, 'translator', repr(e))
        ck.unchecked('transpiler tools/pyx2py.py on the .pyx codecs', f'tie-broken: {e!r}')
        return
    ck.oblige('transpile .pyx codecs (fail closed)', True, 'translator')
    import time
    t0 = time.time()
    timing = ck.extra.setdefault('timing_s', {})
    timing['proof_steps_and_transpile'] = round(t0 - t_start, 1)
    mols = boundary_molecules(rng, 60 if ck.tier == 'quick' else 1200, ck.tier)
    timing['generate'] = round(time.time() - t0, 1); t0 = time.time()
    corr(ck, mods['unpack'], mols)
    timing['corr_molecules'] = round(time.time() - t0, 1); t0 = time.time()
    corr_states(ck, mods, mols)
    timing['corr_states'] = round(time.time() - t0, 1); t0 = time.time()
    corr_api(ck, mols)
    timing['corr_api'] = round(time.time() - t0, 1); t0 = time.time()
    corr_malformed(ck, mods['unpack'], mols, rng)
    timing['corr_malformed'] = round(time.time() - t0, 1); t0 = time.time()
    corr_reactions(ck, rng)
    timing['corr_reactions'] = round(time.time() - t0, 1); t0 = time.time()
    corr_top(ck, mols, random.Random(ck.seed + 7))
    timing['corr_top'] = round(time.time() - t0, 1); t0 = time.time()
    corr_f16(ck, mods, rng)
    timing['corr_f16'] = round(time.time() - t0, 1); t0 = time.time()
    search(ck, mols, rng, 200 if ck.tier == 'quick' else 4200)
    timing['search'] = round(time.time() - t0, 1)
    ck.extra['proved'] = proved
