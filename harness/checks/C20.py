"""C20 RDKit bridge (chython/utils/rdkit.py).

proof:          coq/props/C20.v over the regenerated tables (Gen.RdkitTables from utils/rdkit.py, Gen.StereoTables, Gen.Elements)
correspondence: the real to_rdkit_molecule / from_rdkit_molecule are run with two taps (the RDKit molecule just before
                SanitizeMol; the chython molecule just before fix_structure) and every intermediate result is compared with the
                Coq model: whole-molecule atom/bond transfer (to_mol / from_mol), chiral tags (to_chiral_tag / from_chiral_tag,
                with the neighbour order RDKit really used), double-bond labels (to_bond_stereo_sel / from_bond_stereo),
                conformers, the dictionaries on every BondType member, `_inorganic` on all 118 symbols, malformed inputs.
search:         property-level oracles on the real code with the real RDKit, independent of the model (see search())."""
import collections
import itertools
import random
import struct

import boot  # noqa
import common
import coqcases
import coqmol
import corpus
from coqfmt import zraw, b, lst, opt, tup, s as cstr

replay = common.generic_replay

IMPORTS = 'Graph PeriodicTable Stereo Rdkit RdkitRegistry RdkitBonds RdkitRings'
EXTRA = '''From Gen Require Import Elements RdkitTables RdkitSign.
From Model Require Import RdkitApi.
Open Scope string_scope.
Open Scope Z_scope.
Definition rbond_eqb (p q : Z * Z * string) : bool :=
  let '(a, b, t) := p in let '(c, d, u) := q in (a =? c) && (b =? d) && String.eqb t u.
Definition cbond_eqb (p q : Z * Z * Z) : bool :=
  let '(a, b, t) := p in let '(c, d, u) := q in (a =? c) && (b =? d) && (t =? u).
Definition rmol_eqb (x y : rmol) : bool := list_eqb ratom_eqb (fst x) (fst y) && list_eqb rbond_eqb (snd x) (snd y).
Definition natom_eqb (p q : Z * catom) : bool := (fst p =? fst q) && catom_eqb (snd p) (snd q).
Definition cmol_eqb (x y : cmol) : bool := list_eqb natom_eqb (fst x) (fst y) && list_eqb cbond_eqb (snd x) (snd y).
Definition sym_of (t : list (Z * string)) (z : Z) : string := match zget t z with Some s => s | None => "" end.
Definition isH_of (l : list Z) (x : Z) : bool := zmem x l.
Definition pos_eqb (p q : pos3) : bool :=
  let '(a, b, c) := p in let '(d, e, f) := q in (a =? d) && (b =? e) && (c =? f).
Definition conf_eqb (x y : conformer) : bool := Bool.eqb (fst x) (fst y) && list_eqb pos_eqb (snd x) (snd y).
Definition xy_eqb (p q : Z * Z) : bool := (fst p =? fst q) && (snd p =? snd q).
Definition ref_eqb (p q : Z * Z * string) : bool := rbond_eqb p q.
Definition to_ok keep m exp := pyres_eqb rmol_eqb (to_mol keep m) exp.
Definition from_ok symt impls cs r exp :=
  pyres_eqb cmol_eqb (from_mol (sym_of symt) impls (fst (from_conformers (List.length (fst r)) cs)) r) exp.
Definition tconf_ok nums xy confs exp := pyres_eqb (list_eqb conf_eqb) (to_conformers_dict nums xy confs) exp.
Definition to_err_ok keep m xy confs exp :=
  pyres_eqb (fun _ _ => false)
    (match to_mol keep m with
     | Err e => Err e
     | Ok _ => match to_conformers_dict (map fst (fst m)) xy confs with Err e => Err e | Ok _ => Ok tt end
     end) exp.
Definition fconf_ok n cs xy confs :=
  let r := from_conformers n cs in list_eqb xy_eqb (fst r) xy && list_eqb (list_eqb pos_eqb) (snd r) confs.
Definition ttag_ok hs order env s exp := pyres_eqb (option_eqb String.eqb) (to_chiral_tag (isH_of hs) order env s) exp.
Definition ftag_ok hs order env tag exp := pyres_eqb (option_eqb Bool.eqb) (from_chiral_tag (isH_of hs) order env tag) exp.
Definition tbs_ok center n m env s exp := pyres_eqb (option_eqb ref_eqb) (to_bond_stereo_sel center n m env s) exp.
Definition fbs_ok hs e1 e2 nn nm label exp := pyres_eqb (option_eqb Bool.eqb) (from_bond_stereo (isH_of hs) e1 e2 nn nm label) exp.
Definition nb_of (t : list (Z * list Z)) (k : Z) : list Z := match zget t k with Some l => l | None => nil end.
Definition lab_eqb (p q : Z * option bool) : bool := (fst p =? fst q) && option_eqb Bool.eqb (snd p) (snd q).
Definition ttags_ok hs th nums nb atoms exp :=
  pyres_eqb (list_eqb (option_eqb String.eqb)) (to_tags (isH_of hs) th nums (nb_of nb) 0 atoms) exp.
Definition ftags_ok hs th nb tags exp := pyres_eqb (list_eqb lab_eqb) (from_tags (isH_of hs) th (nb_of nb) 0 tags) exp.
Definition blab_eqb (p q : Z * Z * option bool) : bool :=
  let '(a, b, s) := p in let '(c, d, u) := q in (a =? c) && (b =? d) && option_eqb Bool.eqb s u.
Definition tbl_ok centers ct bonds exp := pyres_eqb (list_eqb (option_eqb ref_eqb)) (to_bond_labels centers ct bonds) exp.
Definition fbl_ok hs ct rbonds exp := pyres_eqb (list_eqb blab_eqb) (from_bond_labels (isH_of hs) ct rbonds) exp.
Definition pmem (k : Z * Z) (l : list (Z * Z)) : bool := existsb (fun q => (fst k =? fst q) && (snd k =? snd q)) l.
Definition eraser (ea : list Z) (eb : list (Z * Z)) (l : stereo_labels) : stereo_labels :=
  (map (fun p => (fst p, if zmem (fst p) ea then None else snd p)) (fst l),
   map (fun p => (fst p, if pmem (fst p) eb then None else snd p)) (snd l)).
Definition slab_eqb (x y : stereo_labels) : bool := list_eqb lab_eqb (fst x) (fst y) && list_eqb blab_eqb (snd x) (snd y).
Definition final_ok ea eb hs th ct nb tags rbonds exp :=
  pyres_eqb slab_eqb (from_stereo_final (eraser ea eb) (isH_of hs) th ct (nb_of nb) tags rbonds) exp.
Definition adj_eqb (x y : list (Z * list (Z * Z))) : bool := list_eqb (pair_eqb Z.eqb (list_eqb xy_eqb)) x y.
Definition badj_ok nums bonds exp := adj_eqb (map (fun nl => (fst nl, map (fun mb => (fst mb, b_ord (snd mb))) (snd nl))) (build_adj nums bonds)) exp.
Definition sub_xy (a b : list (Z * Z)) : bool := forallb (fun p => existsb (xy_eqb p) b) a.
(* the hypothesis adjacency_of of the end-to-end theorem, as a test: every atom's neighbours (with orders) are the bonds of
   data.bonds() incident to it, as sets of equal size *)
Definition adjacency_b (g : mol) (B : list (Z * Z * Z)) : bool :=
  forallb (fun k => let p := map (fun mb => (fst mb, b_ord (snd mb))) (nbrs g k) in let q := incident k B in
                    sub_xy p q && sub_xy q p && Nat.eqb (List.length p) (List.length q)) (ids g).
(* + data.bonds() of the live molecule is the model function bonds_of of the printed molecule, which passes the well-formedness test
   (hypothesis of C20_bonds_of_adjacency / C20_bridge_tetrahedra_end_to_end_wf) *)
Definition reg_ok g B exp := list_eqb (pair_eqb Z.eqb (list_eqb Z.eqb)) (stereogenic_tetrahedrons_of g) exp && adjacency_b g B &&
  list_eqb cbond_eqb (bonds_of g) B && wf_mol g.
Definition plain_ok a bb exp := Bool.eqb (uses_plain_order a bb) exp.
Definition ringb_ok sizes exp := Bool.eqb (ring_bond_chiral sizes) exp.
Definition ringt_ok ar n m exp := Bool.eqb (ring_terminal ar n m) exp.
Definition rbo_ok t exp := pyres_eqb Z.eqb (rdkit_bond_order t) exp.
(* direct calls of the two sign functions against their TRANSLATED bodies (Gen.RdkitSign), every argument shape incl. s = None *)
Definition lab_of (t : list (Z * Z * option bool)) (i j : Z) : pyres (option bool) :=
  match pget t (i, j) with Some v => Ok v | None => Err KeyError end.
Definition sth_ok hs th lab n env s exp := pyres_eqb (option_eqb Bool.eqb) (g_translate_th (isH_of hs) th lab n env s) exp.
Definition sct_ok hs ct centers bl n m nn nm s exp :=
  pyres_eqb (option_eqb Bool.eqb) (g_translate_ct (isH_of hs) ct centers (lab_of bl) n m nn nm s) exp.
Definition bt_ok o exp := pyres_eqb String.eqb (bond_type o) exp.
'''

# bond orders as an independent table (written from RDKit's documentation, not from chython or the Coq text)
ORDER_OF_TYPE = {'SINGLE': 1, 'DOUBLE': 2, 'TRIPLE': 3, 'AROMATIC': 4, 'DATIVE': 8, 'ZERO': 8, 'UNSPECIFIED': 8}


def exn_name(e):
    if isinstance(e, KeyError):
        return 'KeyError'
    if isinstance(e, TypeError):       # Boost.Python.ArgumentError is a TypeError
        return 'TypeError'
    if isinstance(e, ValueError):
        return 'ValueError'
    if isinstance(e, IndexError):
        return 'IndexError'
    if isinstance(e, AttributeError):
        return 'AttributeError'
    return 'OtherError'


def bits(v):
    """IEEE-754 bit pattern of a double as a signed 64-bit integer (0.0 -> 0)"""
    return struct.unpack('<q', struct.pack('<d', float(v)))[0]


# ---------------------------------------------------------------------------------------------------------------
# snapshots of the two kinds of molecule (plain data, read through the public getters)

def rd_snapshot(mol):
    atoms = [(a.GetAtomicNum(), a.GetIsotope(), a.GetFormalCharge(), a.GetNumRadicalElectrons(), a.GetNumExplicitHs(),
              a.GetAtomMapNum()) for a in mol.GetAtoms()]
    bonds = [(bd.GetBeginAtomIdx(), bd.GetEndAtomIdx(), bd.GetBondType().name) for bd in mol.GetBonds()]
    tags = [(a.GetChiralTag().name, [x.GetIdx() for x in a.GetNeighbors()]) for a in mol.GetAtoms()]
    bst = [(bd.GetStereo().name, list(bd.GetStereoAtoms())) for bd in mol.GetBonds()]
    confs = [(bool(c.Is3D()), [(bits(p[0]), bits(p[1]), bits(p[2])) for p in c.GetPositions()]) for c in mol.GetConformers()]
    return {'atoms': atoms, 'bonds': bonds, 'tags': tags, 'bst': bst, 'confs': confs}


def ch_snapshot(mol):
    atoms = [(n, a.atomic_number, a.isotope, a.charge, a.is_radical, a.implicit_hydrogens, getattr(a, '_parsed_mapping', None), bits(a.x), bits(a.y),
              a._stereo) for n, a in mol.atoms()]
    bonds = [(n, m, int(bd), bd._stereo) for n, m, bd in mol.bonds()]
    confs = None
    if hasattr(mol, '_conformers'):
        confs = [{n: (bits(v[0]), bits(v[1]), bits(v[2])) for n, v in c.items()} for c in mol._conformers]
    return {'atoms': atoms, 'bonds': bonds, 'confs': confs}


class TapTo:
    """runs to_rdkit_molecule and keeps a snapshot of the RDKit molecule as the chython code built it (before SanitizeMol)"""

    def run(self, data, **kw):
        import chython.utils.rdkit as br
        self.pre = None
        self.exc = None
        orig = br.SanitizeMol

        def hook(mol, *a, **k):
            self.pre = rd_snapshot(mol)
            return orig(mol, *a, **k)
        br.SanitizeMol = hook
        try:
            return br.to_rdkit_molecule(data, **kw)
        except Exception as e:
            self.exc = e
            return None
        finally:
            br.SanitizeMol = orig


class TapFrom:
    """runs from_rdkit_molecule and keeps a snapshot of the chython molecule before fix_structure / fix_stereo, together
    with the stereo registries the translation used"""

    def run(self, rd):
        import chython.utils.rdkit as br
        from chython.containers.molecule import MoleculeContainer
        self.pre = None
        self.exc = None
        orig = MoleculeContainer.fix_structure
        tap = self

        def hook(mol, *a, **k):
            if tap.pre is None:
                tap.pre = ch_snapshot(mol)
                tap.pre['hs'] = [n for n, at in mol.atoms() if at.atomic_number == 1]
                tap.pre['th'] = dict(mol.stereogenic_tetrahedrons) if tap.want_th else {}
                tap.pre['ct'] = dict(mol.stereogenic_cis_trans) if tap.want_ct else {}
            return orig(mol, *a, **k)
        from rdkit.Chem import BondStereo, ChiralType
        self.want_th = any(a.GetChiralTag() in (ChiralType.CHI_TETRAHEDRAL_CW, ChiralType.CHI_TETRAHEDRAL_CCW) for a in rd.GetAtoms())
        self.want_ct = any(bd.GetStereo() in (BondStereo.STEREOE, BondStereo.STEREOZ) for bd in rd.GetBonds())
        MoleculeContainer.fix_structure = hook
        try:
            return br.from_rdkit_molecule(rd)
        except Exception as e:
            self.exc = e
            return None
        finally:
            MoleculeContainer.fix_structure = orig


# ---------------------------------------------------------------------------------------------------------------
# printers

def catom_term(num, iso, chg, rad, hyd, mp, x, y):
    return f'(mkC {zraw(num)} {opt(iso, zraw)} {zraw(chg)} {b(rad)} {opt(hyd, zraw)} {opt(mp, zraw)} {zraw(x)} {zraw(y)})'


def ratom_term(t):
    return '(mkR ' + ' '.join(zraw(v) for v in t) + ')'


def rbond_term(t):
    return f'({zraw(t[0])}, {zraw(t[1])}, {cstr(t[2])})'


def cbond_term(t):
    return f'({zraw(t[0])}, {zraw(t[1])}, {zraw(t[2])})'


def pos_term(p):
    return f'({zraw(p[0])}, {zraw(p[1])}, {zraw(p[2])})'


def conf_term(c):
    return f'({b(c[0])}, {lst(c[1], pos_term)})'


def env_term(e):
    return f'({zraw(e[0])}, {zraw(e[1])}, {opt(e[2], zraw)}, {opt(e[3], zraw)})'


def pair_term(p):
    return f'({zraw(p[0])}, {zraw(p[1])})'


# ---------------------------------------------------------------------------------------------------------------
# input pools

STEREO_SMILES = [
    'C[C@H](N)C(=O)O', 'C[C@@H](N)C(=O)O', 'N[C@@]([H])(C)C(=O)O', '[C@](F)(Cl)(Br)I', 'F[C@](Cl)(Br)I', '[C@H](F)(Cl)Br',
    'F[C@H](Cl)Br', 'F[C@@]([H])(Cl)Br', '[H][C@](F)(Cl)Br', 'F/C=C/Cl', 'F/C=C\\Cl', 'F/C(Cl)=C(/Br)I', 'C(/F)(\\Cl)=C(/Br)I',
    'F/C([H])=C([H])/Cl', 'C/C=C/C=C\\C', 'C/C=C/[C@H](O)CC', 'CC=[C@]=CC', 'C/C=C=C=C/C', 'F/C=C=C=C/Cl',
    'C[C@@H]1CC[C@H](C)CC1', 'C[C@H]1CC[C@H](C)CC1', 'C[C@]12CC[C@H](C1)C2(C)C', 'OC[C@H]1O[C@@H](O)[C@H](O)[C@@H](O)[C@@H]1O',
    'N1[C@H](C)CC1', '[C@@]1(F)(Cl)CCO1', 'O[C@]12CCC[C@@]1(N)CC2', 'C1CC[C@]12CCCO2', '[C@]12(F)CCC[C@@](Cl)(CC1)C2',
    'C[S@](=O)CC', 'C[N@+](CC)(CCC)CCCC', 'C[P@](CC)c1ccccc1', 'C/C=N/O', 'C/N=N/C', 'C[C@H](F)/C=C/[C@@H](C)Cl',
    'C1CCCCCC/C=C/1', 'C1CC/C=C\\CC1', 'O=C(O)[C@H](O)[C@@H](O)C(=O)O', 'O=C(O)[C@H](O)[C@H](O)C(=O)O', 'C[C@H](O)[C@@H](C)O',
    'CC(C)[C@H](C)[C@@H](C)C(C)C', 'C[C@@](N)(CC)C(=O)O', 'F[C@](Cl)(Br)[C@@](F)(Cl)I', 'C[C@H]1C[C@@H]1C', 'C[C@H]1CO1',
    '[2H][C@H](C)N', 'C[C@H]([2H])O', '[13CH3][C@H](N)C(=O)O', 'C[C@H](N)C(=O)[O-]', 'C[C@H]([NH3+])C(=O)[O-]',
    'C[C@@H](c1ccccc1)N', 'c1ccccc1/C=C/c1ccccc1', 'C(=C/c1ccccn1)\\c1ccccc1', 'CC(/C=C/C1=C(C)CCCC1(C)C)=C\\C=C\\C(C)=C\\C(=O)O']
METAL_SMILES = [
    '[Cu]~N', '[C-]#[O+]~[Fe]', '[Fe]~[C-]#[O+]', 'N~[Pt](~N)(Cl)Cl', '[Pt](Cl)(Cl)(N)N', 'C[Mg]Br', '[Li]C', 'C[Hg]C',
    'Cl[Sn]Cl', 'C[Zn]C', '[Na+].[Cl-]', '[K+].[O-]C(C)=O', '[Fe+2].[O-]C=O.[O-]C=O', 'O~[Cu]~O', 'c1ccccc1~[Cr]', 'C1=CC=CC1~[Fe]',
    'N~[Co+3](~N)(~N)(~N)(~N)~N', '[Fe]~[Fe]', 'N~O', 'Cl[Pd]Cl', 'C[Al](C)C', 'CC[Pb](CC)(CC)CC', 'O=[Os](=O)(=O)=O',
    'F[B-](F)(F)F', 'C[Si](C)(C)C', 'C[Se]C', 'O=[Mn](=O)(=O)[O-]', '[Cu+2].[O-]S(=O)(=O)[O-]', 'Cl[Ti](Cl)(Cl)Cl', 'C[C@H](N~[Cu])C(=O)O']
ATOM_SMILES = [
    '[13CH4]', '[2H]O[2H]', '[3H]C', '[14C](=O)=O', 'C[15NH2]', '[18OH2]', 'Cl[37Cl]', '[CH3]', 'C[CH2]', '[OH]', 'C[O]', 'C[NH]',
    'C[S]', '[CH3-]', '[CH3+]', 'C[N+](C)(C)C', 'C[O-]', '[NH4+]', 'C[N+]#[C-]', '[O-][N+](=O)C', 'C[S+](C)C', 'C[P+](C)(C)C',
    '[H][H]', '[H+]', '[H-]', '[He]', '[Fe]', '[Cu]', '[Zn]', '[Xe]', 'F[Xe]F', 'OS(=O)(=O)O', 'O=P(O)(O)O', 'FS(F)(F)(F)(F)F',
    'ClI(Cl)Cl', 'C#N', 'C#C', '[C-]#[O+]', 'N#N', 'O=O', 'C', 'O', 'N', 'CC(C)(C)C', '[CH2:7]=[CH2:3]', '[CH3:2][OH:1]',
    'c1ccccc1', 'c1ccncc1', 'c1cc[nH]c1', 'c1ccoc1', 'c1ccsc1', 'c1ccc2ccccc2c1', 'Cn1cnc2ccccc12', 'c1ccc2[nH]ccc2c1', 'O=c1cc[nH]cc1',
    'c1ccccc1-c1ccccc1', 'C1=CC=CC=C1', 'C1=CC=CN=C1', 'C1=COC=C1', 'O=C1C=CC(=O)C=C1', 'c1cnc[nH]1', 'c1ccc[n+]([O-])c1', '[O-][n+]1ccccc1']
# atoms that carry a formal charge AND an isotope label (each attribute of the per-atom chain together with the others)
ISO_CHARGE_SMILES = ['[15NH4+]', 'C[15N+](C)(C)C', 'CC(=O)[18O-]', '[13C-]#[O+]', 'c1cc[15nH+]cc1', '[13CH3-]', '[13CH3+]', 'C[18OH+]C', '[2H+]', '[2H-]',
                     '[35Cl-]', '[37Cl-].[23Na+]', 'C[13C](=O)[O-]', 'C[34S-]', '[15N-]=[N+]=NC', 'C[15N+]#[C-]', 'C[13C-]=[N+]=N', '[13CH2]C |^1:0|',
                     '[15NH3+][C@@H](C)C(=O)[18O-]', 'C[14C@H]([15NH3+])C(=O)[O-]']
# E/Z double bonds inside rings of 7, 8, 9 and more atoms (chython and RDKit keep the configuration from eight atoms on)
RING_ALKENE_SMILES = ['C1CCC/C=C/CC1', 'C1CCC/C=C\\CC1', 'C1CC/C=C\\CC1', 'C1CCCC/C=C/CC1', 'OC1CCC/C=C/CC1', 'C1CC/C(C)=C(C)/CCC1',
                      'CC1CC/C=C/CCC1', 'CC1CC/C=C\\CCC1', 'OC1CCC/C=C\\CC1', 'C1CCCC/C=C\\CC1', 'C1CCCC/C=C/CCC1', 'C1C/C=C\\CC1', 'O=C1CC/C=C/CCC1',
                      'C1CCC/C=C/C/C=C/CCC1', 'C1CC/C(C)=C(C)\\CCC1', 'N1CCC/C=C/CC1', 'C1CCC/C=C/CC1C(=O)O', 'C/1CCCCCC\\C=1', 'CCC/C=C/CCC',
                      'C1CCCCC/C=C/CCCCC1']


def ring_linker_smiles():
    """E/Z double bonds whose two ends are ring atoms of two DIFFERENT rings (rings of 3-9 atoms on either side, each made unsymmetric by a
    ring oxygen or a methyl group next to the double bond), biaryl-fused members of the same class (indigo / isoindigo / thioindigo / biindanylidene
    type), and controls: one end only in a ring, both ends in one ring of a bicycle, the two ends in different rings of one spiro / fused system"""
    out = []
    for a in range(3, 10):
        for b_ in range(3, 10):
            for d in ('/', '\\'):
                out.append(f'O1{"C" * (a - 2)}/C1=C1{d}{"C" * (b_ - 2)}O1')
        for d in ('/', '\\'):
            out.append(f'CC1{"C" * (a - 2)}/C1=C1{d}{"C" * (a - 2)}C1C' if a > 3 else f'CC1C/C1=C1{d}CC1C')
            out.append(f'C/C=C1{d}{"C" * (a - 2)}O1')                       # control: one end in a ring
    for d in ('/', '\\'):
        out += [f'O=C1Nc2ccccc2/C1=C1{d}C(=O)Nc2ccccc12', f'O=C1c2ccccc2S/C1=C1{d}Sc2ccccc2C1=O', f'O=C1c2ccccc2N/C1=C1{d}Nc2ccccc2C1=O',
                f'C1Cc2ccccc2/C1=C1{d}CCc2ccccc12', f'O=C1CCC/C1=C1{d}CCCC1=O', f'CC1CCC/C(C1)=C1{d}CCCC(C)C1',
                f'CC1CC2CCC1/C2=C1{d}CCCO1', f'C1CCC2(CC1)CC/C2=C1{d}CCCCO1', f'O1CCC/C1=C1{d}OCCC12CCCC2']
    return out


# tetrahedral centres whose arms differ ONLY by the configuration of a double bond (and controls: the same with another labelled
# centre, double bonds whose ends differ only by tetrahedral configuration, allene arms); no other labelled centre in the molecule
EZ_DEPENDENT_SMILES = ['C/C=C/[C@H](O)/C=C\\C', 'CC/C(C)=C\\[C@H](N)/C=C(\\C)CC', 'C/C(CC)=C/[C@@H](N)/C=C(/CC)C',
                       'F/C(Cl)=C\\[C@H](N)/C=C(\\Cl)F', 'C/C=C/[C@@H](O)/C=C\\C', 'C/C=C/[C@H](/C=C\\C)C1CC1', 'F/C=C/[C@](C)(Cl)/C=C\\F', 'C/C=C/[C@H](N)/C=C\\C',
                       'C/C=C\\[C@H](O)/C=C/C', 'CC/C=C/[C@@H](F)/C=C\\CC', 'C/C=C/[C@H](O)/C=C\\C.[Na+].[Cl-]', 'O[C@H](/C=C/c1ccccc1)/C=C\\c1ccccc1',
                       'C/C=C/[C@]1(/C=C\\C)CCO1', 'C/C=C/[C@H](O)/C=C\\C.F[C@H](Cl)Br', 'F/C=C([C@H](C)Cl)/[C@@H](C)Cl', 'C[C@@H](O)[C@H](O)[C@H](C)O',
                       'C/C=C/C(/C=C\\C)=C/F', 'C/C=C/[C@H](C=C)/C=C\\C', 'C/C=C/[C@H](CC=C)/C=C\\C',
                       'CC/C(C)=C\\[C@H](O)/C=C(/CC)C', 'CC/C(C)=C(F)\\[C@H](N)/C(F)=C(\\C)CC', 'CC/C(C)=C/[C@H](N)/C=C(\\C)CC',
                       'OC/C(C)=C\\[C@H](N)/C=C(\\C)CO', 'CC/C(C)=C\\[C@]1(/C=C(\\C)CC)CCO1']
# the members whose centre is chiral only through two constitutionally equal arms with two different far-end substituents each: these
# go through many atom numberings (the perception must not depend on which substituent has the lower number)
NUMBERING_FAMILY = ['CC/C(C)=C\\[C@H](N)/C=C(\\C)CC', 'CC/C(C)=C\\[C@@H](N)/C=C(\\C)CC', 'F/C(Cl)=C\\[C@H](N)/C=C(\\Cl)F',
                    'CC/C(C)=C(F)\\[C@H](N)/C(F)=C(\\C)CC', 'C/C=C/[C@H](O)/C=C\\C', 'CC/C(C)=C/[C@H](N)/C=C(\\C)CC']
BARE_SMILES = ['[Na]', '[K]', '[Li]', '[Mg]', '[Ca]', '[Al]', '[B]', '[Si]', '[P]', '[S]', '[Se]', '[Ge]', '[As]', '[Sn]', '[Pb]',
               '[Na].[Cl]', '[S].C', '[Be]', '[Ga]', '[In]', '[Sb]', '[Bi]', '[Te]', '[Rb]', '[Cs]', '[Sr]', '[Ba]']


def dative_smiles():
    """one donor of every element of the non-metal list the bridge knows, bound to a metal by an order-8 bond, donor written
    first and metal written first"""
    donors = ['N', 'O', 'CP(C)C', 'CSC', 'C[Se]C', 'C[Te]C', 'C[As](C)C', 'C[Sb](C)C', 'Cl', 'Br', 'I', 'F', '[C-]#[O+]', 'C[Si](C)C',
              'C[Ge](C)(C)C', '[H][H]', '[He]', '[Ne]', '[Ar]', '[Kr]', '[Xe]', 'CB(C)C']
    metals = ['[Pd]', '[Pt+2]', '[Fe]', '[Cu+]', '[Ni]', '[Co]', '[Zn+2]', '[Ag+]']
    out = []
    for i, d in enumerate(donors):
        mt = metals[i % len(metals)]
        # the bond starts at the first atom of the donor string for 'N', 'O', halogens, noble gases; for the others at a
        # branch written on the hetero atom
        if d.startswith('C') and len(d) > 2 and '(' in d:
            head, rest = d.split('(', 1)
            out.append(f'{head}(~{mt})({rest}')
            out.append(f'{mt}~{head[1:]}({head[0]})({rest}' if not head[1:].startswith('[') else f'{mt}~{head[1:]}(C)({rest}')
        elif d in ('CSC', 'C[Se]C', 'C[Te]C'):
            mid = d[1:-1]
            out.append(f'C{mid}(~{mt})C')
            out.append(f'{mt}~{mid}(C)C')
        elif d == '[C-]#[O+]':
            out.append(f'{mt}~[C-]#[O+]')
            out.append(f'[O+]#[C-]~{mt}')
        elif d == '[H][H]':
            out.append(f'[H]([H])~{mt}')
            out.append(f'{mt}~[H][H]')
        else:
            out.append(f'{d}~{mt}')
            out.append(f'{mt}~{d}')
    return out


def perm_smiles():
    """one stereocentre / one double bond spelled in every substituent order, with and without ring closures"""
    out = []
    subs = ['F', 'Cl', 'Br', 'I']
    for p in itertools.permutations(subs):
        for mark in ('@', '@@'):
            out.append(f'{p[0]}[C{mark}]({p[1]})({p[2]}){p[3]}')
    for p in itertools.permutations(['F', 'Cl', 'Br']):
        out.append(f'{p[0]}[C@H]({p[1]}){p[2]}')
        out.append(f'{p[0]}[C@@]([H])({p[1]}){p[2]}')
        out.append(f'[H][C@]({p[0]})({p[1]}){p[2]}')
        out.append(f'{p[0]}[C@]({p[1]})({p[2]})[H]')
    for a, c in itertools.product('/\\', repeat=2):
        out.append(f'F{a}C(Cl)=C({c}Br)I')
        out.append(f'F{a}C=C{c}Cl')
        out.append(f'C(=C{c}Cl){a}F')
        out.append(f'Cl{a}C(F)=C(I){c}Br')
    for k in (3, 4, 5, 6):
        out.append(f'C[C@H]1{"C" * (k - 2)}[C@@H]1N')
        out.append(f'C[C@]1(O){"C" * (k - 2)}[C@H]1N')
        out.append(f'O[C@]12{"C" * (k - 2)}[C@@]1(N)CC2')
    return out


def normal_forms(smi):
    """the chython molecule of a SMILES string in Kekule and in aromatic (Thiele) form, or None when chython does not
    accept it (parse error, no Kekule structure, an atom without a hydrogen count)"""
    from chython import smiles
    try:
        m = smiles(smi)
        if m is None:
            return None
        k = m.copy()
        k.kekule()
        a = k.copy()
        a.thiele()
    except Exception:
        return None
    if any(at.implicit_hydrogens is None for _, at in k.atoms()) or any(at.implicit_hydrogens is None for _, at in a.atoms()):
        return None
    return k, a


def sparse_renumber(mol, rng):
    """a renumbered copy with non-contiguous atom numbers in a shuffled order"""
    nums = list(mol._atoms)
    new = rng.sample(range(1, 4 * len(nums) + 3), len(nums))
    tmp = {n: 100000 + i for i, n in enumerate(nums)}
    c = mol.copy()
    c.remap(tmp)
    c.remap({100000 + i: v for i, v in enumerate(new)})
    return c


def set_coords(mol, rng):
    for _, a in mol.atoms():
        a.xy = (rng.choice([0.0, -0.0, 1.5, -2.25, 1e-3, 12345.678, rng.uniform(-10, 10)]), rng.uniform(-10, 10))


# ---------------------------------------------------------------------------------------------------------------
# correspondence

class Cases:
    def __init__(self, ck):
        self.ck = ck
        self.rng = random.Random(f'{ck.seed}:c20:cases')
        self.big, self.bigmeta = [], []        # whole-molecule terms (long)
        self.small, self.smallmeta = [], []    # helper applications (short)

    def add_big(self, term, meta):
        self.big.append(term)
        self.bigmeta.append(meta)

    def add(self, term, meta):
        self.small.append(term)
        self.smallmeta.append(meta)


def corr_ring_bonds(cs, tag, m):
    """the ring-size rule of __chiral_centers on every plain ring double bond of m: it counts as a stereo element (labelled, or
    offered as chiral) exactly when no ring through its first atom has fewer than eight atoms"""
    ck = cs.ck
    try:
        # the selection itself: every stereogenic double bond / cumulene chain against the common-ring test on atoms_rings
        terms = m.ring_cumulenes_terminals
        ar = m.atoms_rings
        for chain in m.stereogenic_cumulenes:
            n, mm = chain[0], chain[-1]
            if n not in ar and mm not in ar and cs.rng.random() >= 0.1:
                continue
            art = lst([(k, ar[k]) for k in dict.fromkeys((n, mm)) if k in ar], lambda kv: tup(zraw(kv[0]), lst(kv[1], lambda r: lst(r, zraw))))
            obs = (n, mm) in terms
            cs.add(f'ringt_ok {art} {zraw(n)} {zraw(mm)} {b(obs)}', (tag, 'ring-terminal', n, mm, obs))
            both = n in ar and mm in ar
            ck.count('ring-terminal:' + ('common ring' if obs else 'two different rings' if both else 'not both ring atoms'))
            ck.case(('ringt', tag, n, mm), nontrivial=both)
    except Exception:
        pass
    try:
        terms = m.ring_cumulenes_terminals
        reg = m.stereogenic_cis_trans
        if not any(nm in reg for nm in terms):
            return
        chiral = m.chiral_cis_trans
        rings = m.atoms_rings
    except Exception:
        return
    for n, mm in sorted(terms):
        if (n, mm) not in reg:
            continue
        try:
            i, j = m._stereo_cis_trans_centers[n]
            lab = m.bond(i, j).stereo is not None
        except Exception:
            continue
        sizes = [len(r) for r in rings[n]]
        obs = lab or (n, mm) in chiral
        cs.add(f'ringb_ok {lst(sizes, zraw)} {b(obs)}', (tag, 'ring-double-bond', n, mm, sizes, obs))
        ck.count('ring-double-bond:' + ('stereo element' if obs else 'not a stereo element') + f':smallest ring {min(min(sizes), 9) if sizes else 0}')
        ck.case(('ringb', tag, n, mm), nontrivial=obs)


def corr_registry(cs, tag, m):
    """stereogenic_tetrahedrons of the live molecule == the model function on the printed molecule (keys and neighbour order)"""
    ck = cs.ck
    try:
        reg = m.stereogenic_tetrahedrons
        n_at = len(m)
    except Exception:
        return
    full = ck.tier == 'thorough'
    labelled = bool(reg) and any(a.stereo is not None for _, a in m.atoms())
    if n_at > (70 if full else 40) or cs.rng.random() >= ((0.35 if full else 0.45) if labelled else 0.05):
        return
    cs.add_big(f'reg_ok {coqmol.mol_term(m)} {lst([(n, mm, int(bd)) for n, mm, bd in m.bonds()], cbond_term)} '
               f'{lst(list(reg.items()), lambda kv: tup(zraw(kv[0]), lst(kv[1], zraw)))}', (tag, 'stereogenic_tetrahedrons + adjacency/bonds() consistency', len(reg)))
    ck.count('registry:' + ('empty' if not reg else 'entries'))
    ck.case(('registry', tag), nontrivial=bool(reg))


def corr_sign_calls(cs, tag, m):
    """direct calls of MoleculeStereo._translate_tetrahedron_sign / _translate_cis_trans_sign on the live molecule, with neighbour lists
    and reference atoms the bridge never passes (other atoms of the molecule, wrong lengths, exchanged ends, s = None), against the
    bodies translated from the source (Gen.RdkitSign): ties the API reading of coq/model/RdkitApi.v in every branch"""
    ck = cs.ck
    budget = 5000 if ck.tier == 'thorough' else 700
    if getattr(cs, 'sign_calls', 0) >= budget:
        return
    try:
        th = dict(m.stereogenic_tetrahedrons)
        ct = dict(m.stereogenic_cis_trans)
        centers = dict(m._stereo_cis_trans_centers)
        atoms = [n for n, _ in m.atoms()]
        hs = [n for n, a in m.atoms() if a.atomic_number == 1]
    except Exception:
        return
    if not atoms or (not th and not ct) or len(atoms) > 60:
        return
    rng = cs.rng
    th_t = lst(list(th.items()), lambda kv: tup(zraw(kv[0]), lst(kv[1], zraw)))
    ct_t = lst(list(ct.items()), lambda kv: tup(zraw(kv[0][0]), zraw(kv[0][1]), env_term(kv[1])))
    ce_t = lst(list(centers.items()), lambda kv: tup(zraw(kv[0]), pair_term(kv[1])))
    bl = {}
    for i, j in set(centers.values()):
        try:
            bl[(i, j)] = bl[(j, i)] = m.bond(i, j).stereo
        except Exception:
            pass
    bl_t = lst(list(bl.items()), lambda kv: tup(zraw(kv[0][0]), zraw(kv[0][1]), opt(kv[1], b)))

    def outcome(fn, *a):
        try:
            r = fn(*a)
        except Exception as e:
            return 'Err ' + exn_name(e), False
        return f'Ok {opt(r, b)}', True

    for n in rng.sample(sorted(th), min(2, len(th))) + ([rng.choice(atoms)] if rng.random() < 0.2 else []):
        nbs = list(m._bonds[n])
        for _ in range(5):
            if rng.random() < 0.6 and len(nbs) >= 3:      # an arrangement of the neighbours (all of them, or three)
                env = rng.sample(nbs, rng.choice((3, len(nbs))))
            else:
                k = rng.choice((3, 3, 4, 4, 4, 2, 5))
                pool = nbs if rng.random() < 0.7 else nbs + [rng.choice(atoms)]
                env = [rng.choice(pool) for _ in range(k)] if rng.random() < 0.25 or len(pool) < k else rng.sample(pool, k)
            s = rng.choice((None, True, False))
            lab = m.atom(n).stereo
            got, ok = outcome(m._translate_tetrahedron_sign, n, env, s)
            cs.add(f'sth_ok {lst(hs, zraw)} {th_t} {opt(lab, b)} {zraw(n)} {lst(env, zraw)} {opt(s, b)} ({got})', (tag, 'sign-call-th', n, env, s, got))
            cs.sign_calls = getattr(cs, 'sign_calls', 0) + 1
            ck.count('sign-call:th:' + (got if not ok else 'Ok') + (':s=None' if s is None else ''))
            ck.case(('sign-th', tag, n, tuple(env), s), nontrivial=ok)
    for key in rng.sample(sorted(ct), min(2, len(ct))) + ([(rng.choice(atoms), rng.choice(atoms))] if rng.random() < 0.2 else []):
        n, mm = key
        near = [x for x in list(m._bonds.get(n, ())) + list(m._bonds.get(mm, ())) if x not in key] or atoms
        for _ in range(6):
            a, c = (n, mm) if rng.random() < 0.5 else (mm, n)
            if rng.random() < 0.6:                        # a substituent of each end (explicit hydrogens included)
                nn = rng.choice([x for x in m._bonds.get(a, ()) if x != c] or near)
                nm = rng.choice([x for x in m._bonds.get(c, ()) if x != a] or near)
            else:
                nn = rng.choice(near) if rng.random() < 0.85 else rng.choice(atoms)
                nm = rng.choice(near) if rng.random() < 0.85 else rng.choice(atoms)
            s = rng.choice((None, True, False))
            got, ok = outcome(m._translate_cis_trans_sign, a, c, nn, nm, s)
            cs.add(f'sct_ok {lst(hs, zraw)} {ct_t} {ce_t} {bl_t} {zraw(a)} {zraw(c)} {zraw(nn)} {zraw(nm)} {opt(s, b)} ({got})',
                   (tag, 'sign-call-ct', a, c, nn, nm, s, got))
            cs.sign_calls = getattr(cs, 'sign_calls', 0) + 1
            ck.count('sign-call:ct:' + (got if not ok else 'Ok') + (':s=None' if s is None else ''))
            ck.case(('sign-ct', tag, a, c, nn, nm, s), nontrivial=ok)


def corr_chiral_order(cs, tag, m):
    """the entry test of _chiral_morgan on a fresh copy of m: the stereo-blind order object itself is returned exactly when the
    molecule has no labelled atom and no labelled bond"""
    ck = cs.ck
    try:
        c = m.copy()
        c.flush_stereo_cache()
        obs = c._chiral_morgan is c.atoms_order
        la = [n for n, a in c.atoms() if a.stereo is not None]
        lb = [n for n, mb in c._bonds.items() if any(bd.stereo is not None for bd in mb.values())]
    except Exception:
        return
    cs.add(f'plain_ok {lst(la, zraw)} {lst(lb, zraw)} {b(obs)}', (tag, 'chiral-order entry test', la[:4], lb[:4], obs))
    ck.count('chiral-order:' + ('plain' if obs else 'refined') + (':bond labels only' if lb and not la else ''))
    ck.case(('chiral-order', tag), nontrivial=not obs)


def corr_to(cs, tag, m, keep=True):
    """one run of the real to_rdkit_molecule on m against the model"""
    ck = cs.ck
    snap = ch_snapshot(m)
    nums = [t[0] for t in snap['atoms']]
    atoms = lst([tup(zraw(t[0]), catom_term(*t[1:9])) for t in snap['atoms']])
    bonds = lst([cbond_term(t) for t in snap['bonds']])
    labelled = any(t[9] is not None for t in snap['atoms']) or any(t[3] is not None for t in snap['bonds'])
    th = dict(m.stereogenic_tetrahedrons) if labelled else {}
    centers = dict(m._stereo_cis_trans_centers) if labelled else {}
    ctreg = dict(m.stereogenic_cis_trans) if labelled else {}
    hs = [t[0] for t in snap['atoms'] if t[1] == 1]
    corr_ring_bonds(cs, tag, m)
    corr_chiral_order(cs, tag, m)
    corr_registry(cs, tag, m)
    try:
        corr_sign_calls(cs, tag, m)
    except Exception as e:          # a molecule the registries cannot be read from: not an input of this comparison
        ck.count('sign-call:skipped ' + type(e).__name__)
    tap = TapTo()
    rd = tap.run(m, keep_mapping=keep)
    meta = (tag, 'to', keep)
    dconfs = lst([lst(list(c.items()), lambda kv: tup(zraw(kv[0]), pos_term(kv[1]))) for c in (snap['confs'] or [])])
    xys = lst([pair_term(t[7:9]) for t in snap['atoms']])
    if tap.pre is None:
        x = exn_name(tap.exc)
        cs.add_big(f'to_err_ok {b(keep)} ({atoms}, {bonds}) {xys} {dconfs} (Err {x})', meta)
        ck.case(('to', tag, keep), nontrivial=False)
        ck.count('to:Err ' + x)
        return rd, tap
    pre = tap.pre
    ck.count('to:Ok' + (' (RDKit rejected it afterwards: ' + type(tap.exc).__name__ + ')' if tap.exc is not None else ''))
    ck.case(('to', tag, keep), nontrivial=True)
    cs.add_big(f'to_ok {b(keep)} ({atoms}, {bonds}) (Ok ({lst(pre["atoms"], ratom_term)}, {lst(pre["bonds"], rbond_term)}))', meta)
    # chiral tags, with the neighbour order RDKit had when the tag was written
    spare = 2
    for i, t in enumerate(snap['atoms']):
        name, nb = pre['tags'][i]
        if t[9] is None and name == 'CHI_UNSPECIFIED':
            if spare == 0:
                continue
            spare -= 1
        exp = 'None' if name == 'CHI_UNSPECIFIED' else f'(Some {cstr(name)})'
        env = [nums[j] for j in nb]
        cs.add(f'ttag_ok {lst(hs, zraw)} {opt(th.get(t[0]), lambda o: lst(o, zraw))} {lst(env, zraw)} {opt(t[9], b)} (Ok {exp})',
               (tag, 'to-tag', t[0], env, t[9], name))
        ck.count('to-tag:' + ('none' if name == 'CHI_UNSPECIFIED' else 'written') + (':labelled' if t[9] is not None else ''))
        ck.case(('to-tag', tag, t[0]), nontrivial=t[9] is not None)
    if labelled or cs.rng.random() < 0.1:
        tags = ['None' if name == 'CHI_UNSPECIFIED' else f'(Some {cstr(name)})' for name, _ in pre['tags']]
        cs.add_big(f'ttags_ok {lst(hs, zraw)} {lst(list(th.items()), lambda kv: tup(zraw(kv[0]), lst(kv[1], zraw)))} {lst(nums, zraw)} '
                   f'{lst(list(enumerate(pre["tags"])), lambda kv: tup(zraw(kv[0]), lst(kv[1][1], zraw)))} '
                   f'{lst([tup(zraw(t[0]), opt(t[9], b)) for t in snap["atoms"]])} (Ok {lst(tags)})', (tag, 'to-tags-whole-molecule'))
        ck.count('to-tags-whole-molecule')
    if labelled or cs.rng.random() < 0.1:
        exps = []
        for name, sa in pre['bst']:
            exps.append('None' if name == 'STEREONONE' else f'(Some ({zraw(nums[sa[0]])}, {zraw(nums[sa[1]])}, {cstr(name)}))' if len(sa) == 2 else f'(Some (0, 0, {cstr(name)}))')
        cs.add_big(f'tbl_ok {lst(list(centers.items()), lambda kv: tup(zraw(kv[0]), pair_term(kv[1])))} '
                   f'{lst(list(ctreg.items()), lambda kv: tup(zraw(kv[0][0]), zraw(kv[0][1]), env_term(kv[1])))} '
                   f'{lst([tup(zraw(x[0]), zraw(x[1]), opt(x[3], b)) for x in snap["bonds"]])} (Ok {lst(exps)})', (tag, 'to-bond-labels-whole-molecule'))
        ck.count('to-bond-labels-whole-molecule')
    # double bond labels
    spare = 2
    for k, (n, mm, o, st) in enumerate(snap['bonds']):
        name, sa = pre['bst'][k]
        if st is None and name == 'STEREONONE':
            if spare == 0:
                continue
            spare -= 1
        exp = 'None' if name == 'STEREONONE' else f'(Some ({zraw(nums[sa[0]])}, {zraw(nums[sa[1]])}, {cstr(name)}))' if len(sa) == 2 else f'(Some (0, 0, {cstr(name)}))'
        c = centers.get(n)
        env = ctreg.get(c) if c is not None else None
        cs.add(f'tbs_ok {opt(c, pair_term)} {zraw(n)} {zraw(mm)} {opt(env, env_term)} {opt(st, b)} (Ok {exp})',
               (tag, 'to-bond-stereo', n, mm, st, name, sa))
        ck.count('to-bond-stereo:' + ('none' if name == 'STEREONONE' else 'written') + (':labelled' if st is not None else ''))
        ck.case(('to-bs', tag, n, mm), nontrivial=st is not None)
    # conformers, from the dictionaries as the code walks them
    confs = snap['confs'] or []
    if confs or any(t[7] or t[8] for t in snap['atoms']) or len(pre['confs']) != 1 or cs.rng.random() < 0.1:
        cs.add_big(f'tconf_ok {lst(nums, zraw)} {xys} {dconfs} (Ok {lst(pre["confs"], conf_term)})', (tag, 'to-conformers', len(confs)))
    ck.count(f'to-conformers:{1 + len(confs)}')
    return rd, tap


def corr_from(cs, tag, rd):
    """one run of the real from_rdkit_molecule on rd against the model"""
    ck = cs.ck
    try:
        rsnap = rd_snapshot(rd)
        impls = [a.GetNumImplicitHs() for a in rd.GetAtoms()]
        symt = sorted({(a.GetAtomicNum(), a.GetSymbol()) for a in rd.GetAtoms()})
    except Exception as e:            # RDKit refuses to answer (no property cache): not an input of the bridge
        ck.count('from:skipped ' + type(e).__name__)
        return None, None
    tap = TapFrom()
    m = tap.run(rd)
    head = (f'from_ok {lst(symt, lambda t: tup(zraw(t[0]), cstr(t[1])))} {lst(impls, zraw)} {lst(rsnap["confs"], conf_term)} '
            f'({lst(rsnap["atoms"], ratom_term)}, {lst(rsnap["bonds"], rbond_term)})')
    meta = (tag, 'from', rsnap['atoms'][:6], rsnap['bonds'][:6])
    if tap.pre is None:
        x = exn_name(tap.exc)
        cs.add_big(f'{head} (Err {x})', meta)
        ck.case(('from', tag), nontrivial=False)
        ck.count('from:Err ' + x)
        return m, tap
    pre = tap.pre
    ck.count('from:Ok' + (' (then ' + type(tap.exc).__name__ + ')' if tap.exc is not None else ''))
    ck.case(('from', tag), nontrivial=True)
    atoms = lst([tup(zraw(t[0]), catom_term(*t[1:9])) for t in pre['atoms']])
    by_pair = {frozenset((n, mm)): (o, st) for n, mm, o, st in pre['bonds']}
    same_count = len(by_pair) == len(rsnap['bonds']) == len(pre['bonds'])
    bonds = lst([cbond_term((bi + 1, ei + 1, by_pair.get(frozenset((bi + 1, ei + 1)), (-1, None))[0])) for bi, ei, _ in rsnap['bonds']])
    cs.add_big(f'{head} (Ok ({atoms}, {bonds}))' if same_count else 'false', meta)
    hs = pre['hs']
    if m is not None and same_count and (tap.want_th or tap.want_ct or cs.rng.random() < 0.15) and len(rsnap['atoms']) <= 60:
        # the adjacency of the result (neighbour ORDER per atom) == atoms first, then add_bond per RDKit bond
        bl = [(bi + 1, ei + 1, by_pair[frozenset((bi + 1, ei + 1))][0]) for bi, ei, _ in rsnap['bonds']]
        adj = [(n, [(mm, int(bd)) for mm, bd in nbs.items()]) for n, nbs in m._bonds.items()]
        cs.add_big(f'badj_ok {lst(list(range(1, len(rsnap["atoms"]) + 1)), zraw)} {lst(bl, cbond_term)} '
                   f'{lst(adj, lambda kv: tup(zraw(kv[0]), lst(kv[1], pair_term)))}', (tag, 'adjacency of the result'))
        ck.count('from-adjacency-of-result')
    if m is not None:
        corr_ring_bonds(cs, tag + '|result', m)
        corr_chiral_order(cs, tag + '|result', m)
        corr_registry(cs, tag + '|result', m)
    spare = 2
    stereo_of = {t[0]: t[9] for t in pre['atoms']}
    for i, (name, nb) in enumerate(rsnap['tags']):
        n = i + 1
        if name == 'CHI_UNSPECIFIED' and stereo_of[n] is None:
            if spare == 0:
                continue
            spare -= 1
        env = [j + 1 for j in nb]
        cs.add(f'ftag_ok {lst(hs, zraw)} {opt(pre["th"].get(n), lambda o: lst(o, zraw))} {lst(env, zraw)} {cstr(name)} (Ok {opt(stereo_of[n], b)})',
               (tag, 'from-tag', n, env, name, stereo_of[n]))
        ck.count('from-tag:' + name.replace('CHI_', '').lower() + (':label' if stereo_of[n] is not None else ':no label'))
        ck.case(('from-tag', tag, n), nontrivial=stereo_of[n] is not None)
    if tap.want_th or cs.rng.random() < 0.1:
        cs.add_big(f'ftags_ok {lst(hs, zraw)} {lst(list(pre["th"].items()), lambda kv: tup(zraw(kv[0]), lst(kv[1], zraw)))} '
                   f'{lst(list(enumerate(rsnap["tags"])), lambda kv: tup(zraw(kv[0]), lst(kv[1][1], zraw)))} {lst([cstr(name) for name, _ in rsnap["tags"]])} '
                   f'(Ok {lst([tup(zraw(t[0]), opt(t[9], b)) for t in pre["atoms"]])})', (tag, 'from-tags-whole-molecule'))
        ck.count('from-tags-whole-molecule')
    if same_count and (tap.want_ct or cs.rng.random() < 0.1):
        rb = [tup(zraw(bi), zraw(ei), cstr(name), zraw(sa[0] if len(sa) == 2 else 0), zraw(sa[1] if len(sa) == 2 else 0))
              for (bi, ei, _), (name, sa) in zip(rsnap['bonds'], rsnap['bst'])]
        ex = [tup(zraw(bi + 1), zraw(ei + 1), opt(by_pair[frozenset((bi + 1, ei + 1))][1], b)) for bi, ei, _ in rsnap['bonds']]
        cs.add_big(f'fbl_ok {lst(hs, zraw)} {lst(list(pre["ct"].items()), lambda kv: tup(zraw(kv[0][0]), zraw(kv[0][1]), env_term(kv[1])))} '
                   f'{lst(rb)} (Ok {lst(ex)})', (tag, 'from-bond-labels-whole-molecule'))
        ck.count('from-bond-labels-whole-molecule')
    if same_count and m is not None and (tap.want_th or tap.want_ct or cs.rng.random() < 0.1):
        # the result of the whole call: labels after fix_structure / fix_stereo == the model with fix_stereo := "erase what was erased"
        fin_a = {n: a.stereo for n, a in m.atoms()}
        fin_b = {frozenset((n, mm)): bd.stereo for n, mm, bd in m.bonds()}
        er_a = [n for n in fin_a if stereo_of[n] is not None and fin_a[n] is None]
        er_b = [(bi + 1, ei + 1) for bi, ei, _ in rsnap['bonds']
                if by_pair[frozenset((bi + 1, ei + 1))][1] is not None and fin_b.get(frozenset((bi + 1, ei + 1))) is None]
        rb = [tup(zraw(bi), zraw(ei), cstr(name), zraw(sa[0] if len(sa) == 2 else 0), zraw(sa[1] if len(sa) == 2 else 0))
              for (bi, ei, _), (name, sa) in zip(rsnap['bonds'], rsnap['bst'])]
        exa = lst([tup(zraw(n), opt(fin_a[n], b)) for n in fin_a])
        exb = lst([tup(zraw(bi + 1), zraw(ei + 1), opt(fin_b.get(frozenset((bi + 1, ei + 1))), b)) for bi, ei, _ in rsnap['bonds']])
        cs.add_big(f'final_ok {lst(er_a, zraw)} {lst(er_b, pair_term)} {lst(hs, zraw)} '
                   f'{lst(list(pre["th"].items()), lambda kv: tup(zraw(kv[0]), lst(kv[1], zraw)))} '
                   f'{lst(list(pre["ct"].items()), lambda kv: tup(zraw(kv[0][0]), zraw(kv[0][1]), env_term(kv[1])))} '
                   f'{lst(list(enumerate(rsnap["tags"])), lambda kv: tup(zraw(kv[0]), lst(kv[1][1], zraw)))} {lst([cstr(name) for name, _ in rsnap["tags"]])} '
                   f'{lst(rb)} (Ok ({exa}, {exb}))', (tag, 'from-final-labels', er_a, er_b))
        ck.count('from-final-labels' + (':some erased by fix_stereo' if er_a or er_b else ''))
    spare = 2
    for k, (name, sa) in enumerate(rsnap['bst']):
        bi, ei, _ = rsnap['bonds'][k]
        n, mm = bi + 1, ei + 1
        st = by_pair.get(frozenset((n, mm)), (None, None))[1]
        if name == 'STEREONONE' and st is None:
            if spare == 0:
                continue
            spare -= 1
        nn, nm = (sa[0] + 1, sa[1] + 1) if len(sa) == 2 else (0, 0)
        cs.add(f'fbs_ok {lst(hs, zraw)} {opt(pre["ct"].get((n, mm)), env_term)} {opt(pre["ct"].get((mm, n)), env_term)} {zraw(nn)} {zraw(nm)} '
               f'{cstr(name)} (Ok {opt(st, b)})', (tag, 'from-bond-stereo', n, mm, nn, nm, name, st))
        ck.count('from-bond-stereo:' + name.lower() + (':label' if st is not None else ':no label'))
        ck.case(('from-bs', tag, n, mm), nontrivial=st is not None)
    confs = [[c[n] for n in sorted(c)] for c in (pre['confs'] or [])]
    if any(list(c) != list(range(1, len(rsnap['atoms']) + 1)) for c in (pre['confs'] or [])):
        # _conformers must be keyed by the new atom numbers 1..N in order: {n: ... for n, v in enumerate(positions, 1)}
        cs.add_big('false', (tag, 'from-conformers: keys of _conformers are not 1..N', [list(c)[:5] for c in pre['confs']]))
    if rsnap['confs'] or confs or any(t[7] or t[8] for t in pre['atoms']) or cs.rng.random() < 0.1:
        cs.add_big(f'fconf_ok {len(rsnap["atoms"])}%nat {lst(rsnap["confs"], conf_term)} {lst([pair_term(t[7:9]) for t in pre["atoms"]])} '
                   f'{lst(confs, lambda c: lst(c, pos_term))}', (tag, 'from-conformers', len(rsnap['confs'])))
    ck.count(f'from-conformers:{len(rsnap["confs"])}')
    return m, tap


def corr_tables(cs):
    """the dictionaries, the set and the enum constants as the running module holds them, on their whole domains"""
    import chython.utils.rdkit as br
    from chython.periodictable import Element
    from rdkit import Chem
    ck = cs.ck
    for name in sorted(Chem.BondType.names):
        try:
            got = 'Ok ' + zraw(br._rdkit_bond_map[Chem.BondType.names[name]])
        except KeyError:
            got = 'Err KeyError'
        cs.add(f'rbo_ok {cstr(name)} ({got})', ('table', '_rdkit_bond_map', name, got))
        ck.case(('rbo', name), nontrivial=got.startswith('Ok'))
    for o in range(-2, 13):
        try:
            got = 'Ok ' + cstr(br._bond_map[o].name)
        except KeyError:
            got = 'Err KeyError'
        cs.add(f'bt_ok {zraw(o)} ({got})', ('table', '_bond_map', o, got))
        ck.case(('bt', o), nontrivial=got.startswith('Ok'))
    syms = [c.__name__ for c in Element.__subclasses__()] + ['', '*', 'X', 'D', 'c', 'CL']
    for sym in syms:
        cs.add(f'Bool.eqb (smem {cstr(sym)} inorganic) {b(sym in br._inorganic)}', ('table', '_inorganic', sym))
        ck.case(('inorg', sym), nontrivial=sym in br._inorganic)
    for coq, val in (('chiral_cw', br._chiral_cw), ('chiral_ccw', br._chiral_ccw), ('bs_cis', br._cis), ('bs_trans', br._trans)):
        cs.add(f'String.eqb {coq} {cstr(val.name)}', ('table', coq, val.name))
    ck.count('tables', len(Chem.BondType.names) + 15 + len(syms) + 4)
    # RDKit's symbols: the hypothesis `symbol_faithful` of the attribute theorems, on the real RDKit and on the model's table
    bad = []
    for z in range(1, 119):
        sym = Chem.Atom(z).GetSymbol()
        try:
            ok = Element.from_symbol(sym)().atomic_number == z
        except Exception:
            ok = False
        if not ok:
            bad.append((z, sym))
        cs.add(f'match from_symbol {cstr(sym)} with Some e => e_num e =? {z} | None => false end', ('symbol', z, sym))
    ck.oblige('hypothesis of the attribute theorems holds for the installed RDKit: Element.from_symbol(Atom(z).GetSymbol()) has atomic number z, z = 1..118',
              not bad, 'hypothesis', str(bad))
    if bad:
        ck.unchecked('hypothesis symbol_faithful (RDKit symbols vs chython symbols)', str(bad))


def rd_variants(smi, rng):
    """RDKit molecules for the from-side: as parsed (hydrogens kept as atoms or merged), kekulized, with 2D coordinates, with
    2D + 3D conformers"""
    from rdkit import Chem
    from rdkit.Chem import AllChem
    from rdkit.Geometry import Point3D
    out = []
    rd = Chem.MolFromSmiles(smi)
    if rd is None:
        return out
    out.append(('parsed', rd))
    p = Chem.SmilesParserParams()
    p.removeHs = False
    rh = Chem.MolFromSmiles(smi, p)
    if rh is not None and rh.GetNumAtoms() != rd.GetNumAtoms():
        out.append(('explicit-H', rh))
    k = Chem.Mol(rd)
    try:
        Chem.Kekulize(k, clearAromaticFlags=True)
        if any(bd.GetIsAromatic() for bd in rd.GetBonds()):
            out.append(('kekulized', k))
    except Exception:
        pass
    c2 = Chem.Mol(rd)
    AllChem.Compute2DCoords(c2)
    out.append(('2D', c2))
    if rng.random() < 0.45:
        c3 = Chem.Mol(c2)
        for is3d in (True, False, True)[:rng.randint(1, 3)]:
            conf = Chem.Conformer(c3.GetNumAtoms())
            for i in range(c3.GetNumAtoms()):
                conf.SetAtomPosition(i, Point3D(rng.uniform(-5, 5), rng.uniform(-5, 5), rng.uniform(-5, 5) if is3d else 0.0))
            conf.Set3D(is3d)
            c3.AddConformer(conf, assignId=True)
        out.append(('2D+more conformers', c3))
        only3 = Chem.Mol(rd)
        conf = Chem.Conformer(only3.GetNumAtoms())
        for i in range(only3.GetNumAtoms()):
            conf.SetAtomPosition(i, Point3D(rng.uniform(-5, 5), rng.uniform(-5, 5), rng.uniform(-5, 5)))
        conf.Set3D(True)
        only3.AddConformer(conf, assignId=True)
        out.append(('3D only', only3))
    return out


def spurious_stereo(rd, rng):
    """copy of rd with a CW/CCW tag on an untagged carbon that has three or four heavy neighbours, or a Z/E label on an unlabelled
    acyclic C=C bond with a neighbour on each end (RDKit put none there: usually not a stereo element)"""
    from rdkit import Chem
    rw = Chem.RWMol(rd)
    cands = [a.GetIdx() for a in rw.GetAtoms() if a.GetAtomicNum() == 6 and a.GetChiralTag() == Chem.ChiralType.CHI_UNSPECIFIED
             and not a.GetIsAromatic() and a.GetDegree() in (3, 4) and all(bd.GetBondType() == Chem.BondType.SINGLE for bd in a.GetBonds())]
    bcands = [bd.GetIdx() for bd in rw.GetBonds() if bd.GetBondType() == Chem.BondType.DOUBLE and bd.GetStereo() == Chem.BondStereo.STEREONONE
              and not bd.IsInRing() and bd.GetBeginAtom().GetAtomicNum() == 6 and bd.GetEndAtom().GetAtomicNum() == 6
              and bd.GetBeginAtom().GetDegree() >= 2 and bd.GetEndAtom().GetDegree() >= 2]
    done = False
    if cands and (not bcands or rng.random() < 0.6):
        rw.GetAtomWithIdx(rng.choice(cands)).SetChiralTag(rng.choice([Chem.ChiralType.CHI_TETRAHEDRAL_CW, Chem.ChiralType.CHI_TETRAHEDRAL_CCW]))
        done = True
    elif bcands:
        bd = rw.GetBondWithIdx(rng.choice(bcands))
        nb = [x.GetIdx() for x in bd.GetBeginAtom().GetNeighbors() if x.GetIdx() != bd.GetEndAtomIdx()]
        ne = [x.GetIdx() for x in bd.GetEndAtom().GetNeighbors() if x.GetIdx() != bd.GetBeginAtomIdx()]
        bd.SetStereoAtoms(rng.choice(nb), rng.choice(ne))
        bd.SetStereo(rng.choice([Chem.BondStereo.STEREOZ, Chem.BondStereo.STEREOE]))
        done = True
    if not done:
        return None
    m = rw.GetMol()
    m.UpdatePropertyCache(strict=False)
    return m


def rd_malformed():
    """RDKit molecules the bridge must reject, or accept in a particular way: unknown element, isotope chython has no entry
    for, charge out of range, bond types outside / inside the table, labels outside the four constants, several radical
    electrons, atom map numbers, stereo on atoms chython does not treat"""
    from rdkit import Chem
    out = []

    def edit(smi, fn, sanitize=False):
        rw = Chem.RWMol(Chem.MolFromSmiles(smi))
        fn(rw)
        m = rw.GetMol()
        try:
            m.UpdatePropertyCache(strict=False)
            [a.GetNumImplicitHs() for a in m.GetAtoms()]
        except Exception:
            return None                # RDKit itself cannot compute valences with this bond type
        return m
    for smi in ('*C', '[*]', 'C[2C]', '[5CH4]', '[99Tc]', '[100H]', '[V+5]', '[Mn+7]', '[C-4]', '[N-5]', '[Os+8]', '[U+6]', '[CH2]', '[C]',
                '[O]', '[N]', '[CH]', '[CH3:5][OH:9]', '[CH3:1][CH3:1]', '[NH3]->[Cu]', '[Cu]<-[NH3]', '[C-]#[O+]->[Fe]', 'C[N@](CC)CCC', 'C[S@](=O)CC',
                'C[C@H](N)[2H]', '[C@]([H])([H])(F)Cl', 'C[Si@H](F)Cl', 'F[P@](Cl)Br', 'C[N@+](CC)(CCC)CCCC', 'CC=[C@]=CC', 'C/C=C/C=C/C',
                'C/C=C=C=C/C', 'C/C=N/O', 'N/N=N/N', 'F/C=C/F', '[Na]', '[Na]Cl', '[H]', '[H][H]', '[HH]', 'C~C', 'C:C'):
        for sanitize in (True, False):
            try:
                m = Chem.MolFromSmiles(smi, sanitize=sanitize)
            except Exception:
                m = None
            if m is not None:
                if not sanitize:
                    m.UpdatePropertyCache(strict=False)
                out.append((f'{smi}|sanitize={sanitize}', m))
    for name in ('ZERO', 'UNSPECIFIED', 'DATIVE', 'QUADRUPLE', 'ONEANDAHALF', 'IONIC', 'HYDROGEN', 'DATIVEONE', 'DATIVEL', 'OTHER', 'AROMATIC'):
        out.append((f'CC bond type {name}', edit('CC.O', lambda rw, name=name: rw.GetBondWithIdx(0).SetBondType(Chem.BondType.names[name]))))
        out.append((f'second bond type {name}', edit('CCO', lambda rw, name=name: rw.GetBondWithIdx(1).SetBondType(Chem.BondType.names[name]))))
    for name in ('STEREOCIS', 'STEREOTRANS', 'STEREOANY', 'STEREOZ', 'STEREOE'):
        def f(rw, name=name):
            bd = rw.GetBondWithIdx(1)
            bd.SetStereoAtoms(0, 3)
            bd.SetStereo(Chem.BondStereo.names[name])
        out.append((f'FC=CCl label {name}', edit('FC=CCl', f)))

        def g(rw, name=name):          # reference atoms that are not the first substituents
            bd = rw.GetBondBetweenAtoms(1, 3)
            bd.SetStereoAtoms(2, 5)
            bd.SetStereo(Chem.BondStereo.names[name])
        out.append((f'FC(Cl)=C(Br)I refs 2,5 label {name}', edit('FC(Cl)=C(Br)I', g)))
    for name in ('CHI_TETRAHEDRAL', 'CHI_OTHER', 'CHI_ALLENE', 'CHI_SQUAREPLANAR', 'CHI_TETRAHEDRAL_CW', 'CHI_TETRAHEDRAL_CCW'):
        out.append((f'FC(Cl)(Br)I tag {name}', edit('FC(Cl)(Br)I', lambda rw, name=name: rw.GetAtomWithIdx(1).SetChiralTag(Chem.ChiralType.names[name]))))
        out.append((f'CC(C)(F)Cl tag {name}', edit('CC(C)(F)Cl', lambda rw, name=name: rw.GetAtomWithIdx(1).SetChiralTag(Chem.ChiralType.names[name]))))
        out.append((f'C=C tag {name}', edit('FC(Cl)=C', lambda rw, name=name: rw.GetAtomWithIdx(1).SetChiralTag(Chem.ChiralType.names[name]))))
    # tags / labels on symmetric centres and bonds: chython translates them and fix_stereo erases them again
    for smi, idx in (('CC(C)(C)F', 1), ('CC(C)(F)F', 1), ('CC1(C)CCCCC1', 1), ('OC(C)(C)CC', 1), ('CC(C)C(C)(C)O', 3), ('C[C@H](N)C(C)(C)F', 3)):
        for name in ('CHI_TETRAHEDRAL_CW', 'CHI_TETRAHEDRAL_CCW'):
            out.append((f'{smi} atom {idx} tag {name}', edit(smi, lambda rw, idx=idx, name=name: rw.GetAtomWithIdx(idx).SetChiralTag(Chem.ChiralType.names[name]))))
    for smi, (bi, ei, sa, sb) in (('CC(C)=C(F)Cl', (1, 3, 0, 4)), ('FC(F)=C(C)N', (1, 3, 0, 4)), ('CC(C)=CC', (1, 3, 0, 4)), ('C/C=C/C(C)=C(C)C', (3, 5, 4, 6))):
        for name in ('STEREOZ', 'STEREOE'):
            def h(rw, bi=bi, ei=ei, sa=sa, sb=sb, name=name):
                bd = rw.GetBondBetweenAtoms(bi, ei)
                bd.SetStereoAtoms(sa, sb)
                bd.SetStereo(Chem.BondStereo.names[name])
            out.append((f'{smi} bond {bi}={ei} label {name}', edit(smi, h)))
    for k in (2, 3, 4):
        out.append((f'{k} radical electrons', edit('CC', lambda rw, k=k: rw.GetAtomWithIdx(0).SetNumRadicalElectrons(k))))
    out.append(('empty', Chem.Mol()))
    return out


def ch_malformed(rng):
    """chython molecules on the edge of what to_rdkit_molecule handles"""
    from chython import smiles, MoleculeContainer
    out = []
    for smi in ('c1ccncc1', 'Cn1cnc2ccccc12', 'O=c1cc[nH]cc1', 'c1ccsc1'):      # as parsed: hetero atoms without hydrogen count
        out.append((f'{smi}|raw', smiles(smi), True))
    out.append(('empty', MoleculeContainer(), True))
    m = MoleculeContainer()
    m.add_atom('C')
    m.add_atom('Fe')
    m.add_atom(8)
    m.add_bond(1, 2, 8)
    m.add_bond(3, 2, 8)
    out.append(('built C~Fe~O', m, True))
    for smi in ('C[C@H](N)C(=O)O', 'F/C=C/Cl', 'CC=[C@]=CC', 'C/C=C=C=C/C'):
        m = smiles(smi)
        set_coords(m, rng)
        m._conformers = [{n: (rng.uniform(-3, 3), rng.uniform(-3, 3), rng.uniform(-3, 3)) for n in m._atoms} for _ in range(2)]
        out.append((f'{smi}|conformers', m, True))
        out.append((f'{smi}|conformers|nomap', m, False))
    m = smiles('CCO')
    m._conformers = []
    out.append(('CCO|empty conformer list', m, True))
    for name, confs in (('misses last atom', [{1: (1., 2., 3.), 2: (4., 5., 6.)}]), ('only last atom', [{3: (1., 2., 3.)}]), ('empty dict', [{}]),
                        ('unknown key', [{1: (1., 2., 3.), 2: (4., 5., 6.), 3: (7., 8., 9.), 4: (0., 0., 0.)}]),
                        ('other key order', [{2: (1., 2., 3.), 1: (4., 5., 6.), 3: (7., 8., 9.)}]),
                        ('good then bad', [{1: (1., 2., 3.), 2: (4., 5., 6.), 3: (7., 8., 9.)}, {1: (1., 2., 3.)}]),
                        ('repeated after gap', [{3: (1., 2., 3.), 1: (-0.0, 1e-9, 2.5)}])):
        m = smiles('CCO')
        m._conformers = confs
        out.append((f'CCO|conformers {name}', m, name != 'other key order'))
    return out


SMALL_SPACE = ['F[C@](Cl)(Br)I', 'F[C@@](Cl)(Br)I', 'F[C@H](Cl)Br', 'F[C@@H](Cl)Br', '[H][C@](F)(Cl)Br', '[H][C@@](F)(Cl)Br',
               'F/C(Cl)=C(/Br)I', 'F/C(Cl)=C(\\Br)I', 'F/C=C/Cl', 'F/C=C\\Cl', 'F/C([H])=C([H])/Cl', 'F/C([H])=C([H])\\Cl', 'F/C(Cl)=C/Br', 'F/C(Cl)=C\\Br']


def small_space(ck, salt):
    """every atom numbering of a few one-centre / one-double-bond molecules, produced by RDKit itself (Chem.RenumberAtoms keeps the
    configuration and changes indices, neighbour order and bond order): all n! numberings under --thorough, a sample in quick.
    Yields (smiles, permutation, renumbered RDKit molecule)."""
    from rdkit import Chem
    rng = random.Random(f'{ck.seed}:c20:small:{salt}')
    for smi in NUMBERING_FAMILY:
        rd = Chem.MolFromSmiles(smi)
        idx = list(range(rd.GetNumAtoms()))
        for _ in range(60 if ck.tier == 'thorough' else 4):
            perm = idx[:]
            rng.shuffle(perm)
            yield smi, tuple(perm), Chem.RenumberAtoms(rd, perm)
    for smi in SMALL_SPACE:
        p = Chem.SmilesParserParams()
        p.removeHs = False
        rd = Chem.MolFromSmiles(smi, p)
        n = rd.GetNumAtoms()
        perms = list(itertools.permutations(range(n)))
        if ck.tier != 'thorough':
            perms = rng.sample(perms, 4)
        elif len(perms) > 120:
            perms = rng.sample(perms, 60)       # six-atom molecules: 60 of the 720 numberings
        for perm in perms:
            yield smi, perm, Chem.RenumberAtoms(rd, list(perm))


def correspondence(ck, n_corpus):
    from rdkit import RDLogger
    RDLogger.DisableLog('rdApp.*')
    rng = random.Random(f'{ck.seed}:c20:corr')
    cs = Cases(ck)
    corr_tables(cs)
    full = ck.tier == 'thorough'

    def pick(seq, n, salt):
        return list(seq) if full else corpus.sample(seq, n, ck.seed, 'c20:' + salt)
    pool = [('stereo', x) for x in pick(STEREO_SMILES, 22, 'st')] + [('metal', x) for x in pick(METAL_SMILES, 12, 'me')] + \
           [('atoms', x) for x in pick(ATOM_SMILES, 22, 'at')] + [('bare', x) for x in pick(BARE_SMILES, 3, 'ba')] + [('dative', x) for x in pick(dative_smiles(), 8, 'da')] + \
           [('isotope+charge', x) for x in ISO_CHARGE_SMILES[:6] + pick(ISO_CHARGE_SMILES[6:], 4, 'ic')] + \
           [('ring-alkene', x) for x in RING_ALKENE_SMILES[:6] + pick(RING_ALKENE_SMILES[6:], 4, 'ra')] + \
           [('ring-linker alkene', x) for x in pick(ring_linker_smiles(), 10, 'rl')] + \
           [('E/Z-dependent centre', x) for x in EZ_DEPENDENT_SMILES[:5] + pick(EZ_DEPENDENT_SMILES[5:], 3, 'ez')] + \
           [('perm', x) for x in pick(perm_smiles(), 14, 'pe')] + \
           [('corpus', x) for x in corpus.sample(corpus.lipo(), n_corpus, ck.seed, 'c20corr')] + \
           [('corpus-stereo', x) for x in corpus.sample(corpus.stereo_smiles(), n_corpus // 2, ck.seed, 'c20corrs')]
    smiles_of = {}
    for kind, smi in pool:
        forms = normal_forms(smi)
        ck.count('corr-input:' + kind + ('' if forms else ' (not accepted by chython)'))
        rich = kind in ('stereo', 'perm', 'corpus-stereo', 'ring-alkene', 'ring-linker alkene', 'E/Z-dependent centre')
        if forms:
            kek, aro = forms
            variants = [('kekule', kek), ('aromatic', aro)] if str(kek) != str(aro) else [('plain', kek)]
            ren = sparse_renumber(forms[1], rng)
            set_coords(ren, rng)
            variants.append(('renumbered+xy', ren))
            if not full:
                variants = variants[-1:] + [rng.choice(variants[:-1])] if rich else [rng.choice(variants)]
            for vname, m in variants:
                tag = f'{smi}|{vname}'
                smiles_of[tag] = smi
                if vname == 'renumbered+xy' and rng.random() < 0.4:      # 3D conformers, keys in a shuffled order
                    keys = list(m._atoms)
                    m._conformers = [{n: (rng.uniform(-4, 4), rng.uniform(-4, 4), rng.uniform(-4, 4)) for n in rng.sample(keys, len(keys))}
                                     for _ in range(rng.randint(1, 2))]
                    tag += '+3D'
                    smiles_of[tag] = smi
                rd, _ = corr_to(cs, tag, m, keep=rng.random() < 0.65)
                if rd is not None and rng.random() < (0.5 if full else 0.2):
                    corr_from(cs, tag + '|back', rd)           # the molecule the bridge itself built
                    smiles_of[tag + '|back'] = smi
        rvs = rd_variants(smi, rng)
        if not full and rvs:
            rvs = rvs[:1] + ([rng.choice(rvs[1:])] if len(rvs) > 1 and rng.random() < 0.6 else []) if rich else [rng.choice(rvs)]
        if rvs and rng.random() < (0.6 if full else 0.35):
            # a tag / an E/Z label where RDKit itself sees no stereo element: fix_stereo has something to erase
            extra = spurious_stereo(rvs[0][1], rng)
            if extra is not None:
                rvs = rvs + [('spurious tag or label', extra)]
        for vname, rd in rvs:
            tag = f'{smi}|rdkit {vname}'
            smiles_of[tag] = smi
            m2, _ = corr_from(cs, tag, rd)
            if m2 is not None and rng.random() < (0.3 if full else 0.15):
                corr_to(cs, tag + '|back', m2)
                smiles_of[tag + '|back'] = smi
    erased_by = {}
    for smi, perm, rd in small_space(ck, 'corr'):
        ck.count('corr-input:small space (every numbering)')
        tag = f'{smi}|numbering {".".join(map(str, perm))}'
        smiles_of[tag] = smi
        m2, tp = corr_from(cs, tag, rd)
        if m2 is not None:
            corr_to(cs, tag + '|back', m2, keep=True)
            if tp is not None and tp.pre is not None:
                # the parameter of the model (what fix_stereo erases), in the numbering of the string: one set per molecule
                er = frozenset(perm[x[0] - 1] for x in tp.pre['atoms'] if x[9] is not None and m2.atom(x[0]).stereo is None)
                first = erased_by.setdefault(smi, (er, perm))
                if first[0] != er:
                    cs.add_big('false', (tag, 'the labels fix_stereo erases depend on the atom numbering', sorted(er), 'but', sorted(first[0]), 'for numbering', first[1]))
                else:
                    cs.add('true', (tag, 'erase set independent of the numbering', sorted(er)))
    for tag, rd in rd_malformed():
        if rd is None:
            ck.count('corr-input:malformed rdkit (RDKit cannot hold it)')
            continue
        ck.count('corr-input:malformed rdkit')
        corr_from(cs, 'malformed:' + tag, rd)
    for tag, m, keep in ch_malformed(rng):
        ck.count('corr-input:malformed chython')
        corr_to(cs, 'malformed:' + tag, m, keep)
    import time
    t0 = time.time()
    ck.extra['corr_text_kb'] = (sum(map(len, cs.small)) + sum(map(len, cs.big))) // 1024
    ok1, f1, log1 = coqcases.run_cases('c20s', IMPORTS, cs.small, extra=EXTRA, shard=250)
    ok2, f2, log2 = coqcases.run_cases('c20b', IMPORTS, cs.big, extra=EXTRA, shard=60)
    ck.extra['corr_coq_s'] = round(time.time() - t0, 1)
    good = ok1 and ok2 and not f1 and not f2
    bad = [cs.smallmeta[i] for i in f1] + [cs.bigmeta[i] for i in f2]
    ck.oblige('correspondence: to_rdkit_molecule before SanitizeMol and from_rdkit_molecule before fix_structure == Coq model '
              '(atoms, bonds, chiral tags, double-bond labels, conformers, dictionaries, exceptions)', good, 'correspondence',
              (log1 + log2)[-1500:] or repr(bad[:6]))
    ck.extra['correspondence_cases'] = len(cs.small) + len(cs.big)
    ck.extra['correspondence_whole_molecule_cases'] = len(cs.big)
    if cs.big:
        ck.sample({'model_call': cs.big[0][:400], 'meta': repr(cs.bigmeta[0])})
    for i in (len(cs.small) // 2, len(cs.small) - 1):
        ck.sample({'model_call': cs.small[i][:300], 'meta': repr(cs.smallmeta[i])})
    suspects = []
    for mt in bad:
        smi = smiles_of.get(mt[0])
        if smi and smi not in suspects:
            suspects.append(smi)
    return good, bad, (log1 + log2), suspects


# ---------------------------------------------------------------------------------------------------------------
# search: property-level oracles on the real code, with the real RDKit, independent of the Coq model

# boron is left out on purpose: metal -> borane coordinate bonds exist, the direction of a B~metal bond is not judged here
NONMETALS = {1, 2, 6, 7, 8, 9, 10, 14, 15, 16, 17, 18, 32, 33, 34, 35, 36, 51, 52, 53, 54, 85, 86}


class Limited:
    """at most `limit` counterexamples per category (text before the first ':' of the key)"""

    def __init__(self, ck, limit=6):
        self.ck = ck
        self.seen = collections.Counter()
        self.limit = limit

    def counterexample(self, key, *a, **kw):
        cat = key.split(':')[0]
        self.seen[cat] += 1
        self.ck.count('counterexamples:' + cat)
        if self.seen[cat] <= self.limit or self.ck.match_known(key) is not None:
            self.ck.counterexample(key, *a, **kw)


def strip_maps(rd):
    from rdkit import Chem
    rd = Chem.Mol(rd)
    for a in rd.GetAtoms():
        a.SetAtomMapNum(0)
    return rd


def _reparsed(rd):
    """canonical SMILES of the molecule RDKit reads from its own canonical SMILES of rd: merges plain hydrogen atoms and
    re-perceives aromaticity on both sides of a comparison alike.  (Chem.RemoveHs is not used: it discards E/Z labels that were
    set with SetStereo and no bond directions, which is how the bridge writes them.)"""
    from rdkit import Chem
    s = Chem.MolToSmiles(rd)
    try:
        again = Chem.MolFromSmiles(s)
        if again is not None:
            return Chem.MolToSmiles(again)
    except Exception:
        pass
    return s


def special_as_dative(rd):
    """copy of rd in which every bond without an order (UNSPECIFIED: what RDKit reads for '~'; ZERO) between a metal and a
    non-metal is a DATIVE bond non-metal -> metal (chython has one order, 8, for all three).  Bonds between two metals or
    two non-metals are left alone; the second component says whether one was met."""
    from rdkit import Chem
    todo, odd = [], False
    for bd in rd.GetBonds():
        if bd.GetBondType() in (Chem.BondType.UNSPECIFIED, Chem.BondType.ZERO):
            zb, ze = bd.GetBeginAtom().GetAtomicNum(), bd.GetEndAtom().GetAtomicNum()
            if (zb in NONMETALS) == (ze in NONMETALS):
                odd = True
            else:
                todo.append((bd.GetBeginAtomIdx(), bd.GetEndAtomIdx()) if zb in NONMETALS else (bd.GetEndAtomIdx(), bd.GetBeginAtomIdx()))
        elif bd.GetBondType() == Chem.BondType.DATIVE and \
                (bd.GetBeginAtom().GetAtomicNum() in NONMETALS) == (bd.GetEndAtom().GetAtomicNum() in NONMETALS):
            odd = True
    if not todo:
        return rd, odd
    rw = Chem.RWMol(rd)
    for x, y in todo:
        rw.RemoveBond(x, y)
        rw.AddBond(x, y, Chem.BondType.DATIVE)
    out = rw.GetMol()
    try:
        Chem.SanitizeMol(out)
    except Exception:
        out.UpdatePropertyCache(strict=False)
    return out, odd


def has_odd_special(rd):
    return special_as_dative(rd)[1]


def can_smiles(rd):
    """RDKit canonical isomeric SMILES (atom maps cleared, hydrogens merged, aromaticity re-perceived, order-less bonds as
    donor -> metal dative bonds)"""
    return _reparsed(special_as_dative(strip_maps(rd))[0])


def flat_smiles(rd):
    from rdkit import Chem
    rd = special_as_dative(strip_maps(rd))[0]
    Chem.RemoveStereochemistry(rd)
    return _reparsed(rd)


def smiles_faithful(rd):
    """RDKit's SMILES of rd reads back as the same atoms (element, charge, hydrogens, radical electrons)"""
    from rdkit import Chem
    def sig(x):
        return sorted((a.GetAtomicNum(), a.GetFormalCharge(), a.GetTotalNumHs(), a.GetNumRadicalElectrons()) for a in x.GetAtoms())
    try:
        again = Chem.MolFromSmiles(Chem.MolToSmiles(strip_maps(rd)))
    except Exception:
        again = None
    return again is not None and sig(again) == sig(rd)


def stereo_isomorphic(a, b):
    """same molecule including configuration, decided by RDKit's chirality-aware graph matching in both directions (used
    where canonical SMILES is not canonical: pseudo-asymmetric ring stereo)"""
    a, b = special_as_dative(strip_maps(a))[0], special_as_dative(strip_maps(b))[0]
    if a.GetNumAtoms() != b.GetNumAtoms() or a.GetNumBonds() != b.GetNumBonds():
        return False
    try:
        return a.HasSubstructMatch(b, useChirality=True) and b.HasSubstructMatch(a, useChirality=True)
    except Exception:
        return False


def same_stereo_molecule(a, b):
    return can_smiles(a) == can_smiles(b) or (flat_smiles(a) == flat_smiles(b) and stereo_isomorphic(a, b))


def reduce_stereo(rd, keep_atoms, keep_bonds):
    """copy of rd in which only the listed atoms (indices) keep their chiral tag and only the listed bonds (index pairs) keep
    their E/Z label"""
    from rdkit import Chem
    rd = Chem.Mol(rd)
    for a in rd.GetAtoms():
        if a.GetIdx() not in keep_atoms:
            a.SetChiralTag(Chem.ChiralType.CHI_UNSPECIFIED)
    for bd in rd.GetBonds():
        if bd.GetStereo() != Chem.BondStereo.STEREONONE and frozenset((bd.GetBeginAtomIdx(), bd.GetEndAtomIdx())) not in keep_bonds:
            bd.SetStereo(Chem.BondStereo.STEREONONE)
    Chem.AssignStereochemistry(rd, cleanIt=False, force=True)
    return rd


def rd_stereo_elements(rd):
    from rdkit import Chem
    atoms = {a.GetIdx() for a in rd.GetAtoms() if a.GetChiralTag() in (Chem.ChiralType.CHI_TETRAHEDRAL_CW, Chem.ChiralType.CHI_TETRAHEDRAL_CCW)}
    bonds = {frozenset((bd.GetBeginAtomIdx(), bd.GetEndAtomIdx())) for bd in rd.GetBonds()
             if bd.GetStereo() in (Chem.BondStereo.STEREOE, Chem.BondStereo.STEREOZ)}
    return atoms, bonds


def ch_stereo_elements(m):
    """what the bridge is asked to carry: labelled stereogenic tetrahedrons and labelled plain double bonds (chython also
    labels allenes and cumulenes, which RDKit cannot hold: outside the property)"""
    atoms = {n for n, a in m.atoms() if a.stereo is not None and n in m.stereogenic_tetrahedrons}
    bonds = set()
    reg = m.stereogenic_cis_trans
    for n, mm, bd in m.bonds():
        if bd.stereo is not None and ((n, mm) in reg or (mm, n) in reg):
            bonds.add(frozenset((n, mm)))
    return atoms, bonds


def rd_must_arrive(rd):
    """the stereo elements of an RDKit molecule (as RDKit itself perceived them from a string) that are inside chython's
    domain: CW/CCW carbons with three or more non-hydrogen neighbours (hydrogen isotopes count as hydrogen for chython) and every
    E/Z double bond"""
    atoms, bonds = rd_stereo_elements(rd)
    atoms = {i for i in atoms if rd.GetAtomWithIdx(i).GetAtomicNum() == 6 and
             sum(1 for x in rd.GetAtomWithIdx(i).GetNeighbors() if x.GetAtomicNum() != 1) >= 3}
    return atoms, bonds


def parse_ref(smi):
    """RDKit's own reading of the string, hydrogens kept as atoms so that atom i is the i-th atom of the string"""
    from rdkit import Chem
    p = Chem.SmilesParserParams()
    p.removeHs = False
    try:
        return Chem.MolFromSmiles(smi, p)
    except Exception:
        return None


_MAPPINGS = {}


def py_to(smi, form):
    pre = {'kekule': 'm.kekule(); ', 'aromatic': 'm.kekule(); m.thiele(); ', 'plain': ''}.get(form, 'm.kekule(); m.thiele(); ')
    if (smi, form) in _MAPPINGS:
        mp = _MAPPINGS[(smi, form)]
        pre += f'm.remap({ {k: 100000 + k for k in mp}!r}); m.remap({ {100000 + k: v for k, v in mp.items()}!r}); '
    return (f"from chython import smiles; from chython.utils.rdkit import to_rdkit_molecule; from rdkit import Chem\n"
            f"m = smiles({smi!r}); {pre}rd = to_rdkit_molecule(m)\n"
            f"print(str(m), '->', Chem.MolToSmiles(rd), [(a.GetSymbol(), a.GetTotalNumHs(), a.GetNumRadicalElectrons()) for a in rd.GetAtoms()])")


def py_from(smi):
    return (f"from chython import smiles; from chython.utils.rdkit import from_rdkit_molecule; from rdkit import Chem\n"
            f"rd = Chem.MolFromSmiles({smi!r}); m = from_rdkit_molecule(rd)\n"
            f"print(Chem.MolToSmiles(rd), '->', str(m), [(a.atomic_symbol, a.implicit_hydrogens, a.is_radical) for _, a in m.atoms()])")


def oracle_to(rep, smi, form, m, order, ref):
    """to_rdkit_molecule(m) against m itself (attributes, bonds, coordinates, atom map) and against RDKit's reading `ref` of
    the string m was made from; order[i] = chython number of the i-th atom of the string.  Returns the RDKit molecule."""
    from rdkit import Chem
    from chython.utils.rdkit import to_rdkit_molecule
    ck = rep.ck
    key = f'{smi}|{form}'
    tap = TapTo()
    rd = tap.run(m)
    if rd is None:
        e = tap.exc
        ck.count('search-to:raises ' + type(e).__name__)
        if tap.pre is not None and any(t[2] == 'DATIVE' for t in tap.pre['bonds']):
            # RDKit rejects the coordinate-bond reading of a molecule with order-8 bonds: not accepted by both toolkits;
            # the direction the bridge chose is still judged
            for bi, ei, tname in tap.pre['bonds']:
                if tname == 'DATIVE' and tap.pre['atoms'][bi][0] not in NONMETALS and tap.pre['atoms'][ei][0] in NONMETALS:
                    rep.counterexample(f'to-dative:{key}', 'a coordinate bond between a metal and a non-metal is written as metal -> non-metal',
                                       {'smiles': smi, 'form': form}, 'metal -> non-metal', 'donor -> metal', 'periodic table', replay_py=py_to(smi, form))
            return None
        # both toolkits accept the molecule (chython built it, RDKit read the string): is it the bridge's construction
        # that RDKit rejects?  RDKit re-reading chython's own spelling decides.
        try:
            again = Chem.MolFromSmiles(str(m))
        except Exception:
            again = None
        if again is not None:
            rep.counterexample(f'to-raises:{key}', f'to_rdkit_molecule raises {type(e).__name__} on a molecule both toolkits accept',
                               {'smiles': smi, 'form': form}, f'{type(e).__name__}: {e}'[:200], 'an RDKit molecule', 'RDKit reads chython\'s own SMILES of it',
                               replay_py=py_to(smi, form))
        return None
    by_map = {}
    for a in rd.GetAtoms():
        by_map.setdefault(a.GetAtomMapNum(), []).append(a)
    nums = [n for n, _ in m.atoms()]
    if rd.GetNumAtoms() != len(nums) or sorted(by_map) != sorted(nums) or any(len(v) != 1 for v in by_map.values()):
        rep.counterexample(f'to-atom-map:{key}', 'RDKit atom map numbers are not the chython atom numbers', {'smiles': smi, 'form': form},
                           sorted(by_map), sorted(nums), 'by construction', replay_py=py_to(smi, form))
        return rd
    conf = rd.GetConformer(0) if rd.GetNumConformers() else None
    for n, a in m.atoms():
        ra = by_map[n][0]
        got = (ra.GetAtomicNum(), ra.GetIsotope(), ra.GetFormalCharge(), ra.GetNumRadicalElectrons(), ra.GetTotalNumHs())
        want = (a.atomic_number, a.isotope or 0, a.charge, 1 if a.is_radical else 0, a.implicit_hydrogens)
        if got != want:
            if got[:4] == want[:4] and ra.GetNumExplicitHs() == want[4] and ra.GetNumImplicitHs() > 0:
                rep.counterexample('to-rdkit-adds-implicit-hydrogens', f'RDKit adds implicit hydrogens to atom {n} ({a.atomic_symbol}): the hydrogen count is not preserved',
                                   {'smiles': smi, 'form': form, 'atom': n}, got, want, 'atom by atom', replay_py=py_to(smi, form))
            else:
                rep.counterexample(f'to-atom:{key}:{order.index(n)}', f'attributes (Z, isotope, charge, radical electrons, hydrogens) of atom {n} differ after to_rdkit_molecule',
                                   {'smiles': smi, 'form': form, 'atom': n}, got, want, 'atom by atom', replay_py=py_to(smi, form))
        if conf is None or conf.Is3D():
            rep.counterexample(f'to-xy:{key}', 'first RDKit conformer is missing or marked 3D', {'smiles': smi, 'form': form}, None, '2D conformer',
                               'by construction', replay_py=py_to(smi, form))
        else:
            p = conf.GetAtomPosition(ra.GetIdx())
            if (bits(p.x), bits(p.y), bits(p.z)) != (bits(a.x), bits(a.y), 0):
                rep.counterexample(f'to-xy:{key}', f'coordinates of atom {n} differ', {'smiles': smi, 'form': form, 'atom': n}, (p.x, p.y, p.z), (a.x, a.y, 0.0),
                                   'atom by atom', replay_py=py_to(smi, form))
    nb = 0
    for n, mm, bd in m.bonds():
        nb += 1
        rb = rd.GetBondBetweenAtoms(by_map[n][0].GetIdx(), by_map[mm][0].GetIdx())
        o = int(bd)
        if rb is None:
            rep.counterexample(f'to-bond:{key}', f'bond {n}-{mm} is missing in the RDKit molecule', {'smiles': smi, 'form': form}, None, o, 'bond by bond', replay_py=py_to(smi, form))
            continue
        t = rb.GetBondType().name
        good = {1: ('SINGLE', 'AROMATIC'), 2: ('DOUBLE', 'AROMATIC'), 3: ('TRIPLE',), 4: ('AROMATIC', 'SINGLE', 'DOUBLE'), 8: ('DATIVE',)}[o]
        if t not in good:    # RDKit re-perceives aromaticity: ring bonds may change between 1/2 and aromatic, nothing else
            rep.counterexample(f'to-bond:{key}', f'bond {n}-{mm} of order {o} became {t}', {'smiles': smi, 'form': form}, t, good, 'bond by bond', replay_py=py_to(smi, form))
        if o == 8:
            zb, ze = rb.GetBeginAtom().GetAtomicNum(), rb.GetEndAtom().GetAtomicNum()
            ck.count('search-to:dative ' + ('nonmetal->metal' if zb in NONMETALS and ze not in NONMETALS else 'other'))
            if zb not in NONMETALS and ze in NONMETALS:
                rep.counterexample(f'to-dative:{key}', 'a coordinate bond between a metal and a non-metal is written as metal -> non-metal',
                                   {'smiles': smi, 'form': form}, f'{rb.GetBeginAtom().GetSymbol()}->{rb.GetEndAtom().GetSymbol()}', 'donor -> metal', 'periodic table', replay_py=py_to(smi, form))
    if nb != rd.GetNumBonds():
        rep.counterexample(f'to-bond:{key}', 'number of bonds differs', {'smiles': smi, 'form': form}, rd.GetNumBonds(), nb, 'count', replay_py=py_to(smi, form))
    # configuration: every label chython holds on a centre RDKit can express arrives, and nothing is invented
    c_atoms, c_bonds = ch_stereo_elements(m)
    r_atoms, r_bonds = rd_stereo_elements(rd)
    idx = {n: by_map[n][0].GetIdx() for n in nums}
    want_atoms = {idx[n] for n in c_atoms}
    want_bonds = {frozenset(idx[x] for x in p) for p in c_bonds}
    if r_atoms - want_atoms or r_bonds - want_bonds:
        rep.counterexample(f'to-stereo-invented:{key}', 'the RDKit molecule has configuration on centres the chython molecule has none on',
                           {'smiles': smi, 'form': form}, [sorted(r_atoms - want_atoms), [sorted(x) for x in r_bonds - want_bonds]], 'none', 'label by label', replay_py=py_to(smi, form))
    lost_a, lost_b = want_atoms - r_atoms, want_bonds - r_bonds
    ck.count('search-to:stereo elements carried', len(want_atoms & r_atoms) + len(want_bonds & r_bonds))
    # a label can legitimately vanish only where RDKit itself sees no stereo element (its own reading of the string has none either)
    if ref is not None:
        f_atoms, f_bonds = rd_stereo_elements(ref)
        pos = {n: i for i, n in enumerate(order)}
        ref_of = {idx[n]: pos[n] for n in nums}
        lost_a = {i for i in lost_a if ref_of[i] in f_atoms}
        lost_b = {p for p in lost_b if frozenset(ref_of[i] for i in p) in f_bonds}
    if ref is not None and form == 'aromatic':
        ma, mb = rd_must_arrive(ref)
        miss_a = {i for i in ma if order[i] not in c_atoms}
        miss_b = {p for p in mb if frozenset(order[i] for i in p) not in c_bonds}
        if miss_a or miss_b:
            rep.counterexample(f'to-stereo-not-held:{key}', 'the chython molecule of the string holds no label where RDKit holds one (carbon centre with three or more heavy '
                               'neighbours / double bond): to_rdkit_molecule(smiles(s)) loses configuration relative to RDKit\'s reading',
                               {'smiles': smi, 'form': form}, [sorted(miss_a), [sorted(x) for x in miss_b]], 'a label on each', 'RDKit stereo perception', replay_py=py_to(smi, form))
    if lost_a or lost_b:
        rep.counterexample(f'to-stereo-lost:{key}', 'a configuration label of the chython molecule does not arrive in the RDKit molecule',
                           {'smiles': smi, 'form': form}, [sorted(lost_a), [sorted(x) for x in lost_b]], 'all labels', 'label by label', replay_py=py_to(smi, form))
    if ref is None:
        return rd
    # the molecule as a whole: RDKit canonical SMILES against RDKit's reading of the string, restricted to the
    # configuration chython holds (labels the chython reader dropped are not the bridge's business)
    keep_a = {pos[n] for n in c_atoms}
    keep_b = {frozenset(pos[x] for x in p) for p in c_bonds}
    red = reduce_stereo(ref, keep_a, keep_b)
    if can_smiles(rd) == can_smiles(red):
        ck.count('search-to:canonical SMILES equal')
        return rd
    if has_odd_special(rd) or has_odd_special(red):
        ck.count('search-to:undecided (order-less bond between two metals / two non-metals)')
        return rd
    try:
        again = Chem.MolFromSmiles(format(m, 'h') if False else str(m))
    except Exception:
        again = None
    if flat_smiles(rd) != flat_smiles(red):
        if again is not None and flat_smiles(again) == flat_smiles(rd):
            ck.count('search-to:noise: the two SMILES readers disagree on the constitution')
            return rd
        if any(by_map[n][0].GetNumImplicitHs() for n in nums):
            return rd          # hydrogens added by RDKit: already reported atom by atom
        if not smiles_faithful(rd):
            ck.count('search-to:undecided (RDKit\'s own SMILES of the bridged molecule reads back with other hydrogens/radicals; atoms and bonds were compared one by one)')
            return rd
        rep.counterexample(f'to-structure:{key}', 'RDKit canonical SMILES (without configuration) of to_rdkit_molecule differs from RDKit\'s reading of the string',
                           {'smiles': smi, 'form': form}, flat_smiles(rd), flat_smiles(red), 'RDKit canonical SMILES', replay_py=py_to(smi, form))
        return rd
    if stereo_isomorphic(rd, red):
        ck.count('search-to:canonical SMILES differ, chirality-aware isomorphism holds')
        return rd
    # compare on the stereo elements both molecules specify (presence was judged above)
    common_a = {i for i in r_atoms if ref_of[i] in rd_stereo_elements(red)[0]}
    common_b = {p for p in r_bonds if frozenset(ref_of[i] for i in p) in rd_stereo_elements(red)[1]}
    rd2 = reduce_stereo(rd, common_a, common_b)
    red2 = reduce_stereo(red, {ref_of[i] for i in common_a}, {frozenset(ref_of[i] for i in p) for p in common_b})
    if same_stereo_molecule(rd2, red2):
        ck.count('search-to:equal on the stereo elements both hold')
        return rd
    if again is not None and same_stereo_molecule(again, rd):
        ck.count('search-to:noise: the two SMILES readers disagree on the configuration')
        return rd
    rep.counterexample(f'to-stereo:{key}', 'configuration after to_rdkit_molecule differs from RDKit\'s reading of the string',
                       {'smiles': smi, 'form': form}, can_smiles(rd), can_smiles(red), 'RDKit canonical isomeric SMILES + chirality-aware isomorphism',
                       replay_py=py_to(smi, form))
    return rd


def normalised(m):
    """Kekule then Thiele form (the library's own normal form), or None"""
    try:
        c = m.copy()
        c.kekule()
        c.thiele()
        return c
    except Exception:
        return None


def kekule_smiles(m):
    try:
        c = m.copy()
        c.kekule()
        return str(c)
    except Exception:
        return None


def aligned(m, rd):
    """chython atom i+1 and RDKit atom i are the same atom of the string (same count, same elements in the same order)"""
    nums = [n for n, _ in m.atoms()]
    return nums == list(range(1, rd.GetNumAtoms() + 1)) and all(m.atom(i + 1).atomic_number == a.GetAtomicNum() for i, a in enumerate(rd.GetAtoms()))


def oracle_from(rep, smi, variant, rd, m_ref):
    """from_rdkit_molecule(rd) against rd itself and against chython's own reading m_ref of the same string"""
    from rdkit import Chem
    from chython.utils.rdkit import from_rdkit_molecule
    ck = rep.ck
    key = f'{smi}|{variant}'
    inp = {'smiles': smi, 'rdkit_variant': variant}
    try:
        m2 = from_rdkit_molecule(rd)
    except Exception as e:
        ck.count('search-from:raises ' + type(e).__name__)
        if m_ref is not None:
            rep.counterexample(f'from-raises:{key}', f'from_rdkit_molecule raises {type(e).__name__} on a molecule both toolkits accept', inp,
                               f'{type(e).__name__}: {e}'[:200], 'a molecule', 'chython reads the same SMILES', replay_py=py_from(smi))
        return None
    n_at = rd.GetNumAtoms()
    if [n for n, _ in m2.atoms()] != list(range(1, n_at + 1)):
        rep.counterexample(f'from-atoms:{key}', 'atoms are not numbered 1..N in RDKit index order', inp, [n for n, _ in m2.atoms()][:20], f'1..{n_at}', 'count', replay_py=py_from(smi))
        return m2
    confs = rd.GetConformers()
    for i, ra in enumerate(rd.GetAtoms()):
        a = m2.atom(i + 1)
        nrad = ra.GetNumRadicalElectrons()
        got = (a.atomic_number, a.isotope or 0, a.charge, a.is_radical, a.implicit_hydrogens, getattr(a, '_parsed_mapping', None))
        want = (ra.GetAtomicNum(), ra.GetIsotope(), ra.GetFormalCharge(), nrad > 0, ra.GetTotalNumHs(), ra.GetAtomMapNum())
        if got != want:
            rep.counterexample(f'from-atom:{key}:{i}', f'attributes (Z, isotope, charge, radical, hydrogens, map number) of atom {i + 1} differ after from_rdkit_molecule',
                               inp, got, want, 'atom by atom', replay_py=py_from(smi))
        if nrad > 1:
            rep.counterexample('from-rdkit-radical-multiplicity', f'atom {i + 1} has {nrad} radical electrons in RDKit and is_radical=True in chython: the multiplicity is lost',
                               inp, 'is_radical=True', f'{nrad} radical electrons', 'atom by atom', replay_py=py_from(smi))
        if confs:
            p = confs[0].GetAtomPosition(i)
            if (bits(a.x), bits(a.y)) != (bits(p.x), bits(p.y)):
                rep.counterexample(f'from-xy:{key}', f'coordinates of atom {i + 1} differ', inp, (a.x, a.y), (p.x, p.y), 'atom by atom', replay_py=py_from(smi))
    want3 = [[tuple(bits(v) for v in (p.x, p.y, p.z)) for p in (c.GetAtomPosition(i) for i in range(n_at))] for c in confs if c.Is3D()]
    got3 = [[tuple(bits(v) for v in c[n]) for n in sorted(c)] for c in (m2._conformers if hasattr(m2, '_conformers') else [])]
    if want3 != got3:
        rep.counterexample(f'from-conformers:{key}', '3D conformers differ', inp, len(got3), len(want3), 'conformer by conformer', replay_py=py_from(smi))
    nb = sum(1 for _ in m2.bonds())
    if nb != rd.GetNumBonds():
        rep.counterexample(f'from-bond:{key}', 'number of bonds differs', inp, nb, rd.GetNumBonds(), 'count', replay_py=py_from(smi))
    for bd in rd.GetBonds():
        n, mm = bd.GetBeginAtomIdx() + 1, bd.GetEndAtomIdx() + 1
        try:
            o = int(m2.bond(n, mm))
        except Exception:
            o = None
        if o != ORDER_OF_TYPE.get(bd.GetBondType().name):
            rep.counterexample(f'from-bond:{key}', f'bond {n}-{mm} of type {bd.GetBondType().name} became order {o}', inp, o, ORDER_OF_TYPE.get(bd.GetBondType().name),
                               'bond by bond', replay_py=py_from(smi))
    # configuration
    r_atoms, r_bonds = rd_stereo_elements(rd)
    c_atoms = {n - 1 for n, a in m2.atoms() if a.stereo is not None and n in m2.stereogenic_tetrahedrons}
    c_all = {n - 1 for n, a in m2.atoms() if a.stereo is not None}
    c_bonds = {frozenset((n - 1, mm - 1)) for n, mm, bd in m2.bonds() if bd.stereo is not None}
    if c_all - r_atoms or c_bonds - r_bonds:
        rep.counterexample(f'from-stereo-invented:{key}', 'the chython molecule has configuration labels the RDKit molecule has none for', inp,
                           [sorted(c_all - r_atoms), [sorted(x) for x in c_bonds - r_bonds]], 'none', 'label by label', replay_py=py_from(smi))
    ck.count('search-from:stereo elements carried', len(c_atoms & r_atoms) + len(c_bonds & r_bonds))
    # labels only where the library itself sees a stereo element: resetting the marks must change nothing
    try:
        fx = m2.copy()
        fx.fix_stereo()
        after = ({n - 1 for n, a in fx.atoms() if a.stereo is not None}, {frozenset((n - 1, mm - 1)) for n, mm, bd in fx.bonds() if bd.stereo is not None})
    except Exception:
        after = None
    if after is not None and after != (c_all, c_bonds):
        rep.counterexample(f'from-stereo-not-reset:{key}', 'from_rdkit_molecule leaves configuration labels that fix_stereo() removes (labels on centres the library does not consider stereogenic)',
                           inp, [sorted(c_all), [sorted(x) for x in c_bonds]], [sorted(after[0]), [sorted(x) for x in after[1]]], 'fix_stereo() is idempotent on the result',
                           replay_py=py_from(smi))
    if m_ref is not None:
        # rd is RDKit's own reading of a string: what it holds on carbon centres and double bonds must arrive
        ma, mb = rd_must_arrive(rd)
        if ma - c_atoms or mb - c_bonds:
            rep.counterexample(f'from-stereo-dropped:{key}', 'a configuration label RDKit holds (carbon centre with three or more heavy neighbours / double bond) does not '
                               'arrive in the chython molecule', inp, [sorted(ma - c_atoms), [sorted(x) for x in mb - c_bonds]], 'all such labels', 'label by label',
                               replay_py=py_from(smi))
        ck.count('search-from:labels that must arrive', len(ma) + len(mb))
    al = m_ref is not None and aligned(m_ref, rd)
    if al:
        # what chython itself holds when it reads the string decides which RDKit labels are expected to arrive
        e_atoms, e_bonds = ch_stereo_elements(m_ref)
        e_atoms = {n - 1 for n in e_atoms}
        e_bonds = {frozenset(x - 1 for x in p) for p in e_bonds}
        lost_a, lost_b = (e_atoms & r_atoms) - c_atoms, (e_bonds & r_bonds) - c_bonds
        if lost_a or lost_b:
            rep.counterexample(f'from-stereo-lost:{key}', 'a configuration label RDKit holds (and chython keeps when it reads the string itself) does not arrive', inp,
                               [sorted(lost_a), [sorted(x) for x in lost_b]], 'all labels', 'label by label', replay_py=py_from(smi))
    if m_ref is None:
        return m2
    # the molecule as a whole: the library's canonical string against its own reading of the string
    n2, nr = normalised(m2), normalised(m_ref)
    if n2 is not None and nr is not None and str(n2) == str(nr):
        ck.count('search-from:canonical string equal')
        return m2
    ks = kekule_smiles(m2)
    try:
        again = Chem.MolFromSmiles(ks) if ks else None
    except Exception:
        again = None
    if again is None:
        ck.count('search-from:undecided (RDKit does not read chython\'s spelling)')
        return m2
    keep_a, keep_b = (e_atoms, e_bonds) if al else (c_atoms, c_bonds)
    red = reduce_stereo(rd, keep_a, keep_b)
    if same_stereo_molecule(again, red):
        ck.count('search-from:canonical strings differ, RDKit judges the same molecule')
        return m2
    if flat_smiles(again) != flat_smiles(red):
        rep.counterexample(f'from-structure:{key}', 'constitution after from_rdkit_molecule differs (chython canonical string and RDKit re-reading both disagree)', inp,
                           flat_smiles(again), flat_smiles(red), 'chython canonical string; RDKit canonical SMILES of the re-read molecule', replay_py=py_from(smi))
    else:
        # equal on the elements both hold?
        ga, gb = rd_stereo_elements(again)
        if len(ga) < len(rd_stereo_elements(red)[0]) or len(gb) < len(rd_stereo_elements(red)[1]):
            ck.count('search-from:undecided (fewer stereo elements after re-reading: perception differs)')
            return m2
        rep.counterexample(f'from-stereo:{key}', 'configuration after from_rdkit_molecule differs (chython canonical string and RDKit re-reading both disagree)', inp,
                           can_smiles(again), can_smiles(red), 'chython canonical string; RDKit canonical isomeric SMILES + chirality-aware isomorphism', replay_py=py_from(smi))
    return m2


def oracle_roundtrip_chython(rep, smi, form, m, rd):
    """from_rdkit_molecule(to_rdkit_molecule(m)) against m"""
    from chython.utils.rdkit import from_rdkit_molecule
    ck = rep.ck
    key = f'{smi}|{form}'
    inp = {'smiles': smi, 'form': form}
    rp = py_to(smi, form) + "\nfrom chython.utils.rdkit import from_rdkit_molecule; b = from_rdkit_molecule(rd); print(str(b), b == m)"
    try:
        m3 = from_rdkit_molecule(rd)
    except Exception as e:
        rep.counterexample(f'rt-chython-raises:{key}', f'from_rdkit_molecule raises {type(e).__name__} on the result of to_rdkit_molecule', inp, type(e).__name__, 'a molecule', 'round trip', replay_py=rp)
        return
    nums = [n for n, _ in m.atoms()]
    back = {n: i + 1 for i, n in enumerate(nums)}
    if [n for n, _ in m3.atoms()] != list(range(1, len(nums) + 1)):
        rep.counterexample(f'rt-chython-atoms:{key}', 'atom count differs after the round trip', inp, len(m3), len(nums), 'round trip', replay_py=rp)
        return
    added = False
    for n, a in m.atoms():
        c = m3.atom(back[n])
        got = (c.atomic_number, c.isotope, c.charge, c.is_radical, c.implicit_hydrogens, bits(c.x), bits(c.y), getattr(c, '_parsed_mapping', None))
        want = (a.atomic_number, a.isotope, a.charge, a.is_radical, a.implicit_hydrogens, bits(a.x), bits(a.y), n)
        if got != want:
            if got[:4] == want[:4] and got[5:] == want[5:] and got[4] > want[4]:
                added = True
                rep.counterexample('to-rdkit-adds-implicit-hydrogens', 'RDKit adds implicit hydrogens: the hydrogen count is not preserved', inp, got[4], want[4], 'round trip', replay_py=rp)
            else:
                rep.counterexample(f'rt-chython-atom:{key}:{back[n]}', f'atom {n} differs after to_rdkit_molecule then from_rdkit_molecule '
                                   '(Z, isotope, charge, radical, hydrogens, x, y, map number)', inp, got, want, 'round trip', replay_py=rp)
    b0 = {frozenset((back[n], back[mm])): int(bd) for n, mm, bd in m.bonds()}
    b3 = {frozenset((n, mm)): int(bd) for n, mm, bd in m3.bonds()}
    if set(b0) != set(b3) or any(b0[k] != b3[k] and not ({b0[k], b3[k]} <= {1, 2, 4}) for k in b0):
        rep.counterexample(f'rt-chython-bonds:{key}', 'bonds differ after the round trip (other than single/double <-> aromatic)', inp,
                           sorted((sorted(k), v) for k, v in b3.items())[:30], sorted((sorted(k), v) for k, v in b0.items())[:30], 'round trip', replay_py=rp)
    # labels, compared in one common neighbour order through the library's own sign translation
    c_atoms, c_bonds = ch_stereo_elements(m)
    r_atoms, r_bonds = rd_stereo_elements(rd)
    idx = {a.GetAtomMapNum(): a.GetIdx() for a in rd.GetAtoms()}
    for n in c_atoms:
        if idx.get(n) not in r_atoms:
            continue                       # judged by oracle_to
        env = list(m._bonds[n])
        try:
            s0 = m._translate_tetrahedron_sign(n, env)
            s3 = m3._translate_tetrahedron_sign(back[n], [back[x] for x in env])
        except KeyError:
            s3 = None
        if s0 != s3:
            rep.counterexample(f'rt-chython-stereo:{key}:{back[n]}', f'tetrahedral label of atom {n} is {"lost" if s3 is None else "inverted"} after the round trip', inp, s3, s0,
                               'round trip, both labels translated to one neighbour order', replay_py=rp)
    reg = m.stereogenic_cis_trans
    for p in c_bonds:
        if frozenset(idx.get(x) for x in p) not in r_bonds:
            continue
        (n, mm) = next(k for k in reg if frozenset(k) == p)
        n0, n1 = reg[(n, mm)][:2]
        try:
            s0 = m._translate_cis_trans_sign(n, mm, n0, n1)
            s3 = m3._translate_cis_trans_sign(back[n], back[mm], back[n0], back[n1])
        except KeyError:
            s3 = None
        if s0 != s3:
            rep.counterexample(f'rt-chython-stereo:{key}:{back[n]}-{back[mm]}', f'double-bond label of {n}={mm} is {"lost" if s3 is None else "inverted"} after the round trip', inp, s3, s0,
                               'round trip, both labels translated to the same reference atoms', replay_py=rp)
    n0, n3 = normalised(m), normalised(m3)
    if n0 is not None and n3 is not None:
        if str(n0) == str(n3):
            ck.count('search-rt-chython:canonical string equal')
        elif not added:
            ck.count('search-rt-chython:canonical strings differ (judged atom by atom and label by label)')


def oracle_roundtrip_rdkit(rep, smi, variant, rd, m2):
    """to_rdkit_molecule(from_rdkit_molecule(rd)) against rd"""
    from chython.utils.rdkit import to_rdkit_molecule
    ck = rep.ck
    key = f'{smi}|{variant}'
    inp = {'smiles': smi, 'rdkit_variant': variant}
    rp = py_from(smi) + "\nfrom chython.utils.rdkit import to_rdkit_molecule; r2 = to_rdkit_molecule(m, keep_mapping=False); print(Chem.MolToSmiles(r2))"
    if any(a.implicit_hydrogens is None for _, a in m2.atoms()):
        ck.count('search-rt-rdkit:skipped (hydrogen count missing)')
        return
    try:
        rd2 = to_rdkit_molecule(m2)
    except Exception as e:
        ck.count('search-rt-rdkit:raises ' + type(e).__name__)
        if any(bd.GetBondType().name in ('ZERO', 'UNSPECIFIED') for bd in rd.GetBonds()):
            rep.counterexample('rt-rdkit-orderless-bond-becomes-dative', 'an RDKit ZERO/UNSPECIFIED bond comes back as a DATIVE bond (and RDKit rejects the valence)', inp,
                               f'{type(e).__name__}', 'the same molecule', 'round trip', replay_py=rp)
            return
        rep.counterexample(f'rt-rdkit-raises:{key}', f'to_rdkit_molecule raises {type(e).__name__} on the result of from_rdkit_molecule', inp, f'{type(e).__name__}: {e}'[:200],
                           'a molecule', 'round trip', replay_py=rp)
        return
    if rd2.GetNumAtoms() != rd.GetNumAtoms() or rd2.GetNumBonds() != rd.GetNumBonds():
        rep.counterexample(f'rt-rdkit-atoms:{key}', 'atom or bond count differs after the round trip', inp, (rd2.GetNumAtoms(), rd2.GetNumBonds()),
                           (rd.GetNumAtoms(), rd.GetNumBonds()), 'round trip', replay_py=rp)
        return
    confs = rd.GetConformers()
    for i, ra in enumerate(rd.GetAtoms()):
        rb = rd2.GetAtomWithIdx(i)
        got = (rb.GetAtomicNum(), rb.GetIsotope(), rb.GetFormalCharge(), rb.GetNumRadicalElectrons(), rb.GetTotalNumHs(), rb.GetAtomMapNum())
        want = (ra.GetAtomicNum(), ra.GetIsotope(), ra.GetFormalCharge(), min(ra.GetNumRadicalElectrons(), 1), ra.GetTotalNumHs(), i + 1)
        if got != want:
            if got[:4] == want[:4] and got[5] == want[5] and rb.GetNumExplicitHs() == want[4] and rb.GetNumImplicitHs() > 0:
                rep.counterexample('to-rdkit-adds-implicit-hydrogens', 'RDKit adds implicit hydrogens: the hydrogen count is not preserved', inp, got[4], want[4], 'round trip', replay_py=rp)
            else:
                rep.counterexample(f'rt-rdkit-atom:{key}:{i}', f'RDKit atom {i} differs after from_rdkit_molecule then to_rdkit_molecule '
                                   '(Z, isotope, charge, radical electrons capped at 1, hydrogens, map number = new atom number)', inp, got, want, 'round trip', replay_py=rp)
        if confs:
            p, q = confs[0].GetAtomPosition(i), rd2.GetConformer(0).GetAtomPosition(i)
            if (bits(p.x), bits(p.y)) != (bits(q.x), bits(q.y)) or bits(q.z) != 0:
                rep.counterexample(f'rt-rdkit-xy:{key}', f'coordinates of atom {i} differ after the round trip', inp, (q.x, q.y, q.z), (p.x, p.y, 0.0), 'round trip', replay_py=rp)
    for bd in rd.GetBonds():
        b2 = rd2.GetBondBetweenAtoms(bd.GetBeginAtomIdx(), bd.GetEndAtomIdx())
        t1, t2 = bd.GetBondType().name, b2.GetBondType().name if b2 is not None else None
        if t1 == t2 or ({t1, t2} <= {'SINGLE', 'DOUBLE', 'AROMATIC'}):
            continue
        if t1 in ('ZERO', 'UNSPECIFIED') and t2 == 'DATIVE':
            rep.counterexample('rt-rdkit-orderless-bond-becomes-dative', f'an RDKit {t1} bond comes back as a DATIVE bond', inp, t2, t1, 'round trip', replay_py=rp)
        else:
            rep.counterexample(f'rt-rdkit-bond:{key}', f'bond {bd.GetBeginAtomIdx()}-{bd.GetEndAtomIdx()} of type {t1} comes back as {t2}', inp, t2, t1, 'round trip', replay_py=rp)
    c_atoms = {n - 1 for n, a in m2.atoms() if a.stereo is not None and n in m2.stereogenic_tetrahedrons}
    c_bonds = {frozenset((n - 1, mm - 1)) for n, mm, bd in m2.bonds() if bd.stereo is not None}
    red = reduce_stereo(rd, c_atoms, c_bonds)            # what arrived in chython was judged by oracle_from
    if same_stereo_molecule(rd2, red):
        ck.count('search-rt-rdkit:same molecule (canonical SMILES / chirality-aware isomorphism)')
        return
    if any(a.GetNumRadicalElectrons() > 1 for a in rd.GetAtoms()) or any(a.GetNumImplicitHs() for a in rd2.GetAtoms()):
        return        # reported above
    if has_odd_special(rd) or has_odd_special(rd2):
        ck.count('search-rt-rdkit:undecided (order-less bond between two metals / two non-metals)')
        return
    if flat_smiles(rd2) != flat_smiles(red):
        rep.counterexample(f'rt-rdkit-structure:{key}', 'constitution differs after from_rdkit_molecule then to_rdkit_molecule', inp, flat_smiles(rd2), flat_smiles(red),
                           'RDKit canonical SMILES', replay_py=rp)
        return
    a2, b2 = rd_stereo_elements(rd2)
    ar, br_ = rd_stereo_elements(red)
    if a2 != ar or b2 != br_:
        ck.count('search-rt-rdkit:stereo element sets differ (RDKit perception on the rebuilt molecule)')
        common_a, common_b = a2 & ar, b2 & br_
        if same_stereo_molecule(reduce_stereo(rd2, common_a, common_b), reduce_stereo(red, common_a, common_b)):
            return
    rep.counterexample(f'rt-rdkit-stereo:{key}', 'configuration differs after from_rdkit_molecule then to_rdkit_molecule', inp, can_smiles(rd2), can_smiles(red),
                       'RDKit canonical isomeric SMILES + chirality-aware isomorphism', replay_py=rp)


def respelled(m, seed):
    """the same molecule read back from a random-order SMILES written by the library: other atom order, other neighbour
    orders, other ring-closure positions.  Returns (string, Kekule form, aromatic form) or None."""
    random.seed(seed)            # format(m, 'r') draws from the global generator
    try:
        s2 = format(m, 'r')
    except Exception:
        return None
    f = normal_forms(s2)
    if f is None or str(f[1]) != str(normalised(m) or ''):
        return None              # the SMILES writer/reader pair is C01-C03's business
    return s2, f[0], f[1]


def undirected(rd):
    """copy with every DATIVE bond replaced by a ZERO bond (to tell a change of direction from any other change)"""
    from rdkit import Chem
    rw = Chem.RWMol(strip_maps(rd))
    for bd in rw.GetBonds():
        if bd.GetBondType() == Chem.BondType.DATIVE:
            bd.SetBondType(Chem.BondType.ZERO)
    out = rw.GetMol()
    out.UpdatePropertyCache(strict=False)
    return Chem.MolToSmiles(out)


def shuffle_renumber(mol, rng, sparse=False):
    """a renumbered copy and the mapping old number -> new number"""
    nums = list(mol._atoms)
    new = rng.sample(range(1, 3 * len(nums) + 2), len(nums)) if sparse else rng.sample(nums, len(nums))
    c = mol.copy()
    c.remap({n: 100000 + n for n in nums})
    c.remap({100000 + n: v for n, v in zip(nums, new)})
    return c, dict(zip(nums, new))


def search_one(rep, kind, smi, rng):
    from rdkit import Chem
    ck = rep.ck
    ref = parse_ref(smi)
    forms = normal_forms(smi)
    if ref is None or forms is None:
        ck.count('search-input:' + kind + (' (RDKit does not read it)' if ref is None else ' (chython does not accept it)'))
        ck.case(('search', smi), nontrivial=False)
        return
    ck.count('search-input:' + kind)
    kek, aro = forms
    n_st = sum(len(x) for x in ch_stereo_elements(aro))
    ck.count(f'search-stereo-elements={min(n_st, 6)}')
    ck.case(('search', smi), nontrivial=True)
    nums = list(aro._atoms)
    if nums != list(range(1, len(nums) + 1)) or ref.GetNumAtoms() != len(nums):
        ref_al = None                      # cannot align the two readings atom by atom: judge the bridge against m only
    else:
        ref_al = ref
    todo = [('aromatic', aro, nums)]
    if str(kek) != str(aro):
        todo.append(('kekule', kek, nums))
    ren, mp = shuffle_renumber(aro, rng, sparse=rng.random() < 0.5)
    set_coords(ren, rng)
    _MAPPINGS[(smi, 'renumbered')] = mp
    todo.append(('renumbered', ren, [mp[n] for n in nums]))
    cans = []
    for form, m, order in todo:
        rd = oracle_to(rep, smi, form, m, order, ref_al)
        ck.case(('to', smi, form))
        if rd is not None:
            cans.append((form, rd))
            oracle_roundtrip_chython(rep, smi, form, m, rd)
    if cans:
        from chython.utils.rdkit import to_rdkit_molecule
        try:
            rd0 = to_rdkit_molecule(aro, keep_mapping=False)
            maps = sorted({a.GetAtomMapNum() for a in rd0.GetAtoms()})
            if maps != [0] or Chem.MolToSmiles(rd0) != Chem.MolToSmiles(strip_maps(cans[0][1])):
                rep.counterexample(f'to-keep-mapping:{smi}', 'to_rdkit_molecule(keep_mapping=False) sets atom map numbers or builds another molecule', {'smiles': smi},
                                   [maps[:5], Chem.MolToSmiles(rd0)], [[0], Chem.MolToSmiles(strip_maps(cans[0][1]))], 'by construction',
                                   replay_py=py_to(smi, 'aromatic').replace('to_rdkit_molecule(m)', 'to_rdkit_molecule(m, keep_mapping=False)'))
        except Exception as e:
            rep.counterexample(f'to-keep-mapping:{smi}', f'to_rdkit_molecule(keep_mapping=False) raises {type(e).__name__} where keep_mapping=True does not', {'smiles': smi},
                               type(e).__name__, 'a molecule', 'by construction')
    for k in range(2 if n_st or any(int(bd) == 8 for *_, bd in aro.bonds()) else 1):
        rs = respelled(aro, f'{ck.seed}:{smi}:{k}')
        if rs is None:
            ck.count('search-input:respelling not usable')
            continue
        s2, _, aro2 = rs
        ref2 = parse_ref(s2)
        n2 = list(aro2._atoms)
        if ref2 is not None and (n2 != list(range(1, len(n2) + 1)) or ref2.GetNumAtoms() != len(n2)):
            ref2 = None
        rd = oracle_to(rep, s2, 'aromatic', aro2, n2, ref2)
        ck.case(('to', smi, 'respelled', s2))
        ck.count('search-input:respelled')
        if rd is not None:
            cans.append((f'respelled as {s2}', rd))
            oracle_roundtrip_chython(rep, s2, 'aromatic', aro2, rd)
    for (f1, r1), (f2, r2) in zip(cans, cans[1:]):
        if not same_stereo_molecule(r1, r2):
            if undirected(r1) == undirected(r2):
                rep.counterexample('to-dative-direction-follows-atom-order', 'the direction of a coordinate bond written by to_rdkit_molecule depends on the order of the atoms',
                                   {'smiles': smi, 'forms': [f1, f2]}, can_smiles(r2), can_smiles(r1), 'RDKit canonical SMILES of two atom orders of one molecule',
                                   replay_py=py_to(smi, 'aromatic') + (('\n' + py_to(f2[13:], 'aromatic')) if f2.startswith('respelled as ') else ''))
                continue
            rep.counterexample(f'to-form-dependent:{smi}|{f2}', f'to_rdkit_molecule gives different molecules for the {f1} and the {f2} form of one molecule',
                               {'smiles': smi, 'forms': [f1, f2], 'renumbering': mp}, can_smiles(r2), can_smiles(r1), 'RDKit canonical isomeric SMILES + chirality-aware isomorphism',
                               replay_py=py_to(smi, f1) + '\n' + py_to(smi, f2))
    rd0 = Chem.MolFromSmiles(smi)
    if rd0 is not None:
        for bd in rd0.GetBonds():
            st = bd.GetStereo()
            if st in (Chem.BondStereo.STEREOE, Chem.BondStereo.STEREOZ):
                rd1 = Chem.Mol(rd0)
                rd1.GetBondWithIdx(bd.GetIdx()).SetStereo(Chem.BondStereo.STEREOZ if st == Chem.BondStereo.STEREOE else Chem.BondStereo.STEREOE)
                if Chem.MolToSmiles(rd1) == Chem.MolToSmiles(rd0):
                    continue
                from chython.utils.rdkit import from_rdkit_molecule
                try:
                    ma, mb = normalised(from_rdkit_molecule(rd0)), normalised(from_rdkit_molecule(rd1))
                except Exception:
                    break
                ck.case(('ez-partner', smi, bd.GetIdx()))
                if ma is not None and mb is not None and str(ma) == str(mb):
                    rep.counterexample(f'from-ez-merged:{smi}', 'the E and the Z isomer (different RDKit molecules) become the same chython molecule', {'smiles': smi, 'bond': bd.GetIdx()},
                                       str(ma), 'two different molecules', 'RDKit canonical isomeric SMILES of the two inputs differ',
                                       replay_py=py_from(smi) + f"\nr2 = Chem.MolFromSmiles({Chem.MolToSmiles(rd1)!r}); print(str(from_rdkit_molecule(r2)))")
                break
    for variant, rdv in rd_variants(smi, rng):
        m2 = oracle_from(rep, smi, variant, rdv, aro)
        ck.case(('from', smi, variant))
        if m2 is not None:
            oracle_roundtrip_rdkit(rep, smi, variant, rdv, m2)


def search(ck, n_corpus, extra=()):
    from rdkit import RDLogger
    RDLogger.DisableLog('rdApp.*')
    rng = random.Random(f'{ck.seed}:c20:search')
    rep = Limited(ck)
    rep.ck = ck
    full = ck.tier == 'thorough'
    pool = [('directed', s) for s in extra] + [('stereo', s) for s in STEREO_SMILES] + [('metal', s) for s in METAL_SMILES] + \
           [('atoms', s) for s in ATOM_SMILES] + [('bare', s) for s in BARE_SMILES] + [('dative', s) for s in dative_smiles()] + \
           [('isotope+charge', s) for s in ISO_CHARGE_SMILES] + [('ring-alkene', s) for s in RING_ALKENE_SMILES] + \
           [('ring-linker alkene', s) for s in (ring_linker_smiles() if full else corpus.sample(ring_linker_smiles(), 20, ck.seed, 'c20srl'))] + \
           [('E/Z-dependent centre', s) for s in EZ_DEPENDENT_SMILES] + \
           [('perm', s) for s in (perm_smiles() if full else corpus.sample(perm_smiles(), 40, ck.seed, 'c20sp'))] + \
           [('corpus', s) for s in corpus.sample(corpus.lipo(), n_corpus, ck.seed, 'c20search')] + \
           [('corpus-stereo', s) for s in corpus.sample(corpus.stereo_smiles(), n_corpus, ck.seed, 'c20searchs')]
    seen = set()
    for kind, smi in pool:
        if smi in seen:
            continue
        seen.add(smi)
        try:
            search_one(rep, kind, smi, rng)
        except Exception as e:           # a crash of the oracle itself must not pass silently
            import traceback
            ck.unchecked(f'search oracle crashed on {smi}', traceback.format_exc()[-1500:], [smi])
            ck.oblige('search oracles ran on every input', False, 'machinery', f'{smi}: {type(e).__name__}: {e}')
            break
    # every numbering of the small molecules: RDKit -> chython -> RDKit must give RDKit's canonical SMILES of the original, and the
    # chython molecules of one input must all be equal
    from chython.utils.rdkit import from_rdkit_molecule, to_rdkit_molecule
    canon, chy = {}, {}
    for smi, perm, rd in small_space(ck, 'search'):
        ck.case(('small-space', smi, perm))
        ck.count('search-input:small space (every numbering)')
        want = canon.setdefault(smi, can_smiles(rd))
        try:
            m2 = from_rdkit_molecule(rd)
            got = can_smiles(to_rdkit_molecule(m2))
            cs_ = str(normalised(m2) or m2)
        except Exception as e:
            got, cs_ = 'raises ' + type(e).__name__, None
        rp = (f"from rdkit import Chem; from chython.utils.rdkit import from_rdkit_molecule, to_rdkit_molecule\np = Chem.SmilesParserParams(); p.removeHs = False\n"
              f"rd = Chem.RenumberAtoms(Chem.MolFromSmiles({smi!r}, p), {list(perm)!r}); m = from_rdkit_molecule(rd)\n"
              f"print(str(m), Chem.MolToSmiles(to_rdkit_molecule(m, keep_mapping=False)))")
        if got != want:
            rep.counterexample(f'small-space-roundtrip:{smi}:{"".join(map(str, perm))}', 'RDKit -> chython -> RDKit changes the molecule for one numbering of a one-centre / one-double-bond molecule',
                               {'smiles': smi, 'numbering': list(perm)}, got, want, 'RDKit canonical isomeric SMILES (RenumberAtoms keeps the configuration)', replay_py=rp)
        elif cs_ is not None and chy.setdefault(smi, cs_) != cs_:
            rep.counterexample(f'small-space-chython:{smi}:{"".join(map(str, perm))}', 'two numberings of one RDKit molecule give different chython molecules (canonical string)',
                               {'smiles': smi, 'numbering': list(perm)}, cs_, chy[smi], 'chython canonical string', replay_py=rp)
    # hand-edited RDKit molecules (tags and labels where RDKit itself would not put them, unusual bond types): the result must
    # still be a consistent chython molecule
    for tag, rdm in rd_malformed():
        if rdm is None:
            continue
        ck.case(('from-malformed', tag))
        try:
            oracle_from(rep, tag, 'hand-edited', rdm, None)
        except Exception as e:
            import traceback
            ck.unchecked(f'search oracle crashed on {tag}', traceback.format_exc()[-1500:], [tag])
            break
    # one molecule written donor-first and metal-first: the bridge must give one RDKit molecule
    from chython.utils.rdkit import to_rdkit_molecule
    ds = dative_smiles()
    for s1, s2 in zip(ds[::2], ds[1::2]):
        res = []
        for s in (s1, s2):
            f = normal_forms(s)
            if f is None:
                res.append(None)
                continue
            try:
                res.append(can_smiles(to_rdkit_molecule(f[1])))
            except Exception as e:
                res.append('raises ' + type(e).__name__)
        ck.case(('dative-pair', s1, s2), nontrivial=None not in res)
        if None not in res and res[0] != res[1]:
            rep.counterexample('to-dative-direction-follows-atom-order', 'the direction of a coordinate bond written by to_rdkit_molecule depends on the order of the atoms',
                               {'smiles': [s1, s2]}, res[0], res[1], 'one molecule in two atom orders', replay_py=py_to(s1, 'aromatic') + '\n' + py_to(s2, 'aromatic'))
    ck.extra['search_molecules'] = len(seen)
    ck.extra['search_counterexample_categories'] = dict(rep.seen)


# ---------------------------------------------------------------------------------------------------------------
# the body translator really reads the statements it claims to translate: each of these one-token edits of a scratch copy of
# utils/rdkit.py must change the generated text or stop the translator (the edits are of the decision-carrying tokens of every
# translated body; /repo itself is not touched)
BODY_EDITS = [
    ('if a.charge:', 'if a.isotope:'), ('if a.isotope:', 'if a.charge:'), ('ra.SetNumRadicalElectrons(1)', 'ra.SetNumRadicalElectrons(2)'),
    ('ra.SetNumExplicitHs(a.implicit_hydrogens)', 'ra.SetNumExplicitHs(a.charge)'), ('if keep_mapping:', 'if a.is_radical:'),
    ('not in _inorganic', 'in _inorganic'), ('data.atom(n).atomic_symbol', 'data.atom(m).atomic_symbol'), ('n, m = m, n  #', 'n, m = n, m  #'),
    ('mol.AddBond(mapping[n], mapping[m]', 'mol.AddBond(mapping[m], mapping[n]'),
    ('_chiral_ccw if s else _chiral_cw', '_chiral_cw if s else _chiral_ccw'), ('if n not in data.stereogenic_tetrahedrons:', 'if n in data.stereogenic_tetrahedrons:'),
    ('if a.stereo is None:', 'if a.stereo is not None:'), ('_cis if b.stereo else _trans', '_trans if b.stereo else _cis'),
    ('rb.SetStereoAtoms(mapping[n1], mapping[m1])', 'rb.SetStereoAtoms(mapping[m1], mapping[n1])'), ('or m not in nm', 'or m in nm'),
    ('data._stereo_cis_trans_centers.get(n)', 'data._stereo_cis_trans_centers.get(m)'),
    ('ra.GetIsotope() or None', 'ra.GetIsotope()'), ('charge=ra.GetFormalCharge()', 'charge=ra.GetAtomMapNum()'),
    ('bool(ra.GetNumRadicalElectrons())', 'bool(ra.GetFormalCharge())'), ('ra.GetNumExplicitHs() + ra.GetNumImplicitHs()', 'ra.GetNumExplicitHs()'),
    ('s == _chiral_ccw', 's == _chiral_cw'), ('if s in (_chiral_cw, _chiral_ccw):', 'if s in (_chiral_cw,):'),
    ('mapping[b.GetBeginAtomIdx()], mapping[b.GetEndAtomIdx()]', 'mapping[b.GetEndAtomIdx()], mapping[b.GetBeginAtomIdx()]'),
    ('_rdkit_bond_map[b.GetBondType()]', '_rdkit_bond_map[b.GetStereo()]'), ('s == _cis', 's == _trans'), ('mapping[nn], mapping[nm]', 'mapping[nm], mapping[nn]'),
    ('mol._translate_cis_trans_sign(n, m, nn, nm, s)', 'mol._translate_cis_trans_sign(m, n, nn, nm, s)'),
    ('[mapping[x] for x in env], s)', '[mapping[x] for x in env], not s)'), ('except KeyError:\n            pass\n    for n, m, nn', 'except ValueError:\n            pass\n    for n, m, nn'),
    ('if tetrahedron_stereo or cis_trans_stereo:', 'if tetrahedron_stereo and cis_trans_stereo:'), ('if tetrahedron_stereo or cis_trans_stereo:', 'if cis_trans_stereo:'),
    ('mol.fix_structure(recalculate_hydrogens=False)', 'mol.fix_structure()'),
    # the statements that are not translated are pinned as text (skeleton of the two functions)
    ('force=True', 'force=False'), ('    SanitizeMol(mol)\n', ''), ('cs[0].GetPositions()', 'cs[-1].GetPositions()'), ('if c.Is3D():', 'if not c.Is3D():'),
    ('enumerate(c.GetPositions(), 1)', 'enumerate(c.GetPositions())'), ('inverted = {v: k for k, v in mapping.items()}', 'inverted = {k: v for k, v in mapping.items()}'),
    ('from ..periodictable import Element', 'from ..periodictable import Element as E0\nElement = E0')]


# the same for tools/gen_rdkit_sign.py (stereo.py); (old, new, occurrence index or None = the only one)
SIGN_EDITS = [
    ('if len(order) == 3:', 'if len(order) == 4:', None), ('if len(env) == 4:  # hydrogen', 'if len(env) == 3:  # hydrogen', None),
    ('elif len(env) != 3:', 'elif len(env) != 4:', None), ('elif len(env) not in (3, 4):', 'elif len(env) not in (3,):', None),
    ('order = (*order, next(x for x in env if self._atoms[x] == H))', 'order = (next(x for x in env if self._atoms[x] == H), *order)', None),
    ('except StopIteration:\n                    raise KeyError', 'except StopIteration:\n                    raise ValueError', None),
    ('for x in env[:3])', 'for x in env[1:])', None), ('if _tetrahedron_translate[translate]:\n            return not s\n        return s',
                                                        'if _tetrahedron_translate[translate]:\n            return s\n        return not s', None),
    ('n0, n1, n2, n3 = self.stereogenic_cis_trans[(m, n)]\n            n, m = m, n', 'n0, n1, n2, n3 = self.stereogenic_cis_trans[(m, n)]\n            n, m = n, m', None),
    ('nn, nm = nm, nn\n\n        if s is None:\n            i, j', 'nn, nm = nn, nm\n\n        if s is None:\n            i, j', None),
    ('if nn == n0:  # same start', 'if nn == n1:  # same start', None), ('elif nn == n1:\n            t0 = 1', 'elif nn == n1:\n            t0 = 0', None),
    ('elif nn == n2 or n2 is None and self._atoms[nn] == H:\n            t0 = 2', 'elif nn == n2 or n3 is None and self._atoms[nn] == H:\n            t0 = 2', None),
    ('elif nn == n3 or n3 is None and self._atoms[nn] == H:\n            t0 = 3', 'elif nn == n3 and n3 is None and self._atoms[nn] == H:\n            t0 = 3', None),
    ('            if nm == n1:\n                t1 = 1', '            if nm == n1:\n                t1 = 3', 0),
    ('            if nm == n1:\n                t1 = 1', '            if nm == n3:\n                t1 = 1', 1),
    ('            if nm == n0:\n                t1 = 0', '            if nm == n0:\n                t1 = 2', 0),
    ('            if nm == n0:\n                t1 = 0', '            if nm == n2:\n                t1 = 0', 1),
    ('elif nm == n3 or n3 is None and self._atoms[nm] == H:\n                t1 = 3', 'elif nm == n3 or n3 is None and self._atoms[nn] == H:\n                t1 = 3', 0),
    ('elif nm == n2 or n2 is None and self._atoms[nm] == H:\n                t1 = 2', 'elif nm == n2:\n                t1 = 2', 1),
    ('if _alkene_translate[(t0, t1)]:\n            return not s\n        return s', 'if _alkene_translate[(t1, t0)]:\n            return not s\n        return s', None),
    ('if _alkene_translate[(t0, t1)]:\n            return not s\n        return s', 'if _alkene_translate[(t0, t1)]:\n            return s\n        return not s', None)]


CONF_EDITS = [('(a.x, a.y, 0)', '(a.y, a.x, 0)', None), ('conf.SetAtomPosition(mapping[n], (a.x', 'conf.SetAtomPosition(n, (a.x', None),
              ('conf.Set3D(False)', 'conf.Set3D(True)', None), ('conf.SetAtomPosition(mapping[n], xyz)', 'conf.SetAtomPosition(n, xyz)', None),
              ('for n, xyz in c.items():', 'for xyz, n in c.items():', None), ('conf.Set3D(False)\n    mol.AddConformer(conf, assignId=True)', 'conf.Set3D(False)', None)]


REG_EDITS = [('if atom == C and not atom.charge and not atom.is_radical:', 'if atom == C and not atom.is_radical:', None),
             ('if atom == C and not atom.charge', 'if atom == H and not atom.charge', None), ('if all(b == 1 for b in env.values()):', 'if any(b == 1 for b in env.values()):', None),
             ('if all(b == 1 for b in env.values()):', 'if all(b == 2 for b in env.values()):', None), ('if sum(int(b) for b in env.values()) > 4:', 'if sum(int(b) for b in env.values()) > 3:', None),
             ('if any(not atoms[x].is_forming_single_bonds for x in bonds[n]):', 'if all(not atoms[x].is_forming_single_bonds for x in bonds[n]):', None),
             ('env = tuple(x for x in bonds[n] if atoms[x] != H)', 'env = tuple(x for x in bonds[n] if atoms[x] != C)', None),
             ('env = tuple(x for x in bonds[n] if atoms[x] != H)', 'env = tuple(x for x in bonds[n])', None),
             ('if len(env) in (3, 4):\n                tetrahedrons[n] = env', 'if len(env) in (4,):\n                tetrahedrons[n] = env', None),
             ('continue  # skip metal-carbon complexes', 'pass', None),
             ('not set(ar[n]).isdisjoint(ar[m])', 'not set(ar[n]).isdisjoint(ar[n])', None), ('not set(ar[n]).isdisjoint(ar[m])', 'set(ar[n]).isdisjoint(ar[m])', None),
             ('if n in ar and m in ar and not set', 'if n in ar and not set', None)]


def _replace_nth(src, old, new, k, region=None):
    if region is not None:                  # the edit applies inside the translated functions only
        start, stop = region
        if start not in src or stop not in src[src.index(start):]:
            return None
        i = src.index(start)
        j = i + src[i:].index(stop)
        mid = _replace_nth(src[i:j], old, new, k)
        return None if mid is None else src[:i] + mid + src[j:]
    parts = src.split(old)
    if k is None:
        return src.replace(old, new) if len(parts) == 2 else None
    if len(parts) <= k + 1:
        return None
    return old.join(parts[:k + 1]) + new + old.join(parts[k + 1:])


def translator_sensitivity(ck):
    import os
    import shutil
    import tempfile
    import gen_rdkit_body
    import gen_rdkit_sign
    import gen_rdkit_conf
    import gen_rdkit_registry
    from coqfmt import TranslatorError
    for gen, rel, edits, region in (
            (gen_rdkit_body, 'chython/utils/rdkit.py', [(a, b_, None) for a, b_ in BODY_EDITS], None),
            (gen_rdkit_conf, 'chython/utils/rdkit.py', CONF_EDITS, None),
            (gen_rdkit_registry, 'chython/algorithms/stereo.py', REG_EDITS, ('def tetrahedrons', 'def rings_linker_cumulenes_terminals')),
            (gen_rdkit_sign, 'chython/algorithms/stereo.py', SIGN_EDITS, ('def _translate_tetrahedron_sign', 'def _translate_allene_sign'))):
        src = open(os.path.join(common.REPO, rel)).read()
        try:
            base = repr(gen.bodies(common.REPO))
        except Exception:
            continue                    # the translator already failed closed (reported by standard_proof_steps)
        blind = []
        tmp = tempfile.mkdtemp(prefix='c20_body_')
        try:
            os.makedirs(os.path.dirname(os.path.join(tmp, rel)))
            for old, new, k in edits:
                text = _replace_nth(src, old, new, k, region)
                if text is None:
                    continue            # the source moved on: the edit no longer applies (the translated text is still tied by the theorems)
                with open(os.path.join(tmp, rel), 'w') as f:
                    f.write(text)
                try:
                    if repr(gen.bodies(tmp)) == base:
                        blind.append(f'{old!r} -> {new!r}')
                except (TranslatorError, SyntaxError):
                    pass
                ck.count(f'translator sensitivity edits of {rel} ({gen.__name__})')
        finally:
            shutil.rmtree(tmp, ignore_errors=True)
        ck.oblige(f'tools/{gen.__name__}.py reads every decision-carrying token of the translated bodies of {rel} (one-token edits of a scratch copy change the '
                  'generated text or stop the translator)', not blind, 'machinery', '; '.join(blind))
        if blind:
            ck.unchecked(f'translator {gen.__name__} blind to an edit', '; '.join(blind))


def run(ck):
    ck.trusted += ['translators tools/gen_rdkit_tables.py (Python ast: two dict displays, one set display, four enum constants of utils/rdkit.py), '
                   'tools/gen_rdkit_consts.py (Python ast: constants and test shapes of stereo.py and the charge setter of element.py), '
                   'tools/gen_rdkit_body.py (Python ast: the four loop bodies of to_rdkit_molecule and the four loop bodies + tail of from_rdkit_molecule, statement by '
                   'statement into the error monad; the reading of the RDKit / chython API names is coq/model/RdkitApi.v), '
                   'tools/gen_rdkit_conf.py (same translation, conformer statements of to_rdkit_molecule; Conformer API reading coq/model/RdkitConfApi.v), '
                   'tools/gen_rdkit_registry.py (Python ast: the loop bodies of MoleculeStereo.tetrahedrons / stereogenic_tetrahedrons with their comprehensions), '
                   'tools/gen_rdkit_sign.py (Python ast: the bodies of _translate_tetrahedron_sign and _translate_cis_trans_sign of stereo.py, continuation style), '
                   'tools/gen_stereo.py, tools/gen_elements.py',
                   'correspondence runner harness/checks/C20.py (taps on SanitizeMol / fix_structure, printers) + harness/coqcases.py',
                   'CachedMethods shim harness/boot.py', 'CPython 3.12.1',
                   'RDKit 2026.3: record semantics of its Atom/Bond/Conformer setters and getters (correspondence); SanitizeMol, AssignStereochemistry, '
                   'canonical SMILES and chirality-aware substructure matching (search only)']
    ck.assumptions += ['RDKit is not modelled: its element symbols, implicit-hydrogen counts, neighbour order of a chiral centre and choice of double-bond '
                       'reference atoms are universally quantified in the theorems and observed in the correspondence',
                       'what SanitizeMol / AssignStereochemistry / fix_structure / fix_stereo do after the transfer is outside the model: search only',
                       'stereogenicity registries (stereogenic_tetrahedrons, stereogenic_cis_trans, _stereo_cis_trans_centers) are inputs of the model, read from the live molecule',
                       'coordinates are modelled as opaque 64-bit patterns copied unchanged']
    ck.extra['rule'] = ('correspondence: hand-made stereo / organometallic / isotope-radical-charge / bare-atom / permuted-substituent molecules, corpus molecules, each in '
                        'Kekule, aromatic and sparsely renumbered form with random coordinates, RDKit molecules as parsed / hydrogens kept / kekulized / with 2D and 3D conformers, '
                        'the bridge\'s own outputs fed back, ~190 malformed RDKit and chython molecules; non-trivial = the transfer succeeded / the centre carries a label. '
                        'search: the same pools plus larger corpus samples through both directions and both round trips; non-trivial = accepted by both toolkits')
    quick = ck.tier == 'quick'
    proved = common.standard_proof_steps(ck, translators=['rdkit_tables', 'rdkit_consts', 'rdkit_body', 'rdkit_sign', 'rdkit_conf', 'rdkit_registry', 'stereo', 'elements'])
    translator_sensitivity(ck)
    good, bad, log, suspects = correspondence(ck, 12 if quick else 150)
    if not good:
        # directed search: the property-level oracles on (and around: all forms, renumberings, RDKit variants of) the disagreeing inputs first
        ck.extra['directed_search_inputs'] = suspects[:50]
    search(ck, 70 if quick else 1200, extra=suspects[:50])
    if not good:
        ck.unchecked('correspondence Rdkit model vs chython/utils/rdkit.py', log[-1500:], [repr(x) for x in bad[:20]])
    ck.extra['proved'] = proved
    ck.extra['tied'] = good
