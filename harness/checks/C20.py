"""C20 RDKit bridge (chython/utils/rdkit.py).

proof:          coq/props/C20.v over the regenerated tables (Gen.RdkitTables from utils/rdkit.py, Gen.StereoTables, Gen.Elements)
correspondence: the real to_rdkit_molecule / from_rdkit_molecule are run with two taps (the RDKit molecule just before
                SanitizeMol; the chython molecule just before fix_structure) and every intermediate result is compared with the
                Coq model: whole-molecule atom/bond transfer (to_mol / from_mol), chiral tags (to_chiral_tag / from_chiral_tag,
                with the neighbour order RDKit really used), double-bond labels (to_bond_stereo_sel / from_bond_stereo),
                conformers, the dictionaries on every BondType member, `_inorganic` on all 118 symbols, malformed inputs.
search:         property-level oracles on the real code with the real RDKit, independent of the model (see search())."""
import collections
import itertools
import random
import struct

import boot  # noqa
import common
import coqcases
import corpus
from coqfmt import zraw, b, lst, opt, tup, s as cstr

replay = common.generic_replay

IMPORTS = 'PeriodicTable Stereo Rdkit'
EXTRA = '''From Gen Require Import Elements RdkitTables.
Open Scope string_scope.
Open Scope Z_scope.
Definition rbond_eqb (p q : Z * Z * string) : bool :=
  let '(a, b, t) := p in let '(c, d, u) := q in (a =? c) && (b =? d) && String.eqb t u.
Definition cbond_eqb (p q : Z * Z * Z) : bool :=
  let '(a, b, t) := p in let '(c, d, u) := q in (a =? c) && (b =? d) && (t =? u).
Definition rmol_eqb (x y : rmol) : bool := list_eqb ratom_eqb (fst x) (fst y) && list_eqb rbond_eqb (snd x) (snd y).
Definition natom_eqb (p q : Z * catom) : bool := (fst p =? fst q) && catom_eqb (snd p) (snd q).
Definition cmol_eqb (x y : cmol) : bool := list_eqb natom_eqb (fst x) (fst y) && list_eqb cbond_eqb (snd x) (snd y).
Definition sym_of (t : list (Z * string)) (z : Z) : string := match zget t z with Some s => s | None => "" end.
Definition isH_of (l : list Z) (x : Z) : bool := zmem x l.
Definition pos_eqb (p q : pos3) : bool :=
  let '(a, b, c) := p in let '(d, e, f) := q in (a =? d) && (b =? e) && (c =? f).
Definition conf_eqb (x y : conformer) : bool := Bool.eqb (fst x) (fst y) && list_eqb pos_eqb (snd x) (snd y).
Definition xy_eqb (p q : Z * Z) : bool := (fst p =? fst q) && (snd p =? snd q).
Definition ref_eqb (p q : Z * Z * string) : bool := rbond_eqb p q.
Definition to_ok keep m exp := pyres_eqb rmol_eqb (to_mol keep m) exp.
Definition from_ok symt impls cs r exp :=
  pyres_eqb cmol_eqb (from_mol (sym_of symt) impls (fst (from_conformers (List.length (fst r)) cs)) r) exp.
Definition tconf_ok xy confs exp := list_eqb conf_eqb (to_conformers xy confs) exp.
Definition fconf_ok n cs xy confs :=
  let r := from_conformers n cs in list_eqb xy_eqb (fst r) xy && list_eqb (list_eqb pos_eqb) (snd r) confs.
Definition ttag_ok hs order env s exp := pyres_eqb (option_eqb String.eqb) (to_chiral_tag (isH_of hs) order env s) exp.
Definition ftag_ok hs order env tag exp := pyres_eqb (option_eqb Bool.eqb) (from_chiral_tag (isH_of hs) order env tag) exp.
Definition tbs_ok center n m env s exp := pyres_eqb (option_eqb ref_eqb) (to_bond_stereo_sel center n m env s) exp.
Definition fbs_ok hs e1 e2 nn nm label exp := pyres_eqb (option_eqb Bool.eqb) (from_bond_stereo (isH_of hs) e1 e2 nn nm label) exp.
Definition rbo_ok t exp := pyres_eqb Z.eqb (rdkit_bond_order t) exp.
Definition bt_ok o exp := pyres_eqb String.eqb (bond_type o) exp.
'''

# bond orders as an independent table (written from RDKit's documentation, not from chython or the Coq text)
ORDER_OF_TYPE = {'SINGLE': 1, 'DOUBLE': 2, 'TRIPLE': 3, 'AROMATIC': 4, 'DATIVE': 8, 'ZERO': 8, 'UNSPECIFIED': 8}


def exn_name(e):
    if isinstance(e, KeyError):
        return 'KeyError'
    if isinstance(e, TypeError):       # Boost.Python.ArgumentError is a TypeError
        return 'TypeError'
    if isinstance(e, ValueError):
        return 'ValueError'
    if isinstance(e, IndexError):
        return 'IndexError'
    if isinstance(e, AttributeError):
        return 'AttributeError'
    return 'OtherError'


def bits(v):
    """IEEE-754 bit pattern of a double as a signed 64-bit integer (0.0 -> 0)"""
    return struct.unpack('<q', struct.pack('<d', float(v)))[0]


# ---------------------------------------------------------------------------------------------------------------
# snapshots of the two kinds of molecule (plain data, read through the public getters)

def rd_snapshot(mol):
    atoms = [(a.GetAtomicNum(), a.GetIsotope(), a.GetFormalCharge(), a.GetNumRadicalElectrons(), a.GetNumExplicitHs(),
              a.GetAtomMapNum()) for a in mol.GetAtoms()]
    bonds = [(bd.GetBeginAtomIdx(), bd.GetEndAtomIdx(), bd.GetBondType().name) for bd in mol.GetBonds()]
    tags = [(a.GetChiralTag().name, [x.GetIdx() for x in a.GetNeighbors()]) for a in mol.GetAtoms()]
    bst = [(bd.GetStereo().name, list(bd.GetStereoAtoms())) for bd in mol.GetBonds()]
    confs = [(bool(c.Is3D()), [(bits(p[0]), bits(p[1]), bits(p[2])) for p in c.GetPositions()]) for c in mol.GetConformers()]
    return {'atoms': atoms, 'bonds': bonds, 'tags': tags, 'bst': bst, 'confs': confs}


def ch_snapshot(mol):
    atoms = [(n, a.atomic_number, a.isotope, a.charge, a.is_radical, a.implicit_hydrogens, getattr(a, '_parsed_mapping', None), bits(a.x), bits(a.y),
              a._stereo) for n, a in mol.atoms()]
    bonds = [(n, m, int(bd), bd._stereo) for n, m, bd in mol.bonds()]
    confs = None
    if hasattr(mol, '_conformers'):
        confs = [{n: (bits(v[0]), bits(v[1]), bits(v[2])) for n, v in c.items()} for c in mol._conformers]
    return {'atoms': atoms, 'bonds': bonds, 'confs': confs}


class TapTo:
    """runs to_rdkit_molecule and keeps a snapshot of the RDKit molecule as the chython code built it (before SanitizeMol)"""

    def run(self, data, **kw):
        import chython.utils.rdkit as br
        self.pre = None
        self.exc = None
        orig = br.SanitizeMol

        def hook(mol, *a, **k):
            self.pre = rd_snapshot(mol)
            return orig(mol, *a, **k)
        br.SanitizeMol = hook
        try:
            return br.to_rdkit_molecule(data, **kw)
        except Exception as e:
            self.exc = e
            return None
        finally:
            br.SanitizeMol = orig


class TapFrom:
    """runs from_rdkit_molecule and keeps a snapshot of the chython molecule before fix_structure / fix_stereo, together
    with the stereo registries the translation used"""

    def run(self, rd):
        import chython.utils.rdkit as br
        from chython.containers.molecule import MoleculeContainer
        self.pre = None
        self.exc = None
        orig = MoleculeContainer.fix_structure
        tap = self

        def hook(mol, *a, **k):
            if tap.pre is None:
                tap.pre = ch_snapshot(mol)
                tap.pre['hs'] = [n for n, at in mol.atoms() if at.atomic_number == 1]
                tap.pre['th'] = dict(mol.stereogenic_tetrahedrons) if tap.want_th else {}
                tap.pre['ct'] = dict(mol.stereogenic_cis_trans) if tap.want_ct else {}
            return orig(mol, *a, **k)
        from rdkit.Chem import BondStereo, ChiralType
        self.want_th = any(a.GetChiralTag() in (ChiralType.CHI_TETRAHEDRAL_CW, ChiralType.CHI_TETRAHEDRAL_CCW) for a in rd.GetAtoms())
        self.want_ct = any(bd.GetStereo() in (BondStereo.STEREOE, BondStereo.STEREOZ) for bd in rd.GetBonds())
        MoleculeContainer.fix_structure = hook
        try:
            return br.from_rdkit_molecule(rd)
        except Exception as e:
            self.exc = e
            return None
        finally:
            MoleculeContainer.fix_structure = orig


# ---------------------------------------------------------------------------------------------------------------
# printers

def catom_term(num, iso, chg, rad, hyd, mp, x, y):
    return f'(mkC {zraw(num)} {opt(iso, zraw)} {zraw(chg)} {b(rad)} {opt(hyd, zraw)} {opt(mp, zraw)} {zraw(x)} {zraw(y)})'


def ratom_term(t):
    return '(mkR ' + ' '.join(zraw(v) for v in t) + ')'


def rbond_term(t):
    return f'({zraw(t[0])}, {zraw(t[1])}, {cstr(t[2])})'


def cbond_term(t):
    return f'({zraw(t[0])}, {zraw(t[1])}, {zraw(t[2])})'


def pos_term(p):
    return f'({zraw(p[0])}, {zraw(p[1])}, {zraw(p[2])})'


def conf_term(c):
    return f'({b(c[0])}, {lst(c[1], pos_term)})'


def env_term(e):
    return f'({zraw(e[0])}, {zraw(e[1])}, {opt(e[2], zraw)}, {opt(e[3], zraw)})'


def pair_term(p):
    return f'({zraw(p[0])}, {zraw(p[1])})'


# ---------------------------------------------------------------------------------------------------------------
# input pools

STEREO_SMILES = [
    'C[C@H](N)C(=O)O', 'C[C@@H](N)C(=O)O', 'N[C@@]([H])(C)C(=O)O', '[C@](F)(Cl)(Br)I', 'F[C@](Cl)(Br)I', '[C@H](F)(Cl)Br',
    'F[C@H](Cl)Br', 'F[C@@]([H])(Cl)Br', '[H][C@](F)(Cl)Br', 'F/C=C/Cl', 'F/C=C\\Cl', 'F/C(Cl)=C(/Br)I', 'C(/F)(\\Cl)=C(/Br)I',
    'F/C([H])=C([H])/Cl', 'C/C=C/C=C\\C', 'C/C=C/[C@H](O)CC', 'CC=[C@]=CC', 'C/C=C=C=C/C', 'F/C=C=C=C/Cl',
    'C[C@@H]1CC[C@H](C)CC1', 'C[C@H]1CC[C@H](C)CC1', 'C[C@]12CC[C@H](C1)C2(C)C', 'OC[C@H]1O[C@@H](O)[C@H](O)[C@@H](O)[C@@H]1O',
    'N1[C@H](C)CC1', '[C@@]1(F)(Cl)CCO1', 'O[C@]12CCC[C@@]1(N)CC2', 'C1CC[C@]12CCCO2', '[C@]12(F)CCC[C@@](Cl)(CC1)C2',
    'C[S@](=O)CC', 'C[N@+](CC)(CCC)CCCC', 'C[P@](CC)c1ccccc1', 'C/C=N/O', 'C/N=N/C', 'C[C@H](F)/C=C/[C@@H](C)Cl',
    'C1CCCCCC/C=C/1', 'C1CC/C=C\\CC1', 'O=C(O)[C@H](O)[C@@H](O)C(=O)O', 'O=C(O)[C@H](O)[C@H](O)C(=O)O', 'C[C@H](O)[C@@H](C)O',
    'CC(C)[C@H](C)[C@@H](C)C(C)C', 'C[C@@](N)(CC)C(=O)O', 'F[C@](Cl)(Br)[C@@](F)(Cl)I', 'C[C@H]1C[C@@H]1C', 'C[C@H]1CO1',
    '[2H][C@H](C)N', 'C[C@H]([2H])O', '[13CH3][C@H](N)C(=O)O', 'C[C@H](N)C(=O)[O-]', 'C[C@H]([NH3+])C(=O)[O-]',
    'C[C@@H](c1ccccc1)N', 'c1ccccc1/C=C/c1ccccc1', 'C(=C/c1ccccn1)\\c1ccccc1', 'CC(/C=C/C1=C(C)CCCC1(C)C)=C\\C=C\\C(C)=C\\C(=O)O']
METAL_SMILES = [
    '[Cu]~N', '[C-]#[O+]~[Fe]', '[Fe]~[C-]#[O+]', 'N~[Pt](~N)(Cl)Cl', '[Pt](Cl)(Cl)(N)N', 'C[Mg]Br', '[Li]C', 'C[Hg]C',
    'Cl[Sn]Cl', 'C[Zn]C', '[Na+].[Cl-]', '[K+].[O-]C(C)=O', '[Fe+2].[O-]C=O.[O-]C=O', 'O~[Cu]~O', 'c1ccccc1~[Cr]', 'C1=CC=CC1~[Fe]',
    'N~[Co+3](~N)(~N)(~N)(~N)~N', '[Fe]~[Fe]', 'N~O', 'Cl[Pd]Cl', 'C[Al](C)C', 'CC[Pb](CC)(CC)CC', 'O=[Os](=O)(=O)=O',
    'F[B-](F)(F)F', 'C[Si](C)(C)C', 'C[Se]C', 'O=[Mn](=O)(=O)[O-]', '[Cu+2].[O-]S(=O)(=O)[O-]', 'Cl[Ti](Cl)(Cl)Cl', 'C[C@H](N~[Cu])C(=O)O']
ATOM_SMILES = [
    '[13CH4]', '[2H]O[2H]', '[3H]C', '[14C](=O)=O', 'C[15NH2]', '[18OH2]', 'Cl[37Cl]', '[CH3]', 'C[CH2]', '[OH]', 'C[O]', 'C[NH]',
    'C[S]', '[CH3-]', '[CH3+]', 'C[N+](C)(C)C', 'C[O-]', '[NH4+]', 'C[N+]#[C-]', '[O-][N+](=O)C', 'C[S+](C)C', 'C[P+](C)(C)C',
    '[H][H]', '[H+]', '[H-]', '[He]', '[Fe]', '[Cu]', '[Zn]', '[Xe]', 'F[Xe]F', 'OS(=O)(=O)O', 'O=P(O)(O)O', 'FS(F)(F)(F)(F)F',
    'ClI(Cl)Cl', 'C#N', 'C#C', '[C-]#[O+]', 'N#N', 'O=O', 'C', 'O', 'N', 'CC(C)(C)C', '[CH2:7]=[CH2:3]', '[CH3:2][OH:1]',
    'c1ccccc1', 'c1ccncc1', 'c1cc[nH]c1', 'c1ccoc1', 'c1ccsc1', 'c1ccc2ccccc2c1', 'Cn1cnc2ccccc12', 'c1ccc2[nH]ccc2c1', 'O=c1cc[nH]cc1',
    'c1ccccc1-c1ccccc1', 'C1=CC=CC=C1', 'C1=CC=CN=C1', 'C1=COC=C1', 'O=C1C=CC(=O)C=C1', 'c1cnc[nH]1', 'c1ccc[n+]([O-])c1', '[O-][n+]1ccccc1']
BARE_SMILES = ['[Na]', '[K]', '[Li]', '[Mg]', '[Ca]', '[Al]', '[B]', '[Si]', '[P]', '[S]', '[Se]', '[Ge]', '[As]', '[Sn]', '[Pb]',
               '[Na].[Cl]', '[S].C', '[Be]', '[Ga]', '[In]', '[Sb]', '[Bi]', '[Te]', '[Rb]', '[Cs]', '[Sr]', '[Ba]']


def perm_smiles():
    """one stereocentre / one double bond spelled in every substituent order, with and without ring closures"""
    out = []
    subs = ['F', 'Cl', 'Br', 'I']
    for p in itertools.permutations(subs):
        for mark in ('@', '@@'):
            out.append(f'{p[0]}[C{mark}]({p[1]})({p[2]}){p[3]}')
    for p in itertools.permutations(['F', 'Cl', 'Br']):
        out.append(f'{p[0]}[C@H]({p[1]}){p[2]}')
        out.append(f'{p[0]}[C@@]([H])({p[1]}){p[2]}')
        out.append(f'[H][C@]({p[0]})({p[1]}){p[2]}')
        out.append(f'{p[0]}[C@]({p[1]})({p[2]})[H]')
    for a, c in itertools.product('/\\', repeat=2):
        out.append(f'F{a}C(Cl)=C({c}Br)I')
        out.append(f'F{a}C=C{c}Cl')
        out.append(f'C(=C{c}Cl){a}F')
        out.append(f'Cl{a}C(F)=C(I){c}Br')
    for k in (3, 4, 5, 6):
        out.append(f'C[C@H]1{"C" * (k - 2)}[C@@H]1N')
        out.append(f'C[C@]1(O){"C" * (k - 2)}[C@H]1N')
        out.append(f'O[C@]12{"C" * (k - 2)}[C@@]1(N)CC2')
    return out


def normal_forms(smi):
    """the chython molecule of a SMILES string in Kekule and in aromatic (Thiele) form, or None when chython does not
    accept it (parse error, no Kekule structure, an atom without a hydrogen count)"""
    from chython import smiles
    try:
        m = smiles(smi)
        if m is None:
            return None
        k = m.copy()
        k.kekule()
        a = k.copy()
        a.thiele()
    except Exception:
        return None
    if any(at.implicit_hydrogens is None for _, at in k.atoms()) or any(at.implicit_hydrogens is None for _, at in a.atoms()):
        return None
    return k, a


def sparse_renumber(mol, rng):
    """a renumbered copy with non-contiguous atom numbers in a shuffled order"""
    nums = list(mol._atoms)
    new = rng.sample(range(1, 4 * len(nums) + 3), len(nums))
    tmp = {n: 100000 + i for i, n in enumerate(nums)}
    c = mol.copy()
    c.remap(tmp)
    c.remap({100000 + i: v for i, v in enumerate(new)})
    return c


def set_coords(mol, rng):
    for _, a in mol.atoms():
        a.xy = (rng.choice([0.0, -0.0, 1.5, -2.25, 1e-3, 12345.678, rng.uniform(-10, 10)]), rng.uniform(-10, 10))


# ---------------------------------------------------------------------------------------------------------------
# correspondence

class Cases:
    def __init__(self, ck):
        self.ck = ck
        self.rng = random.Random(f'{ck.seed}:c20:cases')
        self.big, self.bigmeta = [], []        # whole-molecule terms (long)
        self.small, self.smallmeta = [], []    # helper applications (short)

    def add_big(self, term, meta):
        self.big.append(term)
        self.bigmeta.append(meta)

    def add(self, term, meta):
        self.small.append(term)
        self.smallmeta.append(meta)


def corr_to(cs, tag, m, keep=True):
    """one run of the real to_rdkit_molecule on m against the model"""
    ck = cs.ck
    snap = ch_snapshot(m)
    nums = [t[0] for t in snap['atoms']]
    atoms = lst([tup(zraw(t[0]), catom_term(*t[1:9])) for t in snap['atoms']])
    bonds = lst([cbond_term(t) for t in snap['bonds']])
    labelled = any(t[9] is not None for t in snap['atoms']) or any(t[3] is not None for t in snap['bonds'])
    th = dict(m.stereogenic_tetrahedrons) if labelled else {}
    centers = dict(m._stereo_cis_trans_centers) if labelled else {}
    ctreg = dict(m.stereogenic_cis_trans) if labelled else {}
    hs = [t[0] for t in snap['atoms'] if t[1] == 1]
    tap = TapTo()
    rd = tap.run(m, keep_mapping=keep)
    meta = (tag, 'to', keep)
    if tap.pre is None:
        x = exn_name(tap.exc)
        cs.add_big(f'to_ok {b(keep)} ({atoms}, {bonds}) (Err {x})', meta)
        ck.case(('to', tag, keep), nontrivial=False)
        ck.count('to:Err ' + x)
        return rd, tap
    pre = tap.pre
    ck.count('to:Ok' + (' (RDKit rejected it afterwards: ' + type(tap.exc).__name__ + ')' if tap.exc is not None else ''))
    ck.case(('to', tag, keep), nontrivial=True)
    cs.add_big(f'to_ok {b(keep)} ({atoms}, {bonds}) (Ok ({lst(pre["atoms"], ratom_term)}, {lst(pre["bonds"], rbond_term)}))', meta)
    # chiral tags, with the neighbour order RDKit had when the tag was written
    spare = 2
    for i, t in enumerate(snap['atoms']):
        name, nb = pre['tags'][i]
        if t[9] is None and name == 'CHI_UNSPECIFIED':
            if spare == 0:
                continue
            spare -= 1
        exp = 'None' if name == 'CHI_UNSPECIFIED' else f'(Some {cstr(name)})'
        env = [nums[j] for j in nb]
        cs.add(f'ttag_ok {lst(hs, zraw)} {opt(th.get(t[0]), lambda o: lst(o, zraw))} {lst(env, zraw)} {opt(t[9], b)} (Ok {exp})',
               (tag, 'to-tag', t[0], env, t[9], name))
        ck.count('to-tag:' + ('none' if name == 'CHI_UNSPECIFIED' else 'written') + (':labelled' if t[9] is not None else ''))
        ck.case(('to-tag', tag, t[0]), nontrivial=t[9] is not None)
    # double bond labels
    spare = 2
    for k, (n, mm, o, st) in enumerate(snap['bonds']):
        name, sa = pre['bst'][k]
        if st is None and name == 'STEREONONE':
            if spare == 0:
                continue
            spare -= 1
        exp = 'None' if name == 'STEREONONE' else f'(Some ({zraw(nums[sa[0]])}, {zraw(nums[sa[1]])}, {cstr(name)}))' if len(sa) == 2 else f'(Some (0, 0, {cstr(name)}))'
        c = centers.get(n)
        env = ctreg.get(c) if c is not None else None
        cs.add(f'tbs_ok {opt(c, pair_term)} {zraw(n)} {zraw(mm)} {opt(env, env_term)} {opt(st, b)} (Ok {exp})',
               (tag, 'to-bond-stereo', n, mm, st, name, sa))
        ck.count('to-bond-stereo:' + ('none' if name == 'STEREONONE' else 'written') + (':labelled' if st is not None else ''))
        ck.case(('to-bs', tag, n, mm), nontrivial=st is not None)
    # conformers
    idx = {n: i for i, n in enumerate(nums)}
    confs = []
    for c in snap['confs'] or []:
        size = max(idx[n] for n in c) + 1 if c else 0
        ps = [(0, 0, 0)] * size
        for n, p in c.items():
            ps[idx[n]] = p
        confs.append(ps)
    if confs or any(t[7] or t[8] for t in snap['atoms']) or len(pre['confs']) != 1 or cs.rng.random() < 0.1:
        cs.add_big(f'tconf_ok {lst([pair_term(t[7:9]) for t in snap["atoms"]])} {lst(confs, lambda c: lst(c, pos_term))} {lst(pre["confs"], conf_term)}',
                   (tag, 'to-conformers', len(confs)))
    ck.count(f'to-conformers:{1 + len(confs)}')
    return rd, tap


def corr_from(cs, tag, rd):
    """one run of the real from_rdkit_molecule on rd against the model"""
    ck = cs.ck
    try:
        rsnap = rd_snapshot(rd)
        impls = [a.GetNumImplicitHs() for a in rd.GetAtoms()]
        symt = sorted({(a.GetAtomicNum(), a.GetSymbol()) for a in rd.GetAtoms()})
    except Exception as e:            # RDKit refuses to answer (no property cache): not an input of the bridge
        ck.count('from:skipped ' + type(e).__name__)
        return None, None
    tap = TapFrom()
    m = tap.run(rd)
    head = (f'from_ok {lst(symt, lambda t: tup(zraw(t[0]), cstr(t[1])))} {lst(impls, zraw)} {lst(rsnap["confs"], conf_term)} '
            f'({lst(rsnap["atoms"], ratom_term)}, {lst(rsnap["bonds"], rbond_term)})')
    meta = (tag, 'from', rsnap['atoms'][:6], rsnap['bonds'][:6])
    if tap.pre is None:
        x = exn_name(tap.exc)
        cs.add_big(f'{head} (Err {x})', meta)
        ck.case(('from', tag), nontrivial=False)
        ck.count('from:Err ' + x)
        return m, tap
    pre = tap.pre
    ck.count('from:Ok' + (' (then ' + type(tap.exc).__name__ + ')' if tap.exc is not None else ''))
    ck.case(('from', tag), nontrivial=True)
    atoms = lst([tup(zraw(t[0]), catom_term(*t[1:9])) for t in pre['atoms']])
    by_pair = {frozenset((n, mm)): (o, st) for n, mm, o, st in pre['bonds']}
    same_count = len(by_pair) == len(rsnap['bonds']) == len(pre['bonds'])
    bonds = lst([cbond_term((bi + 1, ei + 1, by_pair.get(frozenset((bi + 1, ei + 1)), (-1, None))[0])) for bi, ei, _ in rsnap['bonds']])
    cs.add_big(f'{head} (Ok ({atoms}, {bonds}))' if same_count else 'false', meta)
    hs = pre['hs']
    spare = 2
    stereo_of = {t[0]: t[9] for t in pre['atoms']}
    for i, (name, nb) in enumerate(rsnap['tags']):
        n = i + 1
        if name == 'CHI_UNSPECIFIED' and stereo_of[n] is None:
            if spare == 0:
                continue
            spare -= 1
        env = [j + 1 for j in nb]
        cs.add(f'ftag_ok {lst(hs, zraw)} {opt(pre["th"].get(n), lambda o: lst(o, zraw))} {lst(env, zraw)} {cstr(name)} (Ok {opt(stereo_of[n], b)})',
               (tag, 'from-tag', n, env, name, stereo_of[n]))
        ck.count('from-tag:' + name.replace('CHI_', '').lower() + (':label' if stereo_of[n] is not None else ':no label'))
        ck.case(('from-tag', tag, n), nontrivial=stereo_of[n] is not None)
    spare = 2
    for k, (name, sa) in enumerate(rsnap['bst']):
        bi, ei, _ = rsnap['bonds'][k]
        n, mm = bi + 1, ei + 1
        st = by_pair.get(frozenset((n, mm)), (None, None))[1]
        if name == 'STEREONONE' and st is None:
            if spare == 0:
                continue
            spare -= 1
        nn, nm = (sa[0] + 1, sa[1] + 1) if len(sa) == 2 else (0, 0)
        cs.add(f'fbs_ok {lst(hs, zraw)} {opt(pre["ct"].get((n, mm)), env_term)} {opt(pre["ct"].get((mm, n)), env_term)} {zraw(nn)} {zraw(nm)} '
               f'{cstr(name)} (Ok {opt(st, b)})', (tag, 'from-bond-stereo', n, mm, nn, nm, name, st))
        ck.count('from-bond-stereo:' + name.lower() + (':label' if st is not None else ':no label'))
        ck.case(('from-bs', tag, n, mm), nontrivial=st is not None)
    confs = [[c[n] for n in sorted(c)] for c in (pre['confs'] or [])]
    if rsnap['confs'] or confs or any(t[7] or t[8] for t in pre['atoms']) or cs.rng.random() < 0.1:
        cs.add_big(f'fconf_ok {len(rsnap["atoms"])}%nat {lst(rsnap["confs"], conf_term)} {lst([pair_term(t[7:9]) for t in pre["atoms"]])} '
                   f'{lst(confs, lambda c: lst(c, pos_term))}', (tag, 'from-conformers', len(rsnap['confs'])))
    ck.count(f'from-conformers:{len(rsnap["confs"])}')
    return m, tap


def corr_tables(cs):
    """the dictionaries, the set and the enum constants as the running module holds them, on their whole domains"""
    import chython.utils.rdkit as br
    from chython.periodictable import Element
    from rdkit import Chem
    ck = cs.ck
    for name in sorted(Chem.BondType.names):
        try:
            got = 'Ok ' + zraw(br._rdkit_bond_map[Chem.BondType.names[name]])
        except KeyError:
            got = 'Err KeyError'
        cs.add(f'rbo_ok {cstr(name)} ({got})', ('table', '_rdkit_bond_map', name, got))
        ck.case(('rbo', name), nontrivial=got.startswith('Ok'))
    for o in range(-2, 13):
        try:
            got = 'Ok ' + cstr(br._bond_map[o].name)
        except KeyError:
            got = 'Err KeyError'
        cs.add(f'bt_ok {zraw(o)} ({got})', ('table', '_bond_map', o, got))
        ck.case(('bt', o), nontrivial=got.startswith('Ok'))
    syms = [c.__name__ for c in Element.__subclasses__()] + ['', '*', 'X', 'D', 'c', 'CL']
    for sym in syms:
        cs.add(f'Bool.eqb (smem {cstr(sym)} inorganic) {b(sym in br._inorganic)}', ('table', '_inorganic', sym))
        ck.case(('inorg', sym), nontrivial=sym in br._inorganic)
    for coq, val in (('chiral_cw', br._chiral_cw), ('chiral_ccw', br._chiral_ccw), ('bs_cis', br._cis), ('bs_trans', br._trans)):
        cs.add(f'String.eqb {coq} {cstr(val.name)}', ('table', coq, val.name))
    ck.count('tables', len(Chem.BondType.names) + 15 + len(syms) + 4)
    # RDKit's symbols: the hypothesis `symbol_faithful` of the attribute theorems, on the real RDKit and on the model's table
    bad = []
    for z in range(1, 119):
        sym = Chem.Atom(z).GetSymbol()
        try:
            ok = Element.from_symbol(sym)().atomic_number == z
        except Exception:
            ok = False
        if not ok:
            bad.append((z, sym))
        cs.add(f'match from_symbol {cstr(sym)} with Some e => e_num e =? {z} | None => false end', ('symbol', z, sym))
    ck.oblige('hypothesis of the attribute theorems holds for the installed RDKit: Element.from_symbol(Atom(z).GetSymbol()) has atomic number z, z = 1..118',
              not bad, 'hypothesis', str(bad))
    if bad:
        ck.unchecked('hypothesis symbol_faithful (RDKit symbols vs chython symbols)', str(bad))


def rd_variants(smi, rng):
    """RDKit molecules for the from-side: as parsed (hydrogens kept as atoms or merged), kekulized, with 2D coordinates, with
    2D + 3D conformers"""
    from rdkit import Chem
    from rdkit.Chem import AllChem
    from rdkit.Geometry import Point3D
    out = []
    rd = Chem.MolFromSmiles(smi)
    if rd is None:
        return out
    out.append(('parsed', rd))
    p = Chem.SmilesParserParams()
    p.removeHs = False
    rh = Chem.MolFromSmiles(smi, p)
    if rh is not None and rh.GetNumAtoms() != rd.GetNumAtoms():
        out.append(('explicit-H', rh))
    k = Chem.Mol(rd)
    try:
        Chem.Kekulize(k, clearAromaticFlags=True)
        if any(bd.GetIsAromatic() for bd in rd.GetBonds()):
            out.append(('kekulized', k))
    except Exception:
        pass
    c2 = Chem.Mol(rd)
    AllChem.Compute2DCoords(c2)
    out.append(('2D', c2))
    if rng.random() < 0.3:
        c3 = Chem.Mol(c2)
        for is3d in (True, False, True)[:rng.randint(1, 3)]:
            conf = Chem.Conformer(c3.GetNumAtoms())
            for i in range(c3.GetNumAtoms()):
                conf.SetAtomPosition(i, Point3D(rng.uniform(-5, 5), rng.uniform(-5, 5), rng.uniform(-5, 5) if is3d else 0.0))
            conf.Set3D(is3d)
            c3.AddConformer(conf, assignId=True)
        out.append(('2D+more conformers', c3))
        only3 = Chem.Mol(rd)
        conf = Chem.Conformer(only3.GetNumAtoms())
        for i in range(only3.GetNumAtoms()):
            conf.SetAtomPosition(i, Point3D(rng.uniform(-5, 5), rng.uniform(-5, 5), rng.uniform(-5, 5)))
        conf.Set3D(True)
        only3.AddConformer(conf, assignId=True)
        out.append(('3D only', only3))
    return out


def rd_malformed():
    """RDKit molecules the bridge must reject, or accept in a particular way: unknown element, isotope chython has no entry
    for, charge out of range, bond types outside / inside the table, labels outside the four constants, several radical
    electrons, atom map numbers, stereo on atoms chython does not treat"""
    from rdkit import Chem
    out = []

    def edit(smi, fn, sanitize=False):
        rw = Chem.RWMol(Chem.MolFromSmiles(smi))
        fn(rw)
        m = rw.GetMol()
        try:
            m.UpdatePropertyCache(strict=False)
            [a.GetNumImplicitHs() for a in m.GetAtoms()]
        except Exception:
            return None                # RDKit itself cannot compute valences with this bond type
        return m
    for smi in ('*C', '[*]', 'C[2C]', '[5CH4]', '[99Tc]', '[100H]', '[V+5]', '[Mn+7]', '[C-4]', '[N-5]', '[Os+8]', '[U+6]', '[CH2]', '[C]',
                '[O]', '[N]', '[CH]', '[CH3:5][OH:9]', '[CH3:1][CH3:1]', '[NH3]->[Cu]', '[Cu]<-[NH3]', '[C-]#[O+]->[Fe]', 'C[N@](CC)CCC', 'C[S@](=O)CC',
                'C[C@H](N)[2H]', '[C@]([H])([H])(F)Cl', 'C[Si@H](F)Cl', 'F[P@](Cl)Br', 'C[N@+](CC)(CCC)CCCC', 'CC=[C@]=CC', 'C/C=C/C=C/C',
                'C/C=C=C=C/C', 'C/C=N/O', 'N/N=N/N', 'F/C=C/F', '[Na]', '[Na]Cl', '[H]', '[H][H]', '[HH]', 'C~C', 'C:C'):
        for sanitize in (True, False):
            try:
                m = Chem.MolFromSmiles(smi, sanitize=sanitize)
            except Exception:
                m = None
            if m is not None:
                if not sanitize:
                    m.UpdatePropertyCache(strict=False)
                out.append((f'{smi}|sanitize={sanitize}', m))
    for name in ('ZERO', 'UNSPECIFIED', 'DATIVE', 'QUADRUPLE', 'ONEANDAHALF', 'IONIC', 'HYDROGEN', 'DATIVEONE', 'DATIVEL', 'OTHER', 'AROMATIC'):
        out.append((f'CC bond type {name}', edit('CC.O', lambda rw, name=name: rw.GetBondWithIdx(0).SetBondType(Chem.BondType.names[name]))))
        out.append((f'second bond type {name}', edit('CCO', lambda rw, name=name: rw.GetBondWithIdx(1).SetBondType(Chem.BondType.names[name]))))
    for name in ('STEREOCIS', 'STEREOTRANS', 'STEREOANY', 'STEREOZ', 'STEREOE'):
        def f(rw, name=name):
            bd = rw.GetBondWithIdx(1)
            bd.SetStereoAtoms(0, 3)
            bd.SetStereo(Chem.BondStereo.names[name])
        out.append((f'FC=CCl label {name}', edit('FC=CCl', f)))

        def g(rw, name=name):          # reference atoms that are not the first substituents
            bd = rw.GetBondBetweenAtoms(1, 3)
            bd.SetStereoAtoms(2, 5)
            bd.SetStereo(Chem.BondStereo.names[name])
        out.append((f'FC(Cl)=C(Br)I refs 2,5 label {name}', edit('FC(Cl)=C(Br)I', g)))
    for name in ('CHI_TETRAHEDRAL', 'CHI_OTHER', 'CHI_ALLENE', 'CHI_SQUAREPLANAR', 'CHI_TETRAHEDRAL_CW', 'CHI_TETRAHEDRAL_CCW'):
        out.append((f'FC(Cl)(Br)I tag {name}', edit('FC(Cl)(Br)I', lambda rw, name=name: rw.GetAtomWithIdx(1).SetChiralTag(Chem.ChiralType.names[name]))))
        out.append((f'CC(C)(F)Cl tag {name}', edit('CC(C)(F)Cl', lambda rw, name=name: rw.GetAtomWithIdx(1).SetChiralTag(Chem.ChiralType.names[name]))))
        out.append((f'C=C tag {name}', edit('FC(Cl)=C', lambda rw, name=name: rw.GetAtomWithIdx(1).SetChiralTag(Chem.ChiralType.names[name]))))
    for k in (2, 3, 4):
        out.append((f'{k} radical electrons', edit('CC', lambda rw, k=k: rw.GetAtomWithIdx(0).SetNumRadicalElectrons(k))))
    out.append(('empty', Chem.Mol()))
    return out


def ch_malformed(rng):
    """chython molecules on the edge of what to_rdkit_molecule handles"""
    from chython import smiles, MoleculeContainer
    out = []
    for smi in ('c1ccncc1', 'Cn1cnc2ccccc12', 'O=c1cc[nH]cc1', 'c1ccsc1'):      # as parsed: hetero atoms without hydrogen count
        out.append((f'{smi}|raw', smiles(smi), True))
    out.append(('empty', MoleculeContainer(), True))
    m = MoleculeContainer()
    m.add_atom('C')
    m.add_atom('Fe')
    m.add_atom(8)
    m.add_bond(1, 2, 8)
    m.add_bond(3, 2, 8)
    out.append(('built C~Fe~O', m, True))
    for smi in ('C[C@H](N)C(=O)O', 'F/C=C/Cl', 'CC=[C@]=CC', 'C/C=C=C=C/C'):
        m = smiles(smi)
        set_coords(m, rng)
        m._conformers = [{n: (rng.uniform(-3, 3), rng.uniform(-3, 3), rng.uniform(-3, 3)) for n in m._atoms} for _ in range(2)]
        out.append((f'{smi}|conformers', m, True))
        out.append((f'{smi}|conformers|nomap', m, False))
    m = smiles('CCO')
    m._conformers = []
    out.append(('CCO|empty conformer list', m, True))
    return out


def correspondence(ck, n_corpus):
    from rdkit import RDLogger
    RDLogger.DisableLog('rdApp.*')
    rng = random.Random(f'{ck.seed}:c20:corr')
    cs = Cases(ck)
    corr_tables(cs)
    pool = [('stereo', x) for x in STEREO_SMILES] + [('metal', x) for x in METAL_SMILES] + [('atoms', x) for x in ATOM_SMILES] + \
           [('bare', x) for x in BARE_SMILES[:8]] + [('perm', x) for x in corpus.sample(perm_smiles(), 40, ck.seed, 'c20perm')] + \
           [('corpus', x) for x in corpus.sample(corpus.lipo(), n_corpus, ck.seed, 'c20corr')] + \
           [('corpus-stereo', x) for x in corpus.sample(corpus.stereo_smiles(), n_corpus // 2, ck.seed, 'c20corrs')]
    smiles_of = {}
    full = ck.tier == 'thorough'
    for kind, smi in pool:
        forms = normal_forms(smi)
        ck.count('corr-input:' + kind + ('' if forms else ' (not accepted by chython)'))
        rich = kind in ('stereo', 'perm', 'corpus-stereo')
        if forms:
            kek, aro = forms
            variants = [('kekule', kek), ('aromatic', aro)] if str(kek) != str(aro) else [('plain', kek)]
            ren = sparse_renumber(forms[1], rng)
            set_coords(ren, rng)
            variants.append(('renumbered+xy', ren))
            if not full:
                variants = variants[-1:] + [rng.choice(variants[:-1])] if rich else [rng.choice(variants)]
            for vname, m in variants:
                tag = f'{smi}|{vname}'
                smiles_of[tag] = smi
                rd, _ = corr_to(cs, tag, m, keep=(vname != 'renumbered+xy' or rng.random() < 0.7))
                if rd is not None and rng.random() < (0.5 if full else 0.2):
                    corr_from(cs, tag + '|back', rd)           # the molecule the bridge itself built
                    smiles_of[tag + '|back'] = smi
        rvs = rd_variants(smi, rng)
        if not full and rvs:
            rvs = rvs[:1] + ([rng.choice(rvs[1:])] if len(rvs) > 1 and rng.random() < 0.6 else []) if rich else [rng.choice(rvs)]
        for vname, rd in rvs:
            tag = f'{smi}|rdkit {vname}'
            smiles_of[tag] = smi
            m2, _ = corr_from(cs, tag, rd)
            if m2 is not None and rng.random() < (0.3 if full else 0.15):
                corr_to(cs, tag + '|back', m2)
                smiles_of[tag + '|back'] = smi
    for tag, rd in rd_malformed():
        if rd is None:
            ck.count('corr-input:malformed rdkit (RDKit cannot hold it)')
            continue
        ck.count('corr-input:malformed rdkit')
        corr_from(cs, 'malformed:' + tag, rd)
    for tag, m, keep in ch_malformed(rng):
        ck.count('corr-input:malformed chython')
        corr_to(cs, 'malformed:' + tag, m, keep)
    import time
    t0 = time.time()
    ck.extra['corr_text_kb'] = (sum(map(len, cs.small)) + sum(map(len, cs.big))) // 1024
    ok1, f1, log1 = coqcases.run_cases('c20s', IMPORTS, cs.small, extra=EXTRA, shard=1500)
    ok2, f2, log2 = coqcases.run_cases('c20b', IMPORTS, cs.big, extra=EXTRA, shard=60)
    ck.extra['corr_coq_s'] = round(time.time() - t0, 1)
    good = ok1 and ok2 and not f1 and not f2
    bad = [cs.smallmeta[i] for i in f1] + [cs.bigmeta[i] for i in f2]
    ck.oblige('correspondence: to_rdkit_molecule before SanitizeMol and from_rdkit_molecule before fix_structure == Coq model '
              '(atoms, bonds, chiral tags, double-bond labels, conformers, dictionaries, exceptions)', good, 'correspondence',
              (log1 + log2)[-1500:] or repr(bad[:6]))
    ck.extra['correspondence_cases'] = len(cs.small) + len(cs.big)
    ck.extra['correspondence_whole_molecule_cases'] = len(cs.big)
    if cs.big:
        ck.sample({'model_call': cs.big[0][:400], 'meta': repr(cs.bigmeta[0])})
    for i in (len(cs.small) // 2, len(cs.small) - 1):
        ck.sample({'model_call': cs.small[i][:300], 'meta': repr(cs.smallmeta[i])})
    suspects = []
    for mt in bad:
        smi = smiles_of.get(mt[0])
        if smi and smi not in suspects:
            suspects.append(smi)
    return good, bad, (log1 + log2), suspects
